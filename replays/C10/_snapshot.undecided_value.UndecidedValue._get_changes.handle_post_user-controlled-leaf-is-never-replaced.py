"""Replay file written by /verif/check.py
{
 "property": "C10",
 "failed_obligation": "_snapshot.undecided_value.UndecidedValue._get_changes.handle/post:user-controlled-leaf-is-never-replaced",
 "path": 3,
 "function": "inline_snapshot._snapshot.undecided_value.UndecidedValue._get_changes.handle",
 "verdict": "refuted",
 "backend": "z3-5.1",
 "solver_model": "None_Node = Node!val!0\nNone_Val = Val!val!0\ncode_from = [else -> Code!val!0]\nempty_Rec_Chg = K(Int,\n  mk_Rec_Chg(\"!0!\",\n             \"\",\n             Node!val!1,\n             Val!val!0,\n             Val!val!0,\n             Code!val!0,\n             0))\nis_container = [else -> False]\nisinst_JoinedStr = [else -> True]\nisinst_Unmanaged = [else -> False]\nnode!4 = Node!val!1\nnode_tokens = [else -> Toks!val!0]\nobj!5 = Val!val!1\ntokens_of = [else -> Toks!val!1]",
 "where": ""
}
"""

print('no native failing input was found for this obligation; see the header for the solver output')
