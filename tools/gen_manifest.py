#!/verif/.venv/bin/python
"""Regenerates MANIFEST.json from the table below (kept in one place so it always validates)."""
import json
from pathlib import Path

HERE = Path(__file__).resolve().parent.parent
props = [json.loads(l) for l in (HERE / "properties.jsonl").read_text().splitlines() if l.strip()]

TECH = "contract-based deductive verification: VCs generated from the real function ASTs against sidecar contracts, discharged by z3/cvc5"

STD_NOTE = ("Trusted: the Python semantics assumptions PS1-PS9 and, where a clause says so, E1/E2 (DESIGN section 3); assumed contracts on "
            "dependencies X1-X15 (DESIGN section 7) as listed per run in the evidence file; pyvc itself (VC generator) and z3/cvc5. "
            "Functions not under contract are listed in DESIGN section 12.")

CLAIMED = {
    "C05": dict(text="Category algebra as postconditions of the real value classes: MinMaxValue._get_changes (fix iff bound violated, trim iff slack, update only for equal value, "
                     "writes the recorded extreme), the aggregation invariants of _generic_cmp / __contains__ (preserved by every operation, hence for every observation sequence), "
                     "UndecidedValue._get_changes (updates keep the value).", note=STD_NOTE, ref="6 (C05), 12"),
    "C06": dict(text="Return-value clauses of _return, EqValue.__eq__, MinMaxValue._generic_cmp, CollectionValue.__contains__ and the UndecidedValue dispatchers (without flags the result "
                     "object of the plain comparison is returned), plus the complete method-resolution table (every other operator raises TypeError).", note=STD_NOTE, ref="6 (C06), 12"),
    "C07": dict(text="Counter clauses of the four operations and _return in every flag mode (missing / failing comparisons are counted, holding ones are not), proved for all values and flag sets.",
                note=STD_NOTE, ref="6 (C07), 12"),
    "C14": dict(text="Frame conditions (nothing outside self._new_value/_changes and the two counters is assigned), commit-once and aggregation invariants of the value classes.", note=STD_NOTE, ref="6 (C14), 12"),
    "C17": dict(text="clone() returns deepcopy(obj) and raises UsageError iff the copy is unequal; every store of an observed value in the value classes is such a copy.", note=STD_NOTE, ref="6 (C17), 12"),
    "C01": dict(text="In-repo links of the create chain as obligations: SnapshotReference._changes (one CallArg(create) carrying _new_value and its code for a compared empty call), "
                     "ValueAdapter.assign (missing value -> Replace(create) with the code of the new value), the recording clauses of the value classes; the end-to-end round trip "
                     "(X1 repr, X2 black, X10 tokenize) is covered by the bounded stand-in B-rt and reported separately.", note=STD_NOTE, ref="6 (C01), 12"),
    "C02": dict(text="_return/EqValue.__eq__ make the comparison succeed with the adapter result under create/fix (the test continues), ValueAdapter.assign replaces a differing leaf by the new "
                     "value, the alignment kernels consume every element exactly once (no StopIteration); Adapter.get_adapter edits element-wise only for values of the same class (any other pair, subclass instances included, is replaced as a whole); the sequence / dict / call adapters are under contract (DESIGN 12.3), the constructor-argument extraction of the dataclass-like adapters is covered by the bounded stand-in B-rt.", note=STD_NOTE, ref="6 (C02), 12, 13"),
    "C03": dict(text="generic_sequence_update only replaces gaps between kept elements inside the braces (Q1/Q2), Replace.apply replaces exactly its own node, SourceFile.new_code is a plain splice when the "
                     "file is not clean and no command is set, ensure_import inserts after docstring and leading imports; the position helpers (start_of / end_of / range_of, SourcePosition.offset = character offset), Change.replace / insert / delete / _replace (exactly one replacement with exactly that range and text, checked after it is added), SourceFile._check (sorted replacements well-formed and disjoint, both directions) and ChangeRecorder.get_source (one SourceFile per path) are under contract; byte-level layout is covered by B-layout.", note=STD_NOTE, ref="6 (C03), 12, 13"),
    "C04": dict(text="Event-order contract on the real pytest_sessionfinish with havoc environment and an exception allowed at every call boundary: fix_all only on a recorder whose applied changes are all "
                     "approved (flag given or review answered y), nothing written under short-report / inactive / xdist / CI, removal only under approved trim; Example.run_inline applies exactly the "
                     "update_flags categories; snapshot_check runs xfail tests inactive, is_xfail is true iff an xfail marker applies at any level (function, class, module) and its condition is not False; snapshot() inactive returns its argument; Flags table complete. Real sessions in B-sess.", note=STD_NOTE, ref="6 (C04), 12"),
    "C08": dict(text="An update change never changes the value and is only pending when the tokens differ (UndecidedValue/MinMaxValue/ValueAdapter clauses); nothing pending for an untouched empty snapshot; "
                     "the token functions of _utils keep no state between calls (syntactic frame condition, static table); SourceFile.diff compares the unmodified lines of old and new text; the fixed-point over black/tokenize is covered by the bounded stand-in B-fixpoint.", note=STD_NOTE, ref="6 (C08), 12, 13"),
    "C09": dict(text="One apply_all per recorder never edits a container twice (O6 on the real session hook), generic_sequence_update handles deletes next to inserts in one ordered edit, Flags.all iteration order; "
                     "all k! orders vs the combined run on real sessions in B-fixpoint.", note=STD_NOTE, ref="6 (C09), 12"),
    "C10": dict(text="ValueAdapter.assign returns the old object and emits nothing for Unmanaged values and f-strings; generic_sequence_update never touches a kept element; Replace.apply touches only its own node; "
                     "star-expression / Is() containers through the real pipeline in B-layout.", note=STD_NOTE, ref="6 (C10), 12"),
    "C12": dict(text="Per-character lemma discharged completely over all 1 112 064 code points x 3 closure states on the mechanically extracted escape_char (back end cpython-exhaustive/static-evaluation); "
                     "the composition literal_eval(generated literal) == s is bounded (B-str).", note=STD_NOTE, ref="6 (C12), 12"),
    "C13": dict(text="Session-level storage events on the real pytest_sessionfinish: persist precedes fix_all and happens only with an approved change, remove only under approved trim and never under "
                     "short-report / inactive; histories of real sessions in B-sess. DiscStorage.lookup_all / list return exactly the names of the stored files matching the reference / of all stored files (set comprehension semantics, glob as assumed contract), which are the callee contracts unused_externals is verified against; see DESIGN section 12/13 for what is not yet under contract.", note=STD_NOTE, ref="6 (C13), 12, 13"),
    "C15": dict(text="With an exception allowed at every call boundary: SourceFile.rewrite computes new_code before open (file old or complete on every exit), fix_all leaves no file truncated, "
                     "format_code degrades to the input text plus a problem on non-zero exit / missing black / black exception, the session state is popped exactly once and capture resumed on every path.",
                note=STD_NOTE, ref="6 (C15), 12"),
    "C16": dict(text="format_code without black returns its input and reports a problem (layout only); determinism across hash seeds and formatter configurations is covered by the bounded stand-in B-seed "
                     "(sort_set_values is listed as not yet under contract).", note=STD_NOTE, ref="6 (C16), 12"),
    "C19": dict(text="Example.run_inline: applied set = changes whose flag is in update_flags, one apply_all + fix_all on a fresh recorder, state popped on every path -- the same event suffix as the plugin's "
                     "final block; SourceFile.diff / virtual_write and ChangeRecorder.virtual_write (the preview the plugin decides on: compares unmodified lines, writes nothing to disk) are under contract; the three drivers are compared on real projects in B-drivers.", note=STD_NOTE, ref="6 (C19), 12, 13"),
    "C20": dict(text="SourceFile.new_code gate: not clean and no format-command => result is the plain splice (no whole-file formatting); clean or enforced => result is formatter output of the splice "
                     "(clean afterwards iff black is idempotent, X15); file_mode_for_path maps the four pyproject options exactly; B-layout checks real files.", note=STD_NOTE, ref="6 (C20), 12"),
    "C18": dict(text="All safety obligations (index in range, attribute defined, next() not exhausted, asserts, no undeclared exception) and termination measures of the functions under contract on the "
                     "collect/apply path; emitted replacement ranges of generic_sequence_update are well-formed, ordered and disjoint; SourceFile._check returns normally iff the sorted replacements are well-formed and pairwise adjacent-disjoint (loop invariants over a sort model), range_of raises ValueError exactly for an inverted range.", note=STD_NOTE, ref="6 (C18), 12, 13"),
    "C11": dict(
        text="Proof obligations over the real alignment kernels (align, nw_align, add_x): script validity, every 'm' pairs equal elements, "
             "equal common prefix/suffix kept, consumption counts; all loops by inductive invariants (unbounded), termination by decreasing measures.",
        note="Assumes PS1/PS2/PS7/PS8 (DESIGN section 3) and X9 (groupby = run-length encoding). The adapter layer that turns the script into edits is "
             "covered by the contracts tagged C11 in contracts/; what is not yet under contract is listed in DESIGN section 12.",
        ref="6 (C11), 12",
    ),
}

NA_REASON = "check not built yet in this session (engine under construction); see DESIGN.md section 6"

m = {
    "version": 1,
    "setup_cmd": "./tools/setup.sh",
    "hooks": {
        "guard": "INLINE_SNAPSHOT_VERIF",
        "enable": "no hook in /repo: contracts are sidecars under /verif/contracts; extraction re-reads /repo/src on every run",
        "baseline_off_cmd": "cd /repo && /venv/bin/python -m pytest -ra -q -p no:cacheprovider --timeout=900 --continue-on-collection-errors",
        "source_commits": [],
        "add_only": True,
    },
    "engines": [
        {"name": "pyvc", "path": "pyvc/", "serves_properties": sorted(CLAIMED),
         "kind_free_text": "VC generator: symbolic execution of the real function ASTs (re-extracted from /repo on every run) against sidecar contracts; "
                           "loops cut by invariants; callee = contract; discharged by z3 5.1 / cvc5 1.0.3 / z3 4.8.12; inductive lemmas for spec functions"},
    ],
    "checks": [],
    "not_applicable": [],
}
for p in props:
    pid = p["id"]
    if pid in CLAIMED:
        c = CLAIMED[pid]
        m["checks"].append({
            "property_id": pid,
            "quick_cmd": f"./check.py {pid} --tier quick",
            "thorough_cmd": f"./check.py {pid} --tier thorough",
            "evidence_file": f"evidence/{pid}.json",
            "replay_cmd_template": "/verif/.venv/bin/python {path}",
            "engine": "pyvc",
            "level_claimed": {"category": "proof", "text": c["text"], "design_ref": c["ref"]},
            "level_note": c["note"],
            "technique": TECH,
        })
    else:
        m["not_applicable"].append({"property_id": pid, "reason": NA_REASON})
(HERE / "MANIFEST.json").write_text(json.dumps(m, indent=1))
import jsonschema

jsonschema.validate(m, json.load(open("/root/.vp/MANIFEST.schema.json")))
print("MANIFEST.json valid;", len(m["checks"]), "checks,", len(m["not_applicable"]), "not applicable")
