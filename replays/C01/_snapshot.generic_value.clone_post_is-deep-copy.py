"""Replay file written by /verif/check.py
{
 "property": "C01",
 "failed_obligation": "_snapshot.generic_value.clone/post:is-deep-copy",
 "path": 1,
 "function": "inline_snapshot._snapshot.generic_value.clone",
 "verdict": "refuted",
 "backend": "z3-5.1",
 "solver_model": "None_Val = Val!val!0\ndeepcopy_Val = [else -> Val!val!2]\nisinst_NoneType = [else -> False]\nisinst_bool = [Val!val!1 -> True, else -> False]\nisinst_bytes = [else -> False]\nisinst_complex = [else -> False]\nisinst_float = [else -> False]\nisinst_frozenset = [else -> False]\nisinst_int = [else -> False]\nisinst_str = [else -> False]\nisinst_tuple = [else -> False]\nobj!1 = Val!val!1",
 "where": ""
}
"""

print('no native failing input was found for this obligation; see the header for the solver output')
