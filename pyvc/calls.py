"""Calls: builtins, repo functions (contract / inline / havoc), closures, constructors."""
from __future__ import annotations

import ast

import z3

from . import extract
from .core import (PathEnd, RaiseSig, ReturnSig, Unsupported, as_slist, fresh_value, is_sym, list_append,
                   list_concat, list_get, list_reversed, pack, slist_of, ty_of, unpack, zint)
from .interp import (_MISSING, _UNBOUND, BUILTINS, BoundBuiltin, Closure, Env, Frame, Interp, Iter, ModuleRef,
                     PyDict, PyList, _is_classmethod, _is_static)
from .types import (BOOL, CHAR, INT, STR, Abs, ClassRef, FuncRef, ListT, Obj, Opaque, OptT, SDict, SList, SSet,
                    SV, sort_of)


def eval_call(I: Interp, n: ast.Call, env: Env):
    # special forms evaluated on the AST
    if isinstance(n.func, ast.Name) and n.func.id in ("all", "any") and len(n.args) == 1 and isinstance(n.args[0], ast.GeneratorExp) and not env.has(n.func.id):
        r = quantifier(I, n.func.id, n.args[0], env)
        if r is not _MISSING:
            return r
    if isinstance(n.func, ast.Name) and n.func.id == "when" and I.V.in_contract_expr:
        # lazy implication: the consequent is not evaluated on paths where the antecedent is concretely false
        c = I.truth(I.eval(n.args[0], env))
        if isinstance(c, bool):
            return I.eval(n.args[1], env) if c else True
        return SV(z3.Implies(c, I.zbool(I.eval(n.args[1], env))), BOOL)
    if isinstance(n.func, ast.Name) and n.func.id == "ifndef" and I.V.in_contract_expr:
        from .interp import _UNBOUND as _UB

        nm = I.eval(n.args[0], env)
        if env.has(nm) and env.lookup(nm) is not _UB:
            return True
        I.V.cover(I, "ifndef:" + nm)
        return I.eval(n.args[1], env)
    if isinstance(n.func, ast.Name) and n.func.id == "ifdef" and I.V.in_contract_expr:
        names = I.eval(n.args[0], env)
        names = [names] if isinstance(names, str) else list(names.items if isinstance(names, PyList) else names)
        from .interp import _UNBOUND as _UB

        if all(env.has(x) and env.lookup(x) is not _UB for x in names):
            I.V.cover(I, "ifdef:" + ",".join(names))
            return I.eval(n.args[1], env)
        return True
    if isinstance(n.func, ast.Name) and n.func.id == "old" and I.V.in_contract_expr:
        return I.V.eval_old(I, n.args[0], env)
    if isinstance(n.func, ast.Name) and n.func.id == "isinstance" and not env.has("isinstance"):
        v = I.eval(n.args[0], env)
        c = I.eval(n.args[1], env)
        return isinstance_(I, v, c, n)
    if isinstance(n.func, ast.Name) and n.func.id == "hasattr" and not env.has("hasattr"):
        v = I.eval(n.args[0], env)
        a = I.eval(n.args[1], env)
        return I.V.hasattr_(I, v, a, n)
    if isinstance(n.func, ast.Name) and n.func.id in ("cast",) and not env.has("cast"):
        return I.eval(n.args[1], env)
    if (isinstance(n.func, ast.Attribute) and n.func.attr == "update" and isinstance(n.func.value, ast.Name) and len(n.args) == 1
            and env.has(n.func.value.id) and isinstance(env.lookup(n.func.value.id), (set, SSet))):
        base = env.lookup(n.func.value.id)
        arg = I.eval(n.args[0], env)
        if isinstance(arg, (SList, SSet)) or isinstance(base, SSet):
            from .types import Abs as _Abs

            ety = base.ety if isinstance(base, SSet) else (arg.ety if isinstance(arg, (SList, SSet)) else _Abs("Any"))
            x = z3.Const(I.ctx.fresh_name("sx"), sort_of(ety))
            old = z3.Select(base.pred, x) if isinstance(base, SSet) else (z3.Or([x == pack(I.ctx, e, ety) for e in base]) if base else z3.BoolVal(False))
            if isinstance(arg, SList):
                i_ = z3.Int(I.ctx.fresh_name("ui"))
                xe = x if arg.ety == ety else None
                new = z3.Exists([i_], z3.And(0 <= i_, i_ < arg.nz(), pack(I.ctx, unpack(I.ctx, z3.Select(arg.arr, i_), arg.ety), ety) == x))
            elif isinstance(arg, SSet):
                new = z3.Select(arg.pred, x) if arg.ety == ety else z3.BoolVal(False)
            else:
                new = z3.Or([x == pack(I.ctx, e, ety) for e in I.concrete_iter(arg)] or [z3.BoolVal(False)])
            env.set(n.func.value.id, SSet(z3.Lambda([x], z3.Or(old, new)), ety))
            return None
    if (isinstance(n.func, ast.Attribute) and n.func.attr == "add" and isinstance(n.func.value, ast.Name) and len(n.args) == 1
            and env.has(n.func.value.id) and isinstance(env.lookup(n.func.value.id), (set, SSet))):
        base = env.lookup(n.func.value.id)
        arg = I.eval(n.args[0], env)
        if is_sym(arg) or isinstance(base, SSet):
            # a set that receives a symbolic element becomes a membership predicate (rebinding the local; PS3)
            ety = base.ety if isinstance(base, SSet) else ty_of(arg)
            x = z3.Const(I.ctx.fresh_name("sx"), sort_of(ety))
            at = pack(I.ctx, arg, ety)
            if isinstance(base, SSet):
                body = z3.Or(z3.Select(base.pred, x), x == at)
            else:
                body = z3.Or([x == pack(I.ctx, e, ety) for e in base] + [x == at])
            env.set(n.func.value.id, SSet(z3.Lambda([x], body), ety))
            return None
    if (isinstance(n.func, ast.Attribute) and n.func.attr == "discard" and isinstance(n.func.value, ast.Name) and len(n.args) == 1
            and env.has(n.func.value.id) and isinstance(env.lookup(n.func.value.id), SSet)):
        base = env.lookup(n.func.value.id)
        arg = I.eval(n.args[0], env)
        x = z3.Const(I.ctx.fresh_name("sx"), sort_of(base.ety))
        env.set(n.func.value.id, SSet(z3.Lambda([x], z3.And(z3.Select(base.pred, x), x != pack(I.ctx, arg, base.ety))), base.ety))
        return None
    f = I.eval(n.func, env)
    args = []
    for a in n.args:
        if isinstance(a, ast.Starred):
            sv_ = I.eval(a.value, env)
            if isinstance(sv_, Opaque) or (isinstance(sv_, SV) and isinstance(sv_.ty, Abs)) or (
                    isinstance(sv_, Iter) and any(isinstance(x, (Opaque, SV)) for x in sv_.srcs)):
                args.append(Opaque("*args"))  # unknown number of positional arguments
            else:
                args.extend(I.concrete_iter(sv_))
        else:
            args.append(I.eval(a, env))
    kwargs = {}
    for kw in n.keywords:
        if kw.arg is None:
            d = I.eval(kw.value, env)
            if isinstance(d, PyDict):
                kwargs.update(d.d)
            elif isinstance(d, Opaque):
                kwargs["**"] = d  # unknown keyword arguments
            else:
                raise Unsupported("**kwargs of symbolic dict")
        else:
            kwargs[kw.arg] = I.eval(kw.value, env)
    return call_value(I, f, args, kwargs, n)


def quantifier(I: Interp, which, gen: ast.GeneratorExp, env: Env):
    """all(body for j in range(lo, hi)) with symbolic bounds -> ForAll / Exists."""
    if len(gen.generators) != 1:
        return _MISSING
    g = gen.generators[0]
    it = g.iter
    if not (isinstance(it, ast.Call) and isinstance(it.func, ast.Name) and it.func.id == "range" and isinstance(g.target, ast.Name)):
        # all/any over the elements of a list of unknown length: quantify over its index
        if isinstance(g.target, ast.Name) and not isinstance(it, ast.Call) or (isinstance(it, ast.Call) and not (isinstance(it.func, ast.Name) and it.func.id in ("zip", "enumerate", "range"))):
            try:
                lst = I.eval(it, env)
            except Unsupported:
                return _MISSING
            if isinstance(lst, SList) and not isinstance(lst.n, int) and isinstance(g.target, ast.Name):
                j = z3.Int(I.ctx.fresh_name("qi"))
                e2 = Env(env)
                e2.set(g.target.id, list_get(I.ctx, lst, j))
                rng = z3.And(0 <= j, j < lst.nz())
                conds = [I.zbool(I.eval(c, e2)) for c in g.ifs]
                body = I.zbool(I.eval(gen.elt, e2))
                if which == "all":
                    return SV(z3.ForAll([j], z3.Implies(z3.And(rng, *conds), body)), BOOL)
                return SV(z3.Exists([j], z3.And(rng, *conds, body)), BOOL)
        return _MISSING
    bounds = [I.eval(a, env) for a in it.args]
    if len(bounds) == 1:
        lo, hi = 0, bounds[0]
    elif len(bounds) == 2:
        lo, hi = bounds
    else:
        return _MISSING
    if not is_sym(lo) and not is_sym(hi) and not I.V.in_contract_expr:
        return _MISSING
    if not is_sym(lo) and not is_sym(hi) and hi <= lo:
        return which == "all"
    j = z3.Int(I.ctx.fresh_name(g.target.id))
    e2 = Env(env)
    e2.set(g.target.id, SV(j, INT))
    rng = z3.And(zint(lo) <= j, j < zint(hi))
    conds = [I.zbool(I.eval(c, e2)) for c in g.ifs]
    # evaluating the body may add definitional assumptions mentioning j: they are universally valid
    # definitions of fresh symbols, so keeping them in the path condition is sound.
    body = I.zbool(I.eval(gen.elt, e2))
    if which == "all":
        return SV(z3.ForAll([j], z3.Implies(z3.And(rng, *conds), body)), BOOL)
    return SV(z3.Exists([j], z3.And(rng, *conds, body)), BOOL)


def isinstance_(I: Interp, v, c, node=None):
    if isinstance(c, tuple):
        rs = [isinstance_(I, v, x, node) for x in c]
        if all(isinstance(r, bool) for r in rs):
            return any(rs)
        return SV(z3.Or([I.zbool(r) for r in rs]), BOOL)
    if callable(c) and not isinstance(c, (ClassRef, FuncRef)):
        for bn, bf in BUILTINS.items():
            if bf is c:
                c = ClassRef(bn, bn)
                break
    name = c.name if isinstance(c, ClassRef) else getattr(c, "qual", str(c)).rsplit(".", 1)[-1]
    qual = c.qual if isinstance(c, ClassRef) else getattr(c, "qual", str(c))
    if isinstance(v, Obj):
        return I.V.obj_isinstance(v, name, qual)
    if isinstance(v, SV) and isinstance(v.ty, Abs):
        return I.V.abs_isinstance(I, v, name, qual)
    if isinstance(v, SV) and isinstance(v.ty, OptT):
        raise Unsupported("isinstance on Optional")
    if isinstance(v, Opaque):
        return SV(z3.Bool(I.ctx.fresh_name(f"isinst_{name}_opq{v.id}")), BOOL)
    pyt = {"str": str, "int": int, "bool": bool, "tuple": tuple, "list": (list, PyList), "dict": (dict, PyDict), "bytes": bytes, "set": set, "type": ClassRef}.get(name)
    if isinstance(v, SV):
        return {INT: name == "int", BOOL: name in ("bool", "int"), CHAR: name == "str", STR: name == "str"}.get(v.ty, False)
    if isinstance(v, SList):
        return name == ("str" if v.is_str else getattr(v, "pykind", "list"))
    if pyt is not None:
        return isinstance(v, pyt)
    return False


def bind_args(fn: ast.FunctionDef, args, kwargs, I: Interp, env_for_defaults: Env, frame):
    a = fn.args
    params = [p.arg for p in a.posonlyargs + a.args]
    bound = {}
    if len(args) > len(params) and a.vararg is None:
        raise Unsupported(f"too many positional args for {fn.name}")
    for p, v in zip(params, args):
        bound[p] = v
    if a.vararg is not None:
        bound[a.vararg.arg] = tuple(args[len(params):])
    for k, v in kwargs.items():
        if k in params or k in [p.arg for p in a.kwonlyargs]:
            bound[k] = v
        elif a.kwarg is not None:
            bound.setdefault(a.kwarg.arg, PyDict({})).d[k] = v
        else:
            raise Unsupported(f"unexpected kwarg {k} for {fn.name}")
    defaults = dict(zip(params[len(params) - len(a.defaults):], a.defaults))
    for p in params:
        if p not in bound:
            if p in defaults:
                bound[p] = I.eval(defaults[p], env_for_defaults, _frame_override=frame)
            else:
                raise Unsupported(f"missing argument {p} for {fn.name}")
    for p, d in zip(a.kwonlyargs, a.kw_defaults):
        if p.arg not in bound:
            if d is None:
                raise Unsupported(f"missing kw-only argument {p.arg}")
            bound[p.arg] = I.eval(d, env_for_defaults, _frame_override=frame)
    if a.kwarg is not None and a.kwarg.arg not in bound:
        bound[a.kwarg.arg] = PyDict({})
    return bound


def run_function(I: Interp, qual, fn, module, cls, bound: dict, closure_env=None):
    """Execute the real body of fn (inlining)."""
    from .stmts import exec_block

    if I.depth > 40:
        raise Unsupported(f"inline depth exceeded at {qual}")
    fr = Frame(qual, fn, module, cls)
    fr.bound = bound
    env = Env(closure_env)
    env.vars.update(bound)
    I.frames.append(fr)
    I.depth += 1
    try:
        if isinstance(fn, ast.Lambda):
            return I.eval(fn.body, env)
        ret = None
        try:
            exec_block(I, extract.strip_docstring(fn.body), env)
        except ReturnSig as r:
            ret = r.value
        if fr.is_generator and not I.V.c.ghost.get("yield_hook"):
            # an inlined generator function: the caller receives a generator object (its yielded events + return value)
            return Obj("generator", {"trace": I.V.frame_trace(I, fr), "value": ret})
        return ret
    finally:
        I.depth -= 1
        I.frames.pop()


def call_value(I: Interp, f, args, kwargs, node=None):
    V = I.V
    if isinstance(f, Closure):
        fn = f.node
        deco = getattr(f, "decorators", [])
        pol = V.closure_policy(I, fn, deco)
        if pol == "havoc":
            return V.havoc_call(I, f"<closure {getattr(fn, 'name', 'lambda')}>", args, kwargs, node)
        if callable(pol):
            return pol(I, args, kwargs, node)
        qual = f"{f.frame.qual}.{getattr(fn, 'name', '<lambda>')}"
        c = V.contract_for(qual)
        if c is not None and V.current_target != qual:
            return V.apply_contract(I, c, args, kwargs, node, fnode=fn, closure=f)
        if c is not None and V.current_target == qual and any(fr.qual == qual for fr in I.frames):
            return V.apply_contract(I, c, args, kwargs, node, fnode=fn, closure=f)
        bound = bind_args(fn, args, kwargs, I, f.env, f.frame) if not isinstance(fn, ast.Lambda) else dict(zip([a.arg for a in fn.args.args], args))
        return run_function(I, qual, fn, f.frame.module, f.frame.cls, bound, f.env)
    if isinstance(f, BoundBuiltin):
        return builtin_method(I, f.base, f.name, args, kwargs, node)
    if isinstance(f, ClassRef):
        return V.construct(I, f, args, kwargs, node)
    if isinstance(f, FuncRef):
        if f.bound_self is not None:
            args = [f.bound_self] + list(args)
        if f.node is None:
            # external callable
            return V.external_call(I, f.qual, args, kwargs, node)
        qual = f.qual
        pol = V.callee_policy(I, qual)
        if pol == "contract":
            recv = f.bound_self if isinstance(f.bound_self, Obj) else None
            return V.apply_contract(I, V.contract_for(qual, recv) or V.c, args, kwargs, node, fnode=f.node)
        if pol == "inline":
            bound = bind_args(f.node, args, kwargs, I, Env(), Frame(qual, f.node, f.module, f.cls))
            return run_function(I, qual, f.node, f.module, f.cls, bound)
        if pol == "havoc":
            return V.havoc_call(I, qual, args, kwargs, node)
        if isinstance(pol, str) and pol.startswith("global:"):
            return V.global_value(I, pol[7:])
        if callable(pol):
            return pol(I, args, kwargs, node)
        raise Unsupported(f"no callee policy for {qual} (called from {I.frame.qual})")
    if isinstance(f, Opaque):
        return V.havoc_call(I, f.what, args, kwargs, node)
    if callable(f):
        # spec function or python builtin registered in BUILTINS
        for bn, bf in BUILTINS.items():
            if bf is f and callable(V.c.callees.get(bn)) and not V.in_contract_expr:
                return V.c.callees[bn](I, args, kwargs, node)  # assumed contract of the builtin given by the sidecar
        if any(isinstance(a, Opaque) for a in args) and f in _OPAQUE_TOLERANT:
            return Opaque("builtin")
        return f(I, *args, **kwargs)
    if isinstance(f, SV) and callable(V.c.ghost.get("call_value_hook")):
        return V.c.ghost["call_value_hook"](I, f, args, kwargs, node)  # calling an abstract value (e.g. a default factory): sidecar model
    raise Unsupported(f"call of {f!r}")


# ------------------------------------------------------------------------------------------------
# builtins


def b_len(I, v):
    if isinstance(v, SV) and v.ty == STR:
        return SV(z3.Length(v.t), INT)
    if v is _UNBOUND and I.V.in_contract_expr:
        return -1  # an unassigned field has no length: clauses comparing it with a real length are false
    if isinstance(v, SList):
        return v.n if isinstance(v.n, int) else SV(v.n, INT)
    if isinstance(v, PyList):
        return len(v.items)
    if isinstance(v, PyDict):
        return len(v.d)
    if isinstance(v, Obj) and "__len__" in v.fields:
        return v.fields["__len__"]
    if isinstance(v, SV) and isinstance(v.ty, Abs):
        return I.V.abs_len(I, v)
    if isinstance(v, Opaque):
        r = fresh_value(I.ctx, INT, "len_opq")
        I.ctx.assume(zint(r) >= 0)
        return r
    if is_sym(v):
        raise Unsupported(f"len of {v!r}")
    return len(v)


def b_zip(I, *its):
    return Iter("zip", list(its))


def b_enumerate(I, it, start=0):
    return Iter("enumerate", [it], start=start)


def b_reversed(I, v):
    if isinstance(v, PyList):
        return PyList(list(reversed(v.items)))
    if isinstance(v, SList):
        return list_reversed(I.ctx, v)
    if isinstance(v, (tuple, str, list)):
        return PyList(list(reversed(v)))
    raise Unsupported(f"reversed({v!r})")


def b_iter(I, v):
    if isinstance(v, Opaque):
        return Opaque("iter")
    if isinstance(v, Iter):
        return v
    if isinstance(v, Obj) and v.cls == "generator":
        return Iter("list", [v])
    return Iter("list", [v])


def b_next(I, it, *default):
    from .stmts import iter_len_and_get

    if isinstance(it, Opaque):
        I.V.may_raise(I, "next")
        return Opaque("next")
    if not isinstance(it, Iter):
        raise Unsupported(f"next() of {it!r}")
    n, getter = iter_len_and_get(I, Iter(it.kind, it.srcs, it.start))
    pos = zint(it.pos)
    ok = z3.simplify(pos < n)
    if default:
        if I.ctx.branch(ok):
            v = getter(pos)
            it.pos = z3.simplify(pos + 1)
            return v
        return default[0]
    I.implicit("StopIteration", ok, "next-not-exhausted", None)
    v = getter(pos)
    it.pos = z3.simplify(pos + 1)
    if z3.is_int_value(it.pos):
        it.pos = it.pos.as_long()
    return v


def b_list(I, v=None):
    if v is None:
        return PyList([])
    if isinstance(v, SList):
        c = v.copy()
        c.immutable = False
        return c
    if isinstance(v, SV) and isinstance(v.ty, Abs):
        return v  # list(xs) of an abstract sequence value (e.g. a token sequence): the same abstract value
    return PyList(I.concrete_iter(v))


def b_tuple(I, v=()):
    if isinstance(v, SList):
        return v
    return tuple(I.concrete_iter(v))


def b_set(I, v=()):
    if isinstance(v, SSet):
        return v
    if isinstance(v, SList):
        x = z3.Const(I.ctx.fresh_name("sx"), sort_of(v.ety))
        i = z3.Int(I.ctx.fresh_name("si"))
        return SSet(z3.Lambda([x], z3.Exists([i], z3.And(0 <= i, i < v.nz(), z3.Select(v.arr, i) == x))), v.ety)
    return {I.hashable(x) for x in I.concrete_iter(v)}


def b_dict(I, v=None, **kw):
    if v is None:
        return PyDict(dict(kw))
    if isinstance(v, PyDict):
        return PyDict(dict(v.d))
    raise Unsupported("dict()")


def b_max(I, *args, key=None):
    return _extreme(I, args, key, ast.GtE)


def b_min(I, *args, key=None):
    return _extreme(I, args, key, ast.LtE)


def _extreme(I, args, key, op):
    if key is not None:
        raise Unsupported("max/min with key")
    items = I.concrete_iter(args[0]) if len(args) == 1 else list(args)
    if not items:
        I.implicit("ValueError", False, "max-nonempty", None)
        raise PathEnd()
    if not any(is_sym(x) or (isinstance(x, tuple) and any(is_sym(y) for y in x)) for x in items):
        return max(items) if op is ast.GtE else min(items)
    best = items[0]
    for x in items[1:]:
        c = I.zbool(I.order(op(), best, x))  # best >= x keeps the first maximal element (CPython semantics)
        best = _ite(I, c, best, x)
    return best


def _ite(I, c, a, b):
    if isinstance(a, tuple) and isinstance(b, tuple) and len(a) == len(b):
        return tuple(_ite(I, c, x, y) for x, y in zip(a, b))
    if isinstance(a, SV) and isinstance(a.ty, OptT) and not (isinstance(b, SV) and b.ty == a.ty):
        a = unpack(I.ctx, sort_of(a.ty).accessor(1, 0)(a.t), a.ty.elem)
    if isinstance(b, SV) and isinstance(b.ty, OptT) and not (isinstance(a, SV) and a.ty == b.ty):
        b = unpack(I.ctx, sort_of(b.ty).accessor(1, 0)(b.t), b.ty.elem)
    if (isinstance(a, SV) and a.ty == STR and isinstance(b, str)) or (isinstance(b, SV) and b.ty == STR and isinstance(a, str)):
        return SV(z3.simplify(z3.If(c, pack(I.ctx, a, STR), pack(I.ctx, b, STR))), STR)
    ta, tb = ty_of(a), ty_of(b)
    if isinstance(a, str) and isinstance(b, str) and ta != tb:
        return SV(z3.If(c, z3.StringVal(a), z3.StringVal(b)), STR)
    if ta is None or tb is None:
        raise Unsupported("ite of untyped values")
    if ta != tb:
        if {ta, tb} <= {INT, BOOL}:
            return SV(z3.simplify(z3.If(c, zint(a), zint(b))), INT)
        raise Unsupported(f"ite of {ta} and {tb}")
    return unpack(I.ctx, z3.simplify(z3.If(c, pack(I.ctx, a, ta), pack(I.ctx, b, tb))), ta)


def b_any(I, v):
    if isinstance(v, Opaque):
        return Opaque("any")
    r = False
    for x in I.concrete_iter(v):
        if I.branch(x):
            return True
    return r


def b_all(I, v):
    if isinstance(v, Opaque):
        return Opaque("all")
    for x in I.concrete_iter(v):
        if not I.branch(x):
            return False
    return True


def b_range(I, *a):
    if any(is_sym(x) for x in a):
        raise Unsupported("range with symbolic bound needs a loop contract")
    return PyList(list(range(*a)))


def b_bool(I, v=False):
    if isinstance(v, Opaque):
        return SV(I.truth(v), BOOL)
    t = I.truth(v)
    return t if isinstance(t, bool) else SV(t, BOOL)


def b_int(I, v=0):
    if is_sym(v):
        if isinstance(v, SV) and v.ty in (INT, BOOL):
            return SV(zint(v), INT)
        raise Unsupported("int() of symbolic non-int")
    if isinstance(v, Opaque):
        return fresh_value(I.ctx, INT, "int_opq")
    return int(v)


def b_str(I, v=""):
    if isinstance(v, (str, int)) and not is_sym(v):
        return str(v)
    return Opaque("str()")


def b_repr(I, v):
    if isinstance(v, (str, int, type(None))) and not is_sym(v):
        return repr(v)
    return Opaque("repr()")


def b_sum(I, v, start=0):
    items = I.concrete_iter(v)
    acc = start
    for x in items:
        acc = I.binop(ast.Add(), acc, x)
    return acc


def b_sorted(I, v, key=None, reverse=False):
    items = I.concrete_iter(v)
    if any(is_sym(x) for x in items) or key is not None:
        return Opaque("sorted()")
    return PyList(sorted(items, reverse=reverse))


def b_getattr(I, o, name, *default):
    if isinstance(o, Obj):
        if name in o.fields and o.fields[name] is not _UNBOUND:
            return o.fields[name]
        if I.V.find_method(o.cls, name) is not None:
            return I.getattr(o, name)
        if default:
            return default[0]
    if isinstance(o, Opaque):
        return Opaque(f"getattr({o.what},{name})")
    return I.getattr(o, name)


def b_setattr(I, o, name, v):
    if not isinstance(name, str):
        raise Unsupported("setattr with a symbolic attribute name")
    I.setattr(o, name, v)
    return None


def b_print(I, *a, **k):
    return None


def b_type(I, v):
    if isinstance(v, Obj):
        return ClassRef(v.cls.rsplit(".", 1)[-1], v.cls)
    return I.V.type_of(I, v)


def b_id(I, v):
    return I.V.id_of(I, v)


def b_super(I):
    """zero-argument super() inside a method: resolves attributes in the MRO behind the defining class"""
    fr = I.frame
    if fr.cls is None or not hasattr(fr, "bound") or "self" not in fr.bound:
        slf = None
        for f in reversed(I.frames):
            if getattr(f, "bound", None) and "self" in f.bound:
                slf = f.bound["self"]
                break
        if slf is None and hasattr(I, "param_env") and I.param_env.has("self"):
            slf = I.param_env.lookup("self")
    else:
        slf = fr.bound["self"]
    if slf is None or fr.cls is None:
        raise Unsupported("super() outside a method")
    return Obj("super-proxy", {"self": slf, "after": fr.cls.qual})


def b_callable(I, v):
    return isinstance(v, (FuncRef, Closure, ClassRef))


BUILTINS.update({
    "len": b_len, "zip": b_zip, "enumerate": b_enumerate, "reversed": b_reversed, "iter": b_iter, "next": b_next,
    "list": b_list, "tuple": b_tuple, "set": b_set, "dict": b_dict, "max": b_max, "min": b_min, "range": b_range,
    "bool": b_bool, "int": b_int, "str": b_str, "repr": b_repr, "sum": b_sum, "sorted": b_sorted,
    "getattr": b_getattr, "setattr": b_setattr, "print": b_print, "any": b_any, "all": b_all, "super": b_super, "map": (lambda I, f, *its: Opaque("map")), "type": b_type, "id": b_id, "callable": b_callable,
    "True": True, "False": False, "None": None, "Ellipsis": Ellipsis,
})
BUILTINS["open"] = FuncRef("open")
BUILTINS["bytes"] = ClassRef("bytes", "bytes")
for _t in ("float", "complex", "frozenset"):
    BUILTINS[_t] = ClassRef(_t, _t)
for _e in ("Exception", "AssertionError", "TypeError", "ValueError", "KeyError", "IndexError", "StopIteration",
           "AttributeError", "ImportError", "ModuleNotFoundError", "NotImplementedError", "RuntimeError",
           "SyntaxError", "OSError", "FileNotFoundError", "BaseException", "LookupError", "NotImplemented"):
    BUILTINS[_e] = ClassRef(_e, _e)


_OPAQUE_TOLERANT = {b_sum, b_sorted, b_str, b_repr, b_int, b_list, b_tuple, b_set, b_dict, b_max, b_min, b_bool}


def builtin_method(I: Interp, base, name, args, kwargs, node=None):
    ctx = I.ctx
    if isinstance(base, PyList):
        if name == "append":
            base.items.append(args[0])
            return None
        if name == "extend":
            base.items.extend(I.concrete_iter(args[0]))
            return None
        if name == "sort" and not args and not kwargs:
            if any(is_sym(x) or isinstance(x, (Obj, Opaque)) for x in base.items):
                return I.V.sort_hook(I, base, node)
            base.items.sort()
            return None
        if name == "index":
            for i, x in enumerate(base.items):
                if I.branch(I.py_eq(x, args[0])):
                    return i
            I.implicit("ValueError", False, "index-found", node)
            raise PathEnd()
        if name == "copy":
            return PyList(list(base.items))
        if name == "pop" and not args:
            I.implicit("IndexError", len(base.items) > 0, "pop-nonempty", node)
            return base.items.pop()
        if name == "count":
            return sum(1 for x in base.items if I.branch(I.py_eq(x, args[0])))
    if isinstance(base, SList):
        if name == "index" and len(args) == 1:
            # first position of the element (term equality; PS5 for hashable keys)
            x = pack(ctx, args[0], base.ety)
            k = z3.Int(ctx.fresh_name("idx"))
            j = z3.Int(ctx.fresh_name("j"))
            found = z3.Exists([j], z3.And(0 <= j, j < base.nz(), z3.Select(base.arr, j) == x))
            I.implicit("ValueError", found, "index-found", node)
            ctx.assume(z3.And(0 <= k, k < base.nz(), z3.Select(base.arr, k) == x,
                              z3.ForAll([j], z3.Implies(z3.And(0 <= j, j < k), z3.Select(base.arr, j) != x))))
            return SV(k, INT)
        if name == "append":
            list_append(ctx, base, args[0])
            return None
        if name == "copy":
            c = base.copy()
            c.immutable = False
            return c
        if name == "sort" and I.V.c.ghost.get("slist_sort"):
            # list.sort() of a list of unknown length: only through the sidecar's model of the sort (an assumed contract, X9)
            return I.V.c.ghost["slist_sort"](I, base, args, kwargs, node)
        if base.is_str:
            return str_method_sym(I, base, name, args, kwargs, node)
    if isinstance(base, str):
        if not any(is_sym(a) or isinstance(a, (PyList, Opaque)) for a in args):
            r = getattr(base, name)(*args, **kwargs)
            return PyList(r) if isinstance(r, list) else r
        if name == "join":
            return I.V.join_hook(I, base, args[0], node)
        if name == "format":
            return Opaque("str.format")
        return str_method_sym(I, base, name, args, kwargs, node)
    if isinstance(base, PyDict):
        if name == "items":
            return PyList([(k, v) for k, v in base.d.items()])
        if name == "keys":
            return PyList(list(base.d.keys()))
        if name == "values":
            return PyList(list(base.d.values()))
        if name == "get":
            k = args[0]
            if is_sym(k):
                for kk, vv in base.d.items():
                    if I.branch(I.py_eq(k, kk)):
                        return vv
                if getattr(base, "assoc", None) is not None and not (isinstance(base.assoc.n, int) and base.assoc.n == 0):
                    raise Unsupported("dict.get with symbolic key on an association list")
                return args[1] if len(args) > 1 else None
            return base.d.get(k, args[1] if len(args) > 1 else None)
        if name == "setdefault":
            return base.d.setdefault(args[0], args[1] if len(args) > 1 else None)
        if name == "update":
            base.d.update(args[0].d if isinstance(args[0], PyDict) else args[0])
            return None
        if name == "pop":
            if args[0] in base.d:
                return base.d.pop(args[0])
            if len(args) > 1:
                return args[1]
            I.implicit("KeyError", False, "key-present", node)
            raise PathEnd()
    if isinstance(base, SDict):
        if name == "get":
            k = pack(ctx, args[0], base.kty)
            if ctx.branch(z3.Select(base.dom, k)):
                return unpack(ctx, z3.Select(base.map, k), base.vty)
            return args[1] if len(args) > 1 else None
    if isinstance(base, set):
        if name == "add":
            base.add(I.hashable(args[0]))
            return None
        if name == "update":
            base.update(I.concrete_iter(args[0]))
            return None
    if isinstance(base, Iter) and name == "__next__":
        return b_next(I, base)
    r = I.V.method_hook(I, base, name, args, kwargs, node)
    if r is not _MISSING:
        return r
    if isinstance(base, SV) and base.ty == STR:
        if name == "endswith" and len(args) == 1 and isinstance(args[0], (str, SV)):
            return SV(z3.simplify(z3.SuffixOf(pack(I.ctx, args[0], STR), base.t)), BOOL)
        if name == "startswith" and len(args) == 1 and isinstance(args[0], (str, SV)):
            return SV(z3.simplify(z3.PrefixOf(pack(I.ctx, args[0], STR), base.t)), BOOL)
        if name == "replace" and len(args) == 3 and args[2] == 1 and all(isinstance(a, (str, SV)) for a in args[:2]):
            # str.replace(old, new, 1) is SMT-LIB str.replace (first occurrence)
            return SV(z3.Replace(base.t, pack(I.ctx, args[0], STR), pack(I.ctx, args[1], STR)), STR)
        return I.V.havoc_call(I, f"str.{name}", args, kwargs, node)
    raise Unsupported(f"method {name} on {base!r}")


def str_method_sym(I, base, name, args, kwargs, node):
    r = I.V.method_hook(I, base, name, args, kwargs, node)
    if r is not _MISSING:
        return r
    raise Unsupported(f"str method {name} on symbolic text")
