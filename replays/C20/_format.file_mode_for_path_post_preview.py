"""Replay file written by /verif/check.py
{
 "property": "C20",
 "failed_obligation": "_format.file_mode_for_path/post:preview",
 "path": 1,
 "function": "inline_snapshot._format.file_mode_for_path",
 "verdict": "refuted",
 "backend": "z3-5.1",
 "solver_model": "cfg_preview!21 = False\ndefault_preview = True\nhas_line_length!14 = True\nhas_preview!17 = True\nhas_skip_magic_trailing_comma!15 = True\nhas_skip_string_normalization!16 = True\nisnone_opq6!13 = False\npyproject_found!12 = True",
 "where": ""
}
"""

print('no native failing input was found for this obligation; see the header for the solver output')
