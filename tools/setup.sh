#!/bin/sh
# Build the overlay venv /verif/.venv offline: python 3.12 of /venv + z3-solver/cvc5/jsonschema wheels,
# plus a .pth that exposes /venv's site-packages (repo deps: asttokens, executing, black, pytest, ...).
set -e
cd "$(dirname "$0")/.."
V=.venv
if [ -x "$V/bin/python" ] && "$V/bin/python" -c "import z3, jsonschema, asttokens, executing, black, pytest" 2>/dev/null; then
  echo "overlay venv present"; exit 0
fi
rm -rf "$V"
/venv/bin/python -m venv "$V"
PIP_NO_INDEX=1 "$V/bin/python" -m pip install -q --no-index --no-deps --find-links /opt/veriftools/wheels \
   z3-solver cvc5 jsonschema jsonschema_specifications referencing rpds_py
SP=$("$V/bin/python" -c "import sysconfig; print(sysconfig.get_paths()['purelib'])")
echo "import site; site.addsitedir('/venv/lib/python3.12/site-packages')" > "$SP/zz_venv_overlay.pth"
"$V/bin/python" - <<'PY'
import z3, jsonschema, asttokens, executing, black, pytest
assert asttokens.__file__.startswith('/venv/'), asttokens.__file__
assert executing.__file__.startswith('/venv/'), executing.__file__
assert black.__file__.startswith('/venv/'), black.__file__
import attrs; assert attrs.__file__.startswith("/venv/"), attrs.__file__
print("overlay ok: z3", z3.get_version_string())
PY
