"""B-drivers: Example.run_inline / Example.run_pytest / a raw pytest session agree (C19).

Bounded stand-in only: a handful of small projects without externals x category subsets.
"""
from __future__ import annotations

import ast
import itertools
import json
import os
import random
import shutil
import subprocess
import tempfile
import time
import traceback
from concurrent.futures import ThreadPoolExecutor

from bounded import standin

from ._sessions import (CATS, PY, PYPROJECT_PLAIN, Deadline, Failures, Project, Skipped, clean_env, replay_script, result_for,
                        same_ast, set_deadline, tail)

ALL_SUBSETS = [tuple(c for c, b in zip(CATS, bits) if b) for bits in itertools.product((0, 1), repeat=4)]
HEADER_OF = {"create": "Create snapshots", "fix": "Fix snapshots", "trim": "Trim snapshots", "update": "Update snapshots"}

# runs inside a fresh interpreter: both library drivers on the same files / flags
DRIVER_SCRIPT = r'''
import json, sys, io, contextlib, traceback
spec = json.load(open(sys.argv[1]))
from inline_snapshot.testing import Example

class Capture:
    """stands in for a snapshot argument: records the value it is compared with"""
    def __init__(self): self.value = "<not compared>"
    def __eq__(self, other):
        self.value = other
        return True
    __hash__ = None

out = {}
flag_args = spec["flag_args"]
buf = io.StringIO()
for name in spec["drivers"]:
    cats, changed, raises, rc = Capture(), Capture(), Capture(), Capture()
    try:
        with contextlib.redirect_stdout(buf), contextlib.redirect_stderr(buf):
            if name == "inline":
                Example(dict(spec["files"])).run_inline(flag_args, reported_categories=cats, changed_files=changed, raises=raises)
            else:
                Example(dict(spec["files"])).run_pytest(spec["pytest_args"] + flag_args, changed_files=changed, returncode=rc)
        out[name] = dict(ok=True, categories=cats.value, changed=changed.value, raises=raises.value, returncode=rc.value)
    except BaseException as e:
        out[name] = dict(ok=False, error="".join(traceback.format_exception(type(e), e, e.__traceback__))[-3000:])
json.dump(out, open(sys.argv[2], "w"), default=repr)
'''


def run_drivers(files, flag_args, drivers=("inline", "pytest"), deadline=None):
    if deadline is not None and deadline.expired():
        raise Skipped()
    d = tempfile.mkdtemp(prefix="bdrv-")
    try:
        spec = dict(files=files, flag_args=list(flag_args), pytest_args=["-p", "no:cacheprovider", "-p", "no:benchmark"],
                    drivers=list(drivers))
        with open(os.path.join(d, "spec.json"), "w") as f:
            json.dump(spec, f)
        with open(os.path.join(d, "driver.py"), "w") as f:
            f.write(DRIVER_SCRIPT)
        p = subprocess.run([PY, os.path.join(d, "driver.py"), os.path.join(d, "spec.json"), os.path.join(d, "out.json")],
                           cwd=d, env=clean_env(), capture_output=True, timeout=600)
        try:
            with open(os.path.join(d, "out.json")) as f:
                return json.load(f)
        except Exception:
            return {n: dict(ok=False, error="driver subprocess failed: " + p.stderr.decode(errors="replace")[-2000:]) for n in drivers}
    finally:
        shutil.rmtree(d, ignore_errors=True)


# ---------------------------------------------------------------------------- projects


def projects(rng, quick):
    v = rng.randrange(5, 50)
    s = rng.choice(["a", "hello", "x y"])
    P = {}
    P["four categories"] = {"test_something.py": f'''from inline_snapshot import snapshot


def test_create():
    assert {v} == snapshot()


def test_fix():
    assert {v} == snapshot({v + 1})


def test_trim():
    assert {v} <= snapshot({v + 2})


def test_update():
    assert "{s}" == snapshot(\'\'\'{s}\'\'\')


def test_ok():
    assert [1, 2] == snapshot([1, 2])
'''}
    P["HasRepr value (unparsable repr)"] = {"test_something.py": f'''from inline_snapshot import snapshot


class A:
    def __repr__(self):
        return "<A>"

    def __eq__(self, other):
        if not isinstance(other, A):
            return NotImplemented
        return True


def test_a():
    assert A() == snapshot()


def test_b():
    assert {v} == snapshot({v - 1})
'''}
    P["nested containers"] = {"test_something.py": f'''from inline_snapshot import snapshot


def test_list():
    assert [1, 2, 3, {v}] == snapshot([1, 3, 5])


def test_dict():
    assert {{"a": 1, "c": [{v}, 2]}} == snapshot({{"a": 2, "b": 3}})


def test_tuple():
    assert (1, "{s}") == snapshot()
'''}
    # one snapshot whose pending changes alternate between categories (fix, update, fix / trim, fix, trim)
    P["interleaved categories"] = {"test_something.py": f'''from inline_snapshot import snapshot


def test_alt_list():
    assert [0, 2, {v}] == snapshot([1, 1 + 1, 3])


def test_alt_dict():
    s = snapshot({{"a": 1, "b": 0, "c": 3}})
    assert s["b"] == {v}
'''}
    P["operations in/<=/>=/[key]"] = {"test_something.py": f'''from inline_snapshot import snapshot


def test_in():
    for x in ({v}, {v + 1}):
        assert x in snapshot([{v}, 99])


def test_le():
    assert {v} <= snapshot({v - 1})


def test_ge():
    assert {v} >= snapshot({v - 3})


def test_key():
    s = snapshot({{"k": {v}, "old": 0}})
    assert {v} == s["k"]
    assert "{s}" == s["n"]
'''}
    P["two test files"] = {
        "test_a.py": f"from inline_snapshot import snapshot\n\n\ndef test_a():\n    assert {v} == snapshot()\n    assert \"{s}\" == snapshot(\"{s}!\")\n",
        "test_b.py": f"from inline_snapshot import snapshot\n\n\ndef test_b():\n    assert [{v}] == snapshot([{v}, 1])\n    assert {v} <= snapshot({v + 5})\n",
    }
    P["strings and dataclass"] = {"test_something.py": f'''from dataclasses import dataclass

from inline_snapshot import snapshot


@dataclass
class D:
    a: int
    b: str = "x"


def test_multiline():
    assert "line1\\nline2 {s}\\n" == snapshot()


def test_quotes():
    assert "it's {s}" == snapshot('it\\'s {s}')


def test_dc():
    assert D(a={v}, b="{s}") == snapshot(D(a=0))
'''}
    # the real session applies every change object twice (once for the preview diff of its category, once for the rewrite) and
    # writes a category only when its preview diff is non-empty; the in-process helper applies once and never looks at a diff
    P["insertions in front of kept entries, whitespace-only edits"] = {"test_something.py": f'''from inline_snapshot import snapshot


def test_dict_front():
    assert {{"a": 1, "b": 2, "c": {v}}} == snapshot({{"b": 2}})


def test_list_front():
    assert [{v}, 0, 1, 2] == snapshot([1, 2])


def test_call_front():
    assert dict(a=1, b={v}) == snapshot(dict(b={v}))


def test_trailing_blanks():
    assert "first\\nsecond\\n" == snapshot("""\\
first  
second
""")


def test_blank_inside_brackets():
    assert [1, {v}] == snapshot([1, {v} ])
'''}
    P["a fix whose only textual effect is trailing whitespace"] = {"test_something.py": '''from inline_snapshot import snapshot


def test_trailing_blanks():
    assert "first\\nsecond\\n" == snapshot("""\\
first  
second
""")
'''}
    if not quick:
        P["nothing pending"] = {"test_something.py": f"from inline_snapshot import snapshot\n\n\ndef test_a():\n    assert {v} == snapshot({v})\n"}
        P["loop and repeated evaluation"] = {"test_something.py": f'''from inline_snapshot import snapshot


def check(x):
    assert x == snapshot({v})


def test_a():
    check({v})


def test_b():
    for i in range(3):
        assert i in snapshot([0])
        assert i <= snapshot()
'''}
    for files in P.values():
        files["pyproject.toml"] = PYPROJECT_PLAIN
    return P


# ---------------------------------------------------------------------------- comparison


def changed_of(files, after):
    """like Example: files that are new or differ (top-level files and *.py)"""
    out = {}
    for k, v in after.items():
        if "/" in k and not k.endswith(".py"):
            continue
        t = v.decode("utf-8", "replace")
        if files.get(k) != t:
            out[k] = t
    return out


def strip_hasrepr_import(src):
    try:
        tree = ast.parse(src)
    except SyntaxError:
        return None
    tree.body = [n for n in tree.body if not (isinstance(n, ast.ImportFrom) and n.module == "inline_snapshot"
                                              and [a.name for a in n.names] == ["HasRepr"])]
    return ast.dump(tree)


def has_hasrepr_import(src):
    try:
        tree = ast.parse(src)
    except SyntaxError:
        return False
    return any(isinstance(n, ast.ImportFrom) and n.module == "inline_snapshot" and any(a.name == "HasRepr" for a in n.names)
               for n in tree.body)


def f11_predicate(F, inline_changed, raw_changed):
    """F11: create approved; run_inline and the plugin changed the same files; every differing file uses HasRepr(...) in both,
    the plugin's text has `from inline_snapshot import HasRepr`, run_inline's has no such import, and the two are AST-identical
    once that single import statement is removed."""
    if "create" not in F or set(inline_changed) != set(raw_changed):
        return False
    differing = [k for k in raw_changed if raw_changed[k] != inline_changed[k]]
    if not differing:
        return False
    for k in differing:
        a, b = inline_changed[k], raw_changed[k]
        if "HasRepr(" not in a or "HasRepr(" not in b:
            return False
        if has_hasrepr_import(a) or not has_hasrepr_import(b):
            return False
        if strip_hasrepr_import(b) is None or strip_hasrepr_import(b) != strip_hasrepr_import(a):
            return False
    return True


def describe_diff(a, b):
    """-> (equal, note) for two changed_files dicts"""
    if a == b:
        return True, ""
    if set(a) != set(b):
        return False, f"different sets of changed files: {sorted(a)} vs {sorted(b)}"
    notes = []
    for k in a:
        if a[k] != b[k]:
            notes.append(f"{k}: " + ("formatting only (AST equal)" if k.endswith(".py") and same_ast(a[k], b[k]) else "content differs"))
    return False, "; ".join(notes)


def replay_drivers(files, F):
    flag = "--inline-snapshot=" + ",".join(F)
    body = [
        f"FILES = {dict(files)!r}",
        f"FLAGS = [{flag!r}]" if F else "FLAGS = []",
        "write(PROJ, FILES)",
        "r = session(PROJ, FLAGS)",
        "raw = {k: v.decode() for k, v in r['after'].items() if FILES.get(k) != v.decode()}",
        "sys.path.insert(0, '/repo/src')",
        "from inline_snapshot.testing import Example",
        "class Cap:",
        "    value = None",
        "    __hash__ = None",
        "    def __eq__(self, o):",
        "        self.value = o",
        "        return True",
        "ci, cc, cr = Cap(), Cap(), Cap()",
        "Example(dict(FILES)).run_inline(FLAGS, changed_files=ci, reported_categories=cc, raises=cr)",
        "cp, rc = Cap(), Cap()",
        "Example(dict(FILES)).run_pytest(['-p', 'no:cacheprovider', '-p', 'no:benchmark'] + FLAGS, changed_files=cp, returncode=rc)",
        "print('raw   ', raw); print('inline', ci.value); print('pytest', cp.value)",
        "assert cp.value == raw, 'run_pytest differs from raw session'",
        "assert ci.value == raw, 'run_inline differs from raw session'",
        "P2 = os.path.join(ROOT, 'p2'); os.mkdir(P2); write(P2, FILES)",
        f"rep = session(P2, ['--inline-snapshot=' + ','.join({[*F, 'report']!r})])",
        f"listed = sorted(c for c, h in {HEADER_OF!r}.items() if h in rep['out'])",
        "assert cc.value == listed, (cc.value, listed)",
    ]
    return replay_script("\n".join(body))


def submit_case(ex, pname, files, F, deadline=None):
    """three independent jobs per case: both library drivers (one subprocess), raw session with F, raw session with F+report"""
    flag_args = ["--inline-snapshot=" + ",".join(F)] if F else []

    def raw_job(args):
        with Project(files) as p:
            return p.run(args)

    return dict(drv=ex.submit(run_drivers, files, flag_args, ("inline", "pytest"), deadline), raw=ex.submit(raw_job, flag_args),
                rep=ex.submit(raw_job, ["--inline-snapshot=" + ",".join([*F, "report"])]))


@standin("B-drivers", props=["C19"],
         bound="6 (quick) / 8 (thorough) small projects without externals x 3 (quick) / 16 (thorough) category subsets: "
               "Example.run_inline vs Example.run_pytest vs raw pytest subprocess (changed files as text) and run_inline's "
               "reported categories vs the headers of a `--inline-snapshot=<F>,report` session")
def run(tier, seed):
    return _run(tier, seed)


def run_for(pid, tier, seed):
    return result_for(pid, _run(tier, seed))


run.run_for = run_for


def _run(tier, seed):
    t0 = time.time()
    rng = random.Random(seed)
    fails = Failures()
    samples, cross = [], []
    evaluated = distinct = 0
    deadline = set_deadline(Deadline(tier))
    try:
        quick = tier == "quick"
        P = projects(rng, quick)
        cases = []
        for pname, files in P.items():
            if quick:
                subs = [(), CATS, rng.choice([F for F in ALL_SUBSETS if 0 < len(F) < 4 and "create" in F])]
                if pname.startswith("HasRepr"):
                    subs = [(), ("create",), ("create", "fix")]
            else:
                subs = ALL_SUBSETS
            for F in subs:
                cases.append((pname, files, tuple(F)))
        with ThreadPoolExecutor(max_workers=8) as ex:
            futs = [(c, submit_case(ex, *c, deadline)) for c in cases]
            for (pname, files, F), f in futs:
                desc = dict(project=pname, flags=list(F))
                try:
                    res = {k: v.result() for k, v in f.items()}
                    evaluated += 3
                    distinct += 1
                except Skipped:
                    continue
                except BaseException:
                    fails.add(None, desc, "harness exception:\n" + traceback.format_exc(), "")
                    continue
                drv, raw, rep = res["drv"], res["raw"], res["rep"]
                raw_changed = changed_of(files, raw.after)
                rep_changed = changed_of(files, rep.after)
                listed = sorted(c for c, h in HEADER_OF.items() if h in rep.out)
                replay = replay_drivers(files, F)
                if len(samples) < 5:
                    samples.append(dict(desc, raw_changed_files=sorted(raw_changed), categories_listed=listed))
                # raw F vs raw F,report (C04 cross-check, same session semantics)
                eq, note = describe_diff(raw_changed, rep_changed)
                if not eq:
                    fails.add(None, desc, f"C19/C04: raw session with flags differs from flags+report: {note}", replay)
                for name in ("pytest", "inline"):
                    d = drv.get(name) or dict(ok=False, error="missing")
                    if not d["ok"]:
                        fails.add(None, dict(desc, driver=name), f"C19: Example.run_{name} raised:\n{d['error']}", replay)
                        continue
                    eq, note = describe_diff(d["changed"], raw_changed)
                    if not eq:
                        finding = "F11" if (name == "inline" and f11_predicate(F, d["changed"], raw_changed)) else None
                        ex_k = next((k for k in raw_changed if d["changed"].get(k) != raw_changed[k]), None)
                        fails.add(finding, dict(desc, driver=name),
                                  f"C19: changed files of Example.run_{name} differ from the raw pytest session: {note}\n"
                                  f"--- run_{name} {ex_k}:\n{d['changed'].get(ex_k)}\n--- raw pytest {ex_k}:\n{raw_changed.get(ex_k)}", replay)
                    if name == "pytest" and d["returncode"] != raw.rc:
                        fails.add(None, dict(desc, driver=name), f"C19: run_pytest exit status {d['returncode']} != raw {raw.rc}", replay)
                    if name == "inline" and d["categories"] != listed:
                        fails.add(None, dict(desc, driver=name),
                                  f"C19: run_inline reported categories {d['categories']} but the report session lists {listed}\n"
                                  + tail("\n".join(l for l in rep.out.splitlines() if not l.startswith("| ")), 25), replay)
        cross += [
            "X: Example.run_pytest removes only CI and GITHUB_ACTIONS from the environment (harness removes all CI variables)",
            "X: Example._read_files reports top-level files and *.py only",
            "X: comparison objects with a reflected __eq__ capture reported_categories / changed_files / returncode",
        ]
    except BaseException:
        fails.add(None, "B-drivers driver", "driver exception:\n" + traceback.format_exc(), "")
    finally:
        set_deadline(None)
    if deadline.skipped:
        cross.append(f"BUDGET: {deadline.skipped} jobs skipped because the {tier} wall-clock budget was used up")
    return dict(skipped=deadline.skipped, evaluated=evaluated, distinct=distinct, failures=fails.items, samples=samples[:5], cross_checks=cross,
                seconds=round(time.time() - t0, 1), dropped={str(k): v for k, v in fails.dropped.items()})
