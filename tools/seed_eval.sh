#!/bin/sh
# usage: seed_eval.sh <seeded-dir> [extra property ids...]
# Confirms a seeded change (demo passes on HEAD, fails with the patch) and runs the property's check against it.
D=$1; shift
PID=$(/verif/.venv/bin/python -c "import json,sys; print(json.load(open('$D/meta.json'))['property'])")
cd /repo || exit 9
test -z "$(git status --porcelain)" || { echo "REPO DIRTY"; exit 9; }
echo "== $D property=$PID: $(/verif/.venv/bin/python -c "import json; print(json.load(open('$D/meta.json'))['summary'][:150])")"
( cd /tmp && env -u CI /venv/bin/python $D/demo.py >/tmp/seed_demo_clean.out 2>&1 ); echo "demo on HEAD exit=$?"
git apply $D/patch.diff || { echo "PATCH DOES NOT APPLY"; exit 8; }
( cd /tmp && env -u CI /venv/bin/python $D/demo.py >/tmp/seed_demo_mut.out 2>&1 ); echo "demo with patch exit=$?"
cd /verif
for P in $PID "$@"; do
  timeout 900 ./check.py $P > /tmp/seed_check_$P.out 2>&1; echo "check $P exit=$? :: $(grep -c '^VIOLATION' /tmp/seed_check_$P.out) violation line(s), $(grep -c '^UNDECIDED' /tmp/seed_check_$P.out) undecided, $(grep -c '^CHECKER-FAULT' /tmp/seed_check_$P.out) faults"
  grep '^VIOLATION\|^CHECKER-FAULT' /tmp/seed_check_$P.out | cut -c1-260 | head -4
  grep '^UNDECIDED' /tmp/seed_check_$P.out | cut -c1-200 | head -3
done
git -C /repo checkout -- . ; test -z "$(git -C /repo status --porcelain)" && echo "repo restored"
rm -rf /verif/replays
