"""Replay file written by /verif/check.py
{
 "property": "C16",
 "standin": "B-seed",
 "bound": "fixed list of 39 (quick) / 48 (thorough) set / frozenset / dict / Enum values, each rendered by code_repr and _value_to_code in separate interpreters with PYTHONHASHSEED 0..3 (quick) / 0..7 (thorough) x {black, black import blocked, format_command=cat}; 6 extra construction orders per top-level set; dict insertion order (F15) not varied",
 "input": "{Color.RED: 1, Color.GREEN: {Size.M, Size.L}}",
 "detail": "4 failures without a known finding in this run (4 listed). mode=black PYTHONHASHSEED=0: text does not evaluate back to the value (repr_evals_back=SyntaxError: invalid syntax (<string>, line 1), code_evals_back=SyntaxError: invalid syntax (<string>, line 1)); code_repr=\"{<Color.RED: 'r'>: 1, <Color.GREEN: 'g'>: {Size.M, Size.L}}\" _value_to_code=\"{<Color .RED :'r'>:1 ,<Color .GREEN :'g'>:{Size .M ,Size .L }}\" piped=None"
}
"""

# run with: /verif/.venv/bin/python <this file>      (inline_snapshot is the editable install of /repo)
import ast, os, subprocess, sys, tempfile
EXPR = '{Color.RED: 1, Color.GREEN: {Size.M, Size.L}}'
d = tempfile.mkdtemp()
open(os.path.join(d, "black.py"), "w").write("raise ImportError('black is blocked')\n")
CHILD = 'from enum import Enum, Flag, IntEnum\nclass Color(Enum):\n    RED = "r"\n    GREEN = "g"\n    BLUE = "b"\nclass Size(IntEnum):\n    S = 1\n    M = 2\n    L = 3\nclass Perm(Flag):\n    R = 4\n    W = 2\n    X = 1\n' + """
import os, sys, tempfile
from pathlib import Path
from executing import Source
from inline_snapshot import _config
from inline_snapshot._format import format_code
from inline_snapshot._source_file import SourceFile
p = os.path.join(tempfile.mkdtemp(), "snap.py")
open(p, "w").write("x = 1\\n")
sf = SourceFile(Source.for_filename(p))
v = eval(sys.argv[2])
if sys.argv[1] == "cat":
    _config.config.format_command = "cat"
    text = format_code(sf._value_to_code(v), Path(p)).strip()
else:
    text = sf._value_to_code(v)
assert eval(text) == v, "text does not evaluate back: " + text
sys.stdout.write(text)
"""
dumps = {}
for mode in ("black", "noblack", "cat"):
    env = dict(os.environ, PYTHONHASHSEED="0")
    if mode == "noblack":
        env["PYTHONPATH"] = d
    text = subprocess.run([sys.executable, "-c", CHILD, mode, EXPR], env=env, capture_output=True, text=True, check=True).stdout
    print(mode, repr(text))
    dumps[mode] = ast.dump(ast.parse(text))
assert len(set(dumps.values())) == 1, "the formatter variant changes the syntax tree of the written text"

