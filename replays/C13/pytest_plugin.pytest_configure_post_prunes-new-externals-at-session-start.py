"""Replay file written by /verif/check.py
{
 "property": "C13",
 "failed_obligation": "pytest_plugin.pytest_configure/post:prunes-new-externals-at-session-start",
 "path": 5,
 "function": "inline_snapshot.pytest_plugin.pytest_configure",
 "verdict": "refuted",
 "backend": "z3-5.1",
 "solver_model": "cli_absent!18 = True\nenv_flags!17 = Lambda(k!0, k!0 == \"disable\")\nenv_present!16 = True\neq_opq!21 = True\ntruth_opq154!20 = False\ntty!15 = True\nxdist!10 = True",
 "where": ""
}
"""

print('no native failing input was found for this obligation; see the header for the solver output')
