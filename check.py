#!/verif/.venv/bin/python
"""check.py <PROPERTY-ID> [--tier quick|thorough]

Decides one property of /verif/properties.jsonl by contract-based deductive verification of the real
functions in /repo (re-extracted on every run), plus labelled bounded stand-ins.

exit 0  every obligation of the property discharged (or matched by an open known finding), stand-ins passed
exit 1  VIOLATION property=<id> replay=<path>    (refuted obligation / natively failing input, not a known finding)
exit 2  undecided only (unknown / unsupported), never printed as a violation
exit 3  checker fault (vacuity guard, extraction failure, missing overlay)
"""
from __future__ import annotations

import argparse
import json
import os
import sys
import time
import traceback
from concurrent.futures import ProcessPoolExecutor
from pathlib import Path

HERE = Path(__file__).resolve().parent
sys.path.insert(0, str(HERE))
os.chdir(HERE)


def _contract_worker(args):
    target, seed = args
    import z3  # noqa

    from pyvc import run as R
    from pyvc import specs
    from pyvc.contract import REGISTRY
    from pyvc.solve import discharge_all

    R.load_sidecars()
    t0 = time.time()
    out = {"target": target, "error": None}
    try:
        v, obs = R.verify_target(target, seed=seed, solve=False)
        ax = v.axioms()
        discharge_all(obs, ax, seed, jobs=1)
        vac = v.vacuity_obligations
        from pyvc import solve as S

        old = S.Z3_TIMEOUT_MS
        S.Z3_TIMEOUT_MS = 1000
        try:
            for o in vac:
                o.status = None
            discharge_all(vac, ax, seed, refute=False, jobs=1, cli=False)
        finally:
            S.Z3_TIMEOUT_MS = old
        out.update(
            src_hash=v.src_hash, span=list(v.span), file=str(v.module.path), paths=v.paths, ended=v.ended, errors=v.errors,
            covers=v.covers, inlined=sorted(v.inlined), havoced=sorted(v.havoced), contracts_used=sorted(v.contracts_used),
            externals_used=sorted(v.externals_used), uses=list(v.c.uses),
            vacuity=[o.status for o in vac],
            obligations=[
                dict(id=o.oid, kind=o.kind, label=o.label, props=o.props, status=o.status, backend=o.backend, ms=round(o.ms, 1),
                     path=o.path, where=o.where, model=o.model, detail=o.detail, smt2_head=None)
                for o in obs
            ],
        )
        # keep a few VCs as samples
        samples = []
        for o in obs[:2]:
            try:
                samples.append({"id": o.oid, "verdict": o.status, "smtlib_excerpt": o.smt2(ax)[-700:]})
            except Exception:
                pass
        out["samples"] = samples
    except Exception as ex:  # engine fault
        out["error"] = f"{type(ex).__name__}: {ex}\n{traceback.format_exc()[-1500:]}"
    out["wall"] = round(time.time() - t0, 2)
    return out


def _static_worker(name):
    from pyvc import run as R
    from pyvc.contract import STATIC

    R.load_sidecars()
    t0 = time.time()
    try:
        rows = STATIC[name]["fn"]()
        return dict(name=name, rows=rows, error=None, wall=round(time.time() - t0, 2))
    except Exception as ex:
        return dict(name=name, rows=[], error=f"{type(ex).__name__}: {ex}\n{traceback.format_exc()[-800:]}", wall=0)


def _lemma_worker(_):
    from pyvc import lemmas

    return lemmas.prove_all()


def load_known_findings():
    p = HERE / "known_findings.jsonl"
    out = []
    if p.exists():
        for line in p.read_text().splitlines():
            line = line.strip()
            if line and not line.startswith("#") and not line.startswith("fixed:"):
                out.append(json.loads(line))
    return out


def main():
    ap = argparse.ArgumentParser()
    ap.add_argument("pid")
    ap.add_argument("--tier", default=os.environ.get("VERIF_TIER", "quick"))
    ap.add_argument("--jobs", type=int, default=min(16, os.cpu_count() or 4))
    a = ap.parse_args()
    pid = a.pid
    tier = a.tier if a.tier in ("quick", "thorough") else "quick"
    seed = int(os.environ.get("VERIF_SEED", "0") or 0)
    t0 = time.time()

    from pyvc import run as R
    from pyvc.contract import REGISTRY, STATIC, contract_props

    try:
        R.load_sidecars()
    except Exception:
        traceback.print_exc()
        print(f"CHECKER-FAULT property={pid} sidecars failed to load")
        return 3
    targets = [t for t, c in REGISTRY.items() if pid in contract_props(c)]
    import bounded

    standins = bounded.standins_for(pid)
    statics = [n for n, sc in STATIC.items() if pid in sc["props"]]
    if not targets and not standins and not statics:
        print(f"CHECKER-FAULT property={pid}: no contract serves this property")
        return 3

    results = []
    lemma_results = []
    with ProcessPoolExecutor(max_workers=a.jobs) as ex:
        futs = [ex.submit(_contract_worker, (t, seed)) for t in targets]
        need_lemmas = any(REGISTRY[t].uses for t in targets)
        lf = ex.submit(_lemma_worker, 0) if need_lemmas else None
        sf = [(s, ex.submit(bounded.run_standin, s["name"], pid, tier, seed)) for s in standins]
        stf = [ex.submit(_static_worker, n) for n in statics]
        for f in futs:
            results.append(f.result())
        if lf is not None:
            lemma_results = lf.result()
        standin_results = []
        for s, f in sf:
            try:
                standin_results.append(f.result())
            except Exception as exn:
                standin_results.append({"name": s["name"], "error": f"{type(exn).__name__}: {exn}", "passed": 0, "failures": []})

        static_results = [f.result() for f in stf]

    from report import finish

    return finish(pid, tier, seed, t0, results, lemma_results, standin_results, load_known_findings(), static_results)


if __name__ == "__main__":
    sys.exit(main())
