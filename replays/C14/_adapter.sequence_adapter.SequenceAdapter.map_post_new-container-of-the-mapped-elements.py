"""Replay file written by /verif/check.py
{
 "property": "C14",
 "failed_obligation": "_adapter.sequence_adapter.SequenceAdapter.map/post:new-container-of-the-mapped-elements",
 "path": 1,
 "function": "inline_snapshot._adapter.sequence_adapter.SequenceAdapter.map",
 "verdict": "refuted",
 "backend": "z3-5.1",
 "solver_model": "truth_opq9!12 = True",
 "where": ""
}
"""

print('no native failing input was found for this obligation; see the header for the solver output')
