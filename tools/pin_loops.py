#!/verif/.venv/bin/python
"""Regenerates contracts/loop_pins.json: for every contract with loop specs, the header each spec belongs to on the current
/repo tree.  Run only when a contract's loop specs are (re)written against the tree they were proved on."""
import importlib
import json
import pathlib
import pkgutil
import sys

HERE = pathlib.Path(__file__).resolve().parent.parent
sys.path.insert(0, str(HERE))

from pyvc import extract  # noqa: E402
from pyvc.contract import REGISTRY  # noqa: E402

import contracts  # noqa: E402

for m in pkgutil.iter_modules(contracts.__path__):
    importlib.import_module(f"contracts.{m.name}")

pins = {}
for name, c in sorted(REGISTRY.items()):
    if not c.loops:
        continue
    _, fn, _, _ = extract.find_function(c.target)
    keys = extract.loop_keys(extract.loops_preorder(fn))
    pins[name] = {str(o): list(keys[o]) for o in sorted(c.loops) if o < len(keys)}
(HERE / "contracts" / "loop_pins.json").write_text(json.dumps(pins, indent=1, sort_keys=True) + "\n")
print(f"{len(pins)} contracts pinned")
