"""Replay file written by /verif/check.py
{
 "property": "C03",
 "failed_obligation": "_change.Replace.apply/post:replaces-exactly-its-own-node",
 "path": 1,
 "function": "inline_snapshot._change.Replace.apply",
 "verdict": "refuted",
 "backend": "z3-5.1",
 "solver_model": "",
 "where": ""
}
"""

print('no native failing input was found for this obligation; see the header for the solver output')
