"""Shared helpers for the session-level bounded stand-ins (b_sess, b_fixpoint, b_drivers).

Everything here drives REAL ``python -m pytest`` subprocesses of the real plugin on small generated
projects inside ``tempfile.mkdtemp()`` directories (always deleted).  Nothing is proved here.

The module is deliberately self-contained: ``REPLAY_PRELUDE`` is the same session runner as text, so
that replay scripts are stand-alone.
"""
from __future__ import annotations

import ast
import hashlib
import os
import re
import shutil
import subprocess
import sys
import tempfile
import traceback
import xml.etree.ElementTree as ET
from concurrent.futures import ThreadPoolExecutor
from pathlib import Path

PY = sys.executable
CATS = ("create", "fix", "trim", "update")  # canonical order (= Flags.all() iteration order)

# the variables tested by pytest_plugin.is_ci_run (+ PYCHARM_HOSTED which switches the test off)
CI_VARS = (
    "CI",
    "bamboo.buildKey",
    "BUILD_ID",
    "BUILD_NUMBER",
    "BUILDKITE",
    "CIRCLECI",
    "CONTINUOUS_INTEGRATION",
    "GITHUB_ACTIONS",
    "HUDSON_URL",
    "JENKINS_URL",
    "TEAMCITY_VERSION",
    "TRAVIS",
    "PYCHARM_HOSTED",
)
OTHER_VARS = ("INLINE_SNAPSHOT_DEFAULT_FLAGS", "FORCE_COLOR", "NO_COLOR", "PYTEST_ADDOPTS", "PYTEST_PLUGINS",
              "PYTHONHASHSEED")

BASE_ARGS = ("-p", "no:cacheprovider", "-p", "no:benchmark", "-rA")

PYPROJECT_PLAIN = "[tool.inline-snapshot]\n"


def have_xdist():
    try:
        import xdist  # noqa: F401

        return True
    except Exception:
        return False


def clean_env(extra=None, tty=False):
    env = dict(os.environ)
    for v in CI_VARS + OTHER_VARS:
        env.pop(v, None)
    env["TERM"] = "unknown"
    env["COLUMNS"] = "80"
    env["PYTHONDONTWRITEBYTECODE"] = "1"
    if tty:
        env["FORCE_COLOR"] = "true"  # rich: Console.is_terminal == True
    env.update(extra or {})
    return env


def write_files(root, files):
    root = Path(root)
    for name, content in files.items():
        p = root / name
        p.parent.mkdir(parents=True, exist_ok=True)
        if isinstance(content, bytes):
            p.write_bytes(content)
        else:
            p.write_bytes(content.encode("utf-8"))


def read_tree(root):
    """relative posix path -> bytes for every regular file below root (no __pycache__)."""
    root = Path(root)
    out = {}
    for p in sorted(root.rglob("*")):
        if p.is_file() and "__pycache__" not in p.parts:
            out[p.relative_to(root).as_posix()] = p.read_bytes()
    return out


def tree_hash(tree):
    return {k: hashlib.sha256(v).hexdigest() for k, v in tree.items()}


def diff_trees(a, b):
    """list of human readable differences between two read_tree() results"""
    out = []
    for k in sorted(set(a) | set(b)):
        if k not in a:
            out.append(f"+ {k} (new, {len(b[k])} bytes)")
        elif k not in b:
            out.append(f"- {k} (deleted)")
        elif a[k] != b[k]:
            out.append(f"M {k}")
    return out


def ast_of(src):
    if isinstance(src, bytes):
        src = src.decode("utf-8")
    return ast.dump(ast.parse(src))


def same_ast(a, b):
    try:
        return ast_of(a) == ast_of(b)
    except SyntaxError:
        return False


def parse_junit(path):
    """test name ('module::function') -> set of outcomes among passed/failed/error/skipped"""
    out = {}
    try:
        root = ET.parse(path).getroot()
    except Exception:
        return None
    for tc in root.iter("testcase"):
        name = f"{tc.get('classname')}::{tc.get('name')}"
        kinds = set()
        for ch in tc:
            if ch.tag in ("failure", "error", "skipped"):
                kinds.add({"failure": "failed"}.get(ch.tag, ch.tag))
        if not kinds:
            kinds.add("passed")
        out.setdefault(name, set()).update(kinds)
    return out


_DEADLINE = None  # set by the running stand-in (stand-ins run one at a time)


def set_deadline(d):
    global _DEADLINE
    _DEADLINE = d
    return d


class Res(dict):
    __getattr__ = dict.__getitem__


def run_session(proj, args=(), env=None, stdin=b"", tty=None, timeout=600, junit=True, base_args=BASE_ARGS):
    """one real pytest session in `proj`; returns Res(rc, out, err, outcomes, before, after, cmd, env_extra)"""
    if _DEADLINE is not None and _DEADLINE.expired():
        raise Skipped()
    proj = Path(proj)
    before = read_tree(proj)
    outdir = Path(tempfile.mkdtemp(prefix="bsess-out-"))
    try:
        cmd = [PY, "-m", "pytest", *base_args]
        if junit:
            cmd += [f"--junitxml={outdir / 'junit.xml'}"]
        cmd += list(args)
        if tty is None:
            tty = bool(stdin)
        p = subprocess.run(cmd, cwd=proj, env=clean_env(env, tty=tty), input=stdin, capture_output=True,
                           timeout=timeout)
        outcomes = parse_junit(outdir / "junit.xml") if junit else None
    finally:
        shutil.rmtree(outdir, ignore_errors=True)
    after = read_tree(proj)
    return Res(rc=p.returncode, out=p.stdout.decode("utf-8", "replace"), err=p.stderr.decode("utf-8", "replace"),
               outcomes=outcomes, before=before, after=after, args=list(args), env_extra=dict(env or {}),
               stdin=stdin, tty=tty)


class Project:
    """a temp project directory; use as context manager"""

    def __init__(self, files):
        self.root = Path(tempfile.mkdtemp(prefix="bsess-"))
        self.dir = self.root / "proj"
        self.dir.mkdir()
        write_files(self.dir, files)

    def run(self, args=(), **kw):
        return run_session(self.dir, args, **kw)

    def tree(self):
        return read_tree(self.dir)

    def write(self, files):
        write_files(self.dir, files)

    def close(self):
        shutil.rmtree(self.root, ignore_errors=True)

    def __enter__(self):
        return self

    def __exit__(self, *a):
        self.close()


# ------------------------------------------------------------------ oracle for C07


class _Missing(Exception):
    pass


def _fake_snapshot(*a):
    if not a:
        raise _Missing()
    return a[0]


class _Ext:
    def __init__(self, h, suffix):
        self.h, self.suffix = h, suffix

    def __eq__(self, other):
        if not isinstance(other, _Ext):
            return NotImplemented
        n = min(len(self.h), len(other.h))
        return self.h[:n] == other.h[:n] and self.suffix == other.suffix


def _fake_external(name):
    import re

    m = re.fullmatch(r"([0-9a-fA-F]*)\*?(\.[a-zA-Z0-9]*)", name)
    return _Ext(*m.groups())


def _fake_outsource(data, *, suffix=None):
    if isinstance(data, str):
        data = data.encode("utf-8")
        suffix = suffix or ".txt"
    else:
        suffix = suffix or ".bin"
    return _Ext(hashlib.sha256(data).hexdigest(), suffix)


def expected_outcomes(files, skip_marked=("xfail", "skip")):
    """Independent oracle: `snapshot(x)` means x, `snapshot()` is a missing value.

    returns {'module::test': 'pass' | 'fail' | 'skip'} for the test_*.py files of the project
    (top-level test functions without parameters only)."""
    import types

    out = {}
    for name, src in files.items():
        base = name.rsplit("/", 1)[-1]
        if not (base.startswith("test_") and base.endswith(".py")):
            continue
        if isinstance(src, bytes):
            src = src.decode("utf-8")
        modname = name[:-3].replace("/", ".")
        tree = ast.parse(src)
        marked = set()
        module_marked = any(isinstance(node, ast.Assign) and ast.unparse(node.targets[0]) == "pytestmark"
                            and any(m in ast.unparse(node.value) for m in skip_marked) for node in tree.body)
        for node in tree.body:
            if isinstance(node, ast.FunctionDef):
                if module_marked:
                    marked.add(node.name)
                for d in node.decorator_list:
                    if any(m in ast.unparse(d) for m in skip_marked):
                        marked.add(node.name)
        fake = types.ModuleType("inline_snapshot")
        fake.snapshot = _fake_snapshot
        fake.external = _fake_external
        fake.outsource = _fake_outsource

        class _HasRepr:
            def __init__(self, t, r):
                self.r = r

            def __eq__(self, other):
                return repr(other) == self.r

        fake.HasRepr = _HasRepr
        saved = sys.modules.get("inline_snapshot")
        g = {"__name__": modname}
        try:
            sys.modules["inline_snapshot"] = fake
            try:
                exec(compile(src, name, "exec"), g)
            finally:
                if saved is not None:
                    sys.modules["inline_snapshot"] = saved
                else:
                    sys.modules.pop("inline_snapshot", None)
        except BaseException:
            out[f"{modname}::<import>"] = "fail"
            continue
        for k, v in list(g.items()):
            if k.startswith("test_") and callable(v) and isinstance(v, types.FunctionType):
                if k in marked:
                    out[f"{modname}::{k}"] = "skip"
                    continue
                try:
                    v()
                    out[f"{modname}::{k}"] = "pass"
                except BaseException:
                    out[f"{modname}::{k}"] = "fail"
    return out


def check_outcomes(expected, res):
    """-> list of (test, expected, observed set) violating C07 for one session result"""
    bad = []
    if res.outcomes is None:
        return [("<junit>", "junit xml", "missing/unparsable")]
    for t, exp in sorted(expected.items()):
        obs = res.outcomes.get(t)
        if exp == "skip":
            continue
        if obs is None:
            bad.append((t, exp, "not reported"))
        elif exp == "fail" and not (obs & {"failed", "error"}):
            bad.append((t, exp, sorted(obs)))
        elif exp == "pass" and obs != {"passed"}:
            bad.append((t, exp, sorted(obs)))
    any_fail = any(v == "fail" for v in expected.values())
    if any_fail and res.rc == 0:
        bad.append(("<exit status>", "non-zero", 0))
    if not any_fail and res.rc != 0:
        bad.append(("<exit status>", 0, res.rc))
    return bad


# ------------------------------------------------------------------ pool / bookkeeping


def pmap(fn, items, workers=8):
    """run fn(item) on a thread pool; exceptions are returned as ('exc', traceback)"""

    def wrap(it):
        try:
            return ("ok", fn(it))
        except BaseException:
            return ("exc", traceback.format_exc())

    with ThreadPoolExecutor(max_workers=workers) as ex:
        return list(ex.map(wrap, items))


class Failures:
    """collects failures with the caps required by the registration API (thread safe)"""

    def __init__(self):
        import threading

        self.items = []
        self.counts = {}
        self.dropped = {}
        self._lock = threading.Lock()

    def add(self, finding, input, detail, replay_code):
        with self._lock:
            n = self.counts.get(finding, 0)
            cap = 20 if finding is None else 5
            if n >= cap:
                self.dropped[finding] = self.dropped.get(finding, 0) + 1
                return
            self.counts[finding] = n + 1
            m = re.match(r"((?:C\d\d/?)+):", str(detail))
            props = m.group(1).split("/") if m else None  # None: not attributable (harness fault) -> shown for every property
            self.items.append(dict(finding=finding, props=props, input=input, detail=str(detail)[-6000:],
                                   replay_code=replay_code))


class Deadline:
    """wall-clock budget of a stand-in run: jobs that have not started when it expires are skipped (and counted)"""

    # the quick case lists are sized for ~35 s on an idle machine; the budget only has to stop a runaway run - it is generous so that a
    # busy machine does not silently shrink the coverage
    BUDGET = {"quick": 300.0, "thorough": 20 * 60}

    def __init__(self, tier):
        import threading
        import time

        self._time = time.time
        self.end = time.time() + self.BUDGET.get(tier, 300.0)
        self.skipped = 0
        self._lock = threading.Lock()

    def expired(self):
        if self._time() > self.end:
            with self._lock:
                self.skipped += 1
            return True
        return False


class Skipped(Exception):
    """raised inside a job that was not run because the budget was used up"""


def tail(text, n=40):
    return "\n".join(text.splitlines()[-n:])


# ------------------------------------------------------------------ stand-alone replay scripts

REPLAY_PRELUDE = r'''
# stand-alone replay: runs real pytest sessions of the plugin installed for this interpreter
# (run with /verif/.venv/bin/python, which sees the editable install of /repo).
import ast, os, shutil, subprocess, sys, tempfile
import xml.etree.ElementTree as ET
from pathlib import Path

CI_VARS = %(ci_vars)r
OTHER = %(other_vars)r
BASE_ARGS = %(base_args)r


def _env(extra, tty):
    env = dict(os.environ)
    for v in CI_VARS + OTHER:
        env.pop(v, None)
    env.update(TERM="unknown", COLUMNS="80", PYTHONDONTWRITEBYTECODE="1")
    if tty:
        env["FORCE_COLOR"] = "true"
    env.update(extra or {})
    return env


def tree(root):
    return {p.relative_to(root).as_posix(): p.read_bytes() for p in sorted(Path(root).rglob("*"))
            if p.is_file() and "__pycache__" not in p.parts}


def write(root, files):
    for n, c in files.items():
        p = Path(root) / n
        p.parent.mkdir(parents=True, exist_ok=True)
        p.write_bytes(c if isinstance(c, bytes) else c.encode())


def outcomes(path):
    out = {}
    try:
        r = ET.parse(path).getroot()
    except Exception:
        return None
    for tc in r.iter("testcase"):
        k = out.setdefault(tc.get("classname") + "::" + tc.get("name"), set())
        kinds = {"failed" if c.tag == "failure" else c.tag for c in tc if c.tag in ("failure", "error", "skipped")}
        k.update(kinds or {"passed"})
    return out


def session(proj, args=(), env=None, stdin=b"", tty=None):
    out = tempfile.mkdtemp()
    try:
        before = tree(proj)
        p = subprocess.run([sys.executable, "-m", "pytest", *BASE_ARGS, "--junitxml=" + out + "/j.xml", *args],
                           cwd=proj, env=_env(env, bool(stdin) if tty is None else tty), input=stdin,
                           capture_output=True)
        return dict(rc=p.returncode, out=p.stdout.decode("utf-8", "replace"), err=p.stderr.decode("utf-8", "replace"),
                    outcomes=outcomes(out + "/j.xml"), before=before, after=tree(proj))
    finally:
        shutil.rmtree(out, ignore_errors=True)


def dump(src):
    return ast.dump(ast.parse(src.decode() if isinstance(src, bytes) else src))


ROOT = tempfile.mkdtemp()
PROJ = os.path.join(ROOT, "proj")
os.mkdir(PROJ)
try:
%(body)s
finally:
    shutil.rmtree(ROOT, ignore_errors=True)
print("replay: no violation observed")
'''


def replay_script(body):
    """body: python source (unindented) using PROJ, write(), session(), tree(), dump(); asserts the property"""
    ind = "\n".join(("    " + line if line.strip() else line) for line in body.strip("\n").splitlines())
    return REPLAY_PRELUDE % dict(ci_vars=CI_VARS, other_vars=OTHER_VARS, base_args=BASE_ARGS, body=ind)


def step_src(args=(), env=None, stdin=b"", var="r"):
    extra = ""
    if env:
        extra += f", env={dict(env)!r}"
    if stdin:
        extra += f", stdin={stdin!r}"
    return f"{var} = session(PROJ, {list(args)!r}{extra})"


def result_for(pid, res):
    """restrict the result of a stand-in run to the failures attributed to property `pid` (failure key 'props')"""
    if pid is None:
        return res
    res = dict(res)
    res["failures"] = [f for f in res.get("failures", []) if not f.get("props") or pid in f["props"]]
    res["property"] = pid
    return res
