"""Replay file written by /verif/check.py
{
 "property": "C13",
 "failed_obligation": "_config.read_config/post:storage-dir-anchored-at-the-pyproject-directory",
 "path": 3,
 "function": "inline_snapshot._config.read_config",
 "verdict": "refuted",
 "backend": "z3-5.1",
 "solver_model": "config.default_flags!3 = mk_List_Str(K(Int, \"\"), 0)\nconfig.default_flags_tui!4 = mk_List_Str(K(Int, \"\"), 0)\nfile_exists!19 = True\nhas_tc_default_flags!23 = True\nhas_tc_default_flags_tui!25 = True\nhas_tc_format_command!32 = True\nhas_tc_hash_length!21 = True\nhas_tc_shortcuts!29 = True\nhas_tc_skip_snapshot_updates_for_now!27 = True\nhas_tc_storage_dir!30 = True\npath_absolute = [else -> PathV!val!0]\npath_is_absolute = [else -> True]\npath_of_str = [else -> PathV!val!1]\ntc_default_flags!24 = mk_List_Str(K(Int, \"\"), 0)\ntc_default_flags_tui!26 = mk_List_Str(K(Int, \"\"), 0)\ntc_format_command!33 = \"B\"\ntc_storage_dir!31 = \"A\"",
 "where": ""
}
"""

print('no native failing input was found for this obligation; see the header for the solver output')
