"""Replay file written by /verif/check.py
{
 "property": "C12",
 "standin": "B-gsu",
 "bound": "displays with <= 3 elements x 4 layouts x 4 kinds x delete subsets x 5 insert patterns (1500 sampled cases quick / all thorough) through the real apply_all + new_code",
 "input": "('list', 'trailing', (\"'s'\", 'f(5)', '0+2'), (1,), {3: ['8', '9']})",
 "detail": "result does not parse (unterminated string literal (detected at line 1)): \"x = '\u00e4\u00f6'; v = [', , 0, 8, 92,]  # tail\\ny = 2\\n\""
}
"""

import sys, tempfile
sys.path.insert(0, "/verif")
from bounded.b_gsu import one_case
msg = one_case(tempfile.mkdtemp(), *('list', 'trailing', ("'s'", 'f(5)', '0+2'), (1,), {3: ['8', '9']}))
print(('list', 'trailing', ("'s'", 'f(5)', '0+2'), (1,), {3: ['8', '9']}), "->", msg)
assert msg is None, msg

