"""Replay file written by /verif/check.py
{
 "property": "C17",
 "failed_obligation": "_snapshot.collection_value.CollectionValue.__contains__#first/post:records-a-copy",
 "path": 3,
 "function": "inline_snapshot._snapshot.collection_value.CollectionValue.__contains__#first",
 "verdict": "refuted",
 "backend": "z3-5.1",
 "solver_model": "FalseVal = Val!val!1\nNoneVal = Val!val!2\nTrueVal = Val!val!0\n_snapshot.generic_value.GenericValue._return_result!16 = Val!val!6\ncontains_Val = [else -> Val!val!6]\ndeepcopy_Val = [else ->\n If(And(Var(0) == Val!val!4,\n        Not(Var(0) == Val!val!2),\n        Not(Var(0) == Val!val!0),\n        Not(Var(0) == Val!val!6)),\n    Val!val!4,\n    Val!val!7)]\nitem!3 = Val!val!3\nself._old_value!1 = Val!val!5\nstate.incorrect_values!15 = 0\nstate.incorrect_values!5 = 0\nstate.update_flags.create!6 = False\nstate.update_flags.fix!7 = False\nstate.update_flags.trim!8 = True\nstate.update_flags.update!9 = False\ntruthy_Val = [Val!val!0 -> True, Val!val!6 -> True, else -> False]\nundefined_Val = Val!val!4",
 "where": ""
}
"""

print('no native failing input was found for this obligation; see the header for the solver output')
