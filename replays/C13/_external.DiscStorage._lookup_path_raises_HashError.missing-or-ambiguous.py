"""Replay file written by /verif/check.py
{
 "property": "C13",
 "failed_obligation": "_external.DiscStorage._lookup_path/raises:HashError.missing-or-ambiguous",
 "path": 1,
 "function": "inline_snapshot._external.DiscStorage._lookup_path",
 "verdict": "refuted",
 "backend": "z3-5.1",
 "solver_model": "len_opq!15 = 2\nmatching_files!13 = mk_List_Rec_PathRec(K(Int, mk_Rec_PathRec(\"\", \"\")), 1)\ntruth_opq5!14 = True",
 "where": ""
}
"""

print('no native failing input was found for this obligation; see the header for the solver output')
