"""_config.read_config: what the [tool.inline-snapshot] table of pyproject.toml contributes to a session (C04 flag sources, C13 storage
location).  tomllib and pathlib are trusted (X8); the table is an abstract mapping with a symbolic set of present keys."""
import z3

from pyvc.contract import Shape, contract
from pyvc.core import RaiseSig, fresh_value, pack, unpack
from pyvc.defaults import DEFAULT_POLICIES, SHAPES
from pyvc.interp import PyDict
from pyvc.specs import SPEC_NS
from pyvc.types import BOOL, INT, STR, Abs, Obj, Opaque, SV, parse_ty, sort_of

CF = "inline_snapshot._config"
PATHV = Abs("PathV")
P = sort_of(PATHV)

f_path_of = z3.Function("path_of_str", z3.StringSort(), P)
f_is_abs = z3.Function("path_is_absolute", P, z3.BoolSort())
f_absolute = z3.Function("path_absolute", P, P)
f_parent = z3.Function("path_parent", P, P)
f_join = z3.Function("path_join", P, P, P)

KEYS = {"hash-length": "Int", "default-flags": "List[Str]", "default-flags-tui": "List[Str]", "skip-snapshot-updates-for-now": "Bool",
        "shortcuts": "Opaque", "storage-dir": "Str", "format-command": "Str"}


def _table(I):
    """the [tool.inline-snapshot] table: for every documented key a symbolic presence bit and a value of the documented type"""
    has, val = {}, {}
    for k, ty in KEYS.items():
        g = "tc_" + k.replace("-", "_")
        has[k] = SV(z3.Bool(I.ctx.fresh_name("has_" + g)), BOOL)
        val[k] = Opaque(g) if ty == "Opaque" else fresh_value(I.ctx, parse_ty(ty), g)
        I.ghost["has_" + g] = has[k]
        I.ghost[g] = val[k]

    def getitem(I2, key):
        if key not in KEYS:
            raise RaiseSig("KeyError", info=[key])
        if not I2.ctx.branch(has[key].t):
            raise RaiseSig("KeyError", info=[key])
        return val[key]

    def get(I2, key, default=None):
        if key not in KEYS:
            return default
        if not I2.ctx.branch(has[key].t):
            return default
        return val[key]

    return Obj("toml-table", {"__getitem__": getitem, "get": get})


def p_loads(I, args, kwargs, node):
    """tomllib.loads(text): the document either has no [tool] table, no [tool.inline-snapshot] table, or the table"""
    I.ghost["n_loads"] = I.ghost["n_loads"] + 1
    c = 0 if I.ctx.choose() else (1 if I.ctx.choose() else 2)
    if c == 0:
        I.ghost["table_present"] = False
        return PyDict({})
    if c == 1:
        I.ghost["table_present"] = False
        return PyDict({"tool": PyDict({})})
    I.ghost["table_present"] = True
    return PyDict({"tool": PyDict({"inline-snapshot": _table(I)})})


def p_Path(I, args, kwargs, node):
    a = args[0]
    if isinstance(a, SV) and a.ty == PATHV:
        return a
    return SV(f_path_of(pack(I.ctx, a, STR)), PATHV)


DEFAULT_POLICIES["attrs"].update({
    "PathV.is_absolute": lambda I, a, k, n: SV(f_is_abs(a[0].t), BOOL),
    "PathV.absolute": lambda I, a, k, n: SV(f_absolute(a[0].t), PATHV),
    "PathV.joinpath": lambda I, a, k, n: SV(f_join(a[0].t, a[1].t if isinstance(a[1], SV) and a[1].ty == PATHV else f_path_of(pack(I.ctx, a[1], STR))), PATHV),
})


def p_exists(I):
    r = SV(z3.Bool(I.ctx.fresh_name("file_exists")), BOOL)
    I.ghost["file_exists"] = r
    return r


def p_read_text(I, enc=None):
    return fresh_value(I.ctx, STR, "toml_text")


def s_anchored(I, sd, path):
    """where a storage-dir setting `sd` of the pyproject.toml at `path` points: itself when absolute, otherwise relative to the
    directory of that pyproject.toml (made absolute) -- never relative to the current working directory"""
    p = f_path_of(sd.t)
    return SV(z3.If(f_is_abs(p), p, f_absolute(f_join(path.fields["parent"].t, p))), PATHV)


SPEC_NS.update({"anchored": s_anchored})


SHAPES.update({
    "CfgPath": Shape("pathlib.Path", {"exists": p_exists, "read_text": p_read_text, "parent": "PathV"}),
    "RCfgObj": Shape(CF + ".Config", {"hash_length": "Int", "default_flags": "List[Str]", "default_flags_tui": "List[Str]", "shortcuts": "Opaque",
                                     "format_command": "Opt[Str]", "storage_dir": "Opt[PathV]", "skip_snapshot_updates_for_now": "Bool"}),
})

G = {"n_loads": "=0", "table_present": "=False", "file_exists": "=None"}
for k in KEYS:
    G["has_tc_" + k.replace("-", "_")] = "=False"
    G["tc_" + k.replace("-", "_")] = "=None"

T = "(table_present and {h})"

contract(
    CF + ".read_config",
    params={"path": "@CfgPath", "config": "@RCfgObj"},
    callees={"loads": p_loads, "tomllib.loads": p_loads, "tomli.loads": p_loads, "Path": p_Path, "pathlib.Path": p_Path},
    ghost={"vars": G},
    returns=None,
    result_name="ret",
    ensures={
        "returns-the-given-object": "ret is config",
        # C04: flags come from default-flags of pyproject.toml only when the table sets them
        "default-flags-from-the-table [C04]": "when(table_present, implies(has_tc_default_flags, config.default_flags == tc_default_flags))",
        "default-flags-untouched-otherwise [C04]": "implies(not (table_present and has_tc_default_flags), config.default_flags == old(config.default_flags))",
        "default-flags-tui-from-the-table [C04]": "when(table_present, implies(has_tc_default_flags_tui, config.default_flags_tui == tc_default_flags_tui))",
        "default-flags-tui-untouched-otherwise [C04]": "implies(not (table_present and has_tc_default_flags_tui), config.default_flags_tui == old(config.default_flags_tui))",
        "hash-length-from-the-table [C13]": "when(table_present, implies(has_tc_hash_length, config.hash_length == tc_hash_length))",
        "hash-length-untouched-otherwise [C13]": "implies(not (table_present and has_tc_hash_length), config.hash_length == old(config.hash_length))",
        # C13: one history uses one storage, whatever directory a session is started from
        "storage-dir-anchored-at-the-pyproject-directory [C13]": "when(table_present, implies(has_tc_storage_dir and len(tc_storage_dir) > 0, config.storage_dir == anchored(tc_storage_dir, path)))",
        "storage-dir-untouched-otherwise [C13]": "when(table_present, implies(not (has_tc_storage_dir and len(tc_storage_dir) > 0), config.storage_dir == old(config.storage_dir))) and when(not table_present, config.storage_dir == old(config.storage_dir))",
        # C03/C15/C20: the documented default `format-command = ""` means "no format command": an empty shell command exits 0 with
        # empty output, which would replace the whole test file by nothing
        "empty-format-command-means-none [C03,C15,C20]": "when(config.format_command is not None, len(config.format_command) > 0)",
        "format-command-from-the-table [C20]": "when(table_present, implies(has_tc_format_command and len(tc_format_command) > 0, config.format_command == tc_format_command))",
        "reads-an-existing-file-once": "n_loads == (1 if file_exists else 0)",
    },
    raises={},
    safety_props=["C18"],
    assumes=["X8"],
)
