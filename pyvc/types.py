"""Sorts and symbolic values of the pyvc engine.

Every interpreter value is either a plain Python object (concrete: int, bool, str, None, tuple,
list of values ...) or one of the wrappers below that carry z3 terms.

Encoding choices (DESIGN.md section 2.2):
  * Python lists / tuples-as-sequences / strings-of-letters are a z3 datatype
        List_T = mk(arr: Array Int T, len: Int)
    (quantified definitions for concat, replicate, slices, reversed).
  * a single-character string is its code point (Int) -- sort name Char.
  * abstract domains (Val, Node, Code, ...) are uninterpreted sorts.
  * fixed-size tuples / Optional / value records are z3 datatypes, unpacked eagerly.
"""
from __future__ import annotations

import z3


class Ty:
    key: str

    def __repr__(self):
        return self.key

    def __eq__(self, o):
        return isinstance(o, Ty) and o.key == self.key

    def __hash__(self):
        return hash(self.key)


class Prim(Ty):
    def __init__(self, key):
        self.key = key


INT = Prim("Int")
BOOL = Prim("Bool")
CHAR = Prim("Char")  # one-character str, encoded as its code point
STR = Prim("Str")  # z3 String (names, flag words)


class Abs(Ty):
    """Uninterpreted sort."""

    def __init__(self, name):
        self.key = name


class ListT(Ty):
    def __init__(self, elem: Ty, is_str=False):
        self.elem = elem
        self.is_str = is_str
        self.key = ("Text" if is_str else "List") + "[" + elem.key + "]"


class TupleT(Ty):
    def __init__(self, elems):
        self.elems = tuple(elems)
        self.key = "Tuple[" + ",".join(e.key for e in self.elems) + "]"


class OptT(Ty):
    def __init__(self, elem: Ty):
        self.elem = elem
        self.key = "Opt[" + elem.key + "]"


class RecT(Ty):
    """Immutable value record (e.g. a token): named fields, a Python class name for isinstance."""

    def __init__(self, name, fields):
        self.name = name
        self.fields = dict(fields)
        self.key = "Rec:" + name


class DictT(Ty):
    def __init__(self, k: Ty, v: Ty):
        self.k = k
        self.v = v
        self.key = "Dict[" + k.key + "," + v.key + "]"


class SetT(Ty):
    def __init__(self, elem: Ty):
        self.elem = elem
        self.key = "Set[" + elem.key + "]"


TEXT = ListT(CHAR, is_str=True)

_records: dict[str, RecT] = {}


def declare_record(name, fields):
    r = RecT(name, fields)
    _records[name] = r
    return r


def parse_ty(s: str) -> Ty:
    s = s.strip()

    def split_args(body):
        out, depth, cur = [], 0, ""
        for ch in body:
            if ch == "[":
                depth += 1
            if ch == "]":
                depth -= 1
            if ch == "," and depth == 0:
                out.append(cur)
                cur = ""
            else:
                cur += ch
        if cur.strip():
            out.append(cur)
        return out

    if s in ("Int", "int"):
        return INT
    if s in ("Bool", "bool"):
        return BOOL
    if s == "Char":
        return CHAR
    if s == "Str":
        return STR
    if s == "Text":
        return TEXT
    if s.startswith("List["):
        return ListT(parse_ty(s[5:-1]))
    if s.startswith("Opt["):
        return OptT(parse_ty(s[4:-1]))
    if s.startswith("Set["):
        return SetT(parse_ty(s[4:-1]))
    if s.startswith("Tuple["):
        return TupleT([parse_ty(a) for a in split_args(s[6:-1])])
    if s.startswith("Dict["):
        k, v = split_args(s[5:-1])
        return DictT(parse_ty(k), parse_ty(v))
    if s in _records:
        return _records[s]
    return Abs(s)


# --------------------------------------------------------------------------------------------
# z3 sorts

_sort_cache: dict[str, object] = {}


def reset_sorts():
    _sort_cache.clear()


def _san(key):
    return (
        key.replace("[", "_").replace("]", "").replace(",", "_").replace(":", "_").replace(" ", "")
    )


def sort_of(ty: Ty):
    k = ty.key
    if k in _sort_cache:
        return _sort_cache[k]
    if ty == INT or ty == CHAR:
        s = z3.IntSort()
    elif ty == BOOL:
        s = z3.BoolSort()
    elif ty == STR:
        s = z3.StringSort()
    elif isinstance(ty, Abs):
        s = z3.DeclareSort(ty.key)
    elif isinstance(ty, ListT):
        d = z3.Datatype(_san(ty.key))
        d.declare("mk_" + _san(ty.key), ("arr_" + _san(ty.key), z3.ArraySort(z3.IntSort(), sort_of(ty.elem))), ("len_" + _san(ty.key), z3.IntSort()))
        s = d.create()
    elif isinstance(ty, TupleT):
        d = z3.Datatype(_san(ty.key))
        d.declare("mk_" + _san(ty.key), *[(f"f{i}_" + _san(ty.key), sort_of(e)) for i, e in enumerate(ty.elems)])
        s = d.create()
    elif isinstance(ty, OptT):
        d = z3.Datatype(_san(ty.key))
        d.declare("none_" + _san(ty.key))
        d.declare("some_" + _san(ty.key), ("val_" + _san(ty.key), sort_of(ty.elem)))
        s = d.create()
    elif isinstance(ty, RecT):
        d = z3.Datatype(_san(ty.key))
        d.declare("mk_" + _san(ty.key), *[(f + "_" + _san(ty.key), sort_of(t)) for f, t in ty.fields.items()])
        s = d.create()
    elif isinstance(ty, DictT):
        d = z3.Datatype(_san(ty.key))
        d.declare(
            "mk_" + _san(ty.key),
            ("dom_" + _san(ty.key), z3.ArraySort(sort_of(ty.k), z3.BoolSort())),
            ("map_" + _san(ty.key), z3.ArraySort(sort_of(ty.k), sort_of(ty.v))),
        )
        s = d.create()
    elif isinstance(ty, SetT):
        s = z3.ArraySort(sort_of(ty.elem), z3.BoolSort())
    else:
        raise TypeError(ty)
    _sort_cache[k] = s
    return s


# --------------------------------------------------------------------------------------------
# interpreter values


class SV:
    """A symbolic scalar: z3 term `t` of type `ty` (Int, Bool, Char, Str, abstract sorts, Opt)."""

    __slots__ = ("t", "ty")

    def __init__(self, t, ty: Ty):
        self.t = t
        self.ty = ty

    def __repr__(self):
        return f"SV({self.t}:{self.ty})"


class SList:
    """A Python list / str-of-letters / tuple-as-sequence with symbolic content.

    Mutable like a Python list (append mutates in place, so interpreter-level aliasing is Python's).
    `n` is a python int when the length is concretely known, else a z3 Int.
    """

    def __init__(self, arr, n, ety: Ty, is_str=False, immutable=False):
        self.arr = arr
        self.n = n
        self.ety = ety
        self.is_str = is_str
        self.immutable = immutable

    @property
    def ty(self):
        return ListT(self.ety, self.is_str)

    def nz(self):
        return self.n if z3.is_expr(self.n) else z3.IntVal(self.n)

    def copy(self):
        return SList(self.arr, self.n, self.ety, self.is_str, self.immutable)

    def __repr__(self):
        return f"SList(len={self.n}, {self.ety})"


class SDict:
    def __init__(self, dom, map_, kty: Ty, vty: Ty):
        self.dom = dom
        self.map = map_
        self.kty = kty
        self.vty = vty

    @property
    def ty(self):
        return DictT(self.kty, self.vty)


class SSet:
    """Set as a membership predicate."""

    def __init__(self, pred, ety: Ty):
        self.pred = pred
        self.ety = ety

    @property
    def ty(self):
        return SetT(self.ety)


class Obj:
    """A heap object with a concrete class name and named fields (interpreter values)."""

    def __init__(self, cls: str, fields=None, rec: RecT | None = None):
        self.cls = cls
        self.fields = dict(fields or {})
        self.rec = rec  # set for immutable value records

    def __repr__(self):
        return f"Obj<{self.cls}>({', '.join(self.fields)})"


class ClassRef:
    """A reference to a class (repo class or external) used for isinstance / construction."""

    def __init__(self, name, qual=None):
        self.name = name
        self.qual = qual or name

    def __repr__(self):
        return f"ClassRef({self.qual})"


class FuncRef:
    """A reference to a repo function (qualname) or an external/builtin callable."""

    def __init__(self, qual, node=None, module=None, closure=None, bound_self=None, cls=None):
        self.qual = qual
        self.node = node
        self.module = module
        self.closure = closure
        self.bound_self = bound_self
        self.cls = cls

    def __repr__(self):
        return f"FuncRef({self.qual})"


class Opaque:
    """A value the engine knows nothing about (havoc result of an uninterpreted call)."""

    _n = 0

    def __init__(self, what=""):
        Opaque._n += 1
        self.id = Opaque._n
        self.what = what

    def __repr__(self):
        return f"Opaque#{self.id}({self.what})"
