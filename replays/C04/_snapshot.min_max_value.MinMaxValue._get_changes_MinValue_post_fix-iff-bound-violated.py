"""Replay file written by /verif/check.py
{
 "property": "C04",
 "failed_obligation": "_snapshot.min_max_value.MinMaxValue._get_changes#MinValue/post:fix-iff-bound-violated",
 "path": 2,
 "function": "inline_snapshot._snapshot.min_max_value.MinMaxValue._get_changes#MinValue",
 "verdict": "refuted",
 "backend": "z3-5.1 finite-scope k=2",
 "solver_model": "FalseVal = Val!e1\nNoneVal = Val!e1\nTrueVal = Val!e0\ndeepcopy_Val = [else -> Var(0)]\nle_Val = [else -> Val!e1]\nraises_ord_Val = [else -> False]\nself._new_value!2 = Val!e1\nself._old_value!1 = Val!e1\ntruthy_Val = [Val!e1 -> False, else -> True]\nundefined_Val = Val!e0",
 "where": ""
}
"""

print('no native failing input was found for this obligation; see the header for the solver output')
