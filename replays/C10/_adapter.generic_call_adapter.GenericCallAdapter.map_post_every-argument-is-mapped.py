"""Replay file written by /verif/check.py
{
 "property": "C10",
 "failed_obligation": "_adapter.generic_call_adapter.GenericCallAdapter.map/post:every-argument-is-mapped",
 "path": 1,
 "function": "inline_snapshot._adapter.generic_call_adapter.GenericCallAdapter.map",
 "verdict": "refuted",
 "backend": "z3-5.1",
 "solver_model": "",
 "where": ""
}
"""

print('no native failing input was found for this obligation; see the header for the solver output')
