"""Small leaf functions: _source_file.SourceFile._format, _unmanaged.*, _is.Is.__eq__, _code_repr.sort_set_values / value_code_repr."""
import z3

from pyvc.contract import Loop, Shape, contract
from pyvc.core import RaiseSig, fresh_value, pack, unpack
from pyvc.defaults import DEFAULT_POLICIES, SHAPES
from pyvc.interp import _MISSING
from pyvc.specs import SPEC_NS, val_term
from pyvc.types import BOOL, INT, STR, Abs, Obj, Opaque, SV, parse_ty, sort_of

from .files import TXT, fmt_fn, p_enforce

VAL = Abs("Val")

# ---------------------------------------------------------------------------------------------- SourceFile._format


def p_format_code_sf(I, args, kwargs, node):
    I.ghost["formatted"] = True
    return SV(fmt_fn()(args[0].t), TXT)


for variant, src in (("with-source", "@ExSrc"), ("without-source", "=None")):
    contract(
        "inline_snapshot._source_file.SourceFile._format",
        name=f"inline_snapshot._source_file.SourceFile._format#{variant}",
        params={"self": "@SF", "text": "Txt"},
        shapes={"SF": Shape("inline_snapshot._source_file.SourceFile", {"_source": src}), "ExSrc": Shape("executing.Source", {"filename": "Opaque"})},
        globals_={"enforce": "Bool"},
        callees={"inline_snapshot._format.enforce_formatting": p_enforce, "inline_snapshot._format.format_code": p_format_code_sf, "pathlib.Path": "havoc", "Path": "havoc"},
        returns="Txt",
        result_name="ret",
        ghost={"vars": {"formatted": "=False"}, "havoc_unknown_externals": True},
        ensures={
            # C20/C16: a generated fragment is formatted on its own only when the whole file is not going to be re-formatted by a
            # format-command anyway, and only when there is a source file whose project settings apply
            "fragment-formatting-gate [C20,C16,C12]": ("ret == fmt(text) and formatted" if variant == "with-source" else "ret == text and not formatted")
                                                      if False else ("implies(not enforce, ret == fmt(text)) and implies(enforce, ret == text)"
                                                                     if variant == "with-source" else "ret == text and not formatted"),
        },
        frame=[],
        safety_props=["C18"],
    )

# ---------------------------------------------------------------------------------------------- _unmanaged / _is

UM = "inline_snapshot._unmanaged"


def p_is_dirty_equal(I, args, kwargs, node):
    return SV(z3.Function("is_dirty_equal", sort_of(VAL), z3.BoolSort())(val_term(I, args[0])), BOOL)


def s_isinst(I, v, name):
    return SV(z3.Function("isinst_" + name, sort_of(VAL), z3.BoolSort())(val_term(I, v)), BOOL)


def s_dirty(I, v):
    return SV(z3.Function("is_dirty_equal", sort_of(VAL), z3.BoolSort())(val_term(I, v)), BOOL)


SPEC_NS.update({"isinst": s_isinst, "dirty": s_dirty})

UNMANAGED = "(dirty(value) or isinst(value, 'Is') or isinst(value, 'Snapshot'))"

contract(
    UM + ".update_allowed",
    params={"value": "Val"},
    callees={UM + ".is_dirty_equal": p_is_dirty_equal},
    returns=None,
    result_name="ret",
    ensures={
        # C10: Is(...), dirty-equals values and nested snapshot() results are the user's: never updated
        "managed-iff-not-user-controlled [C10,C06]": "ret == (not " + UNMANAGED + ")",
    },
    frame=[],
    safety_props=["C18"],
    assumes=["PS7"],
)

contract(
    UM + ".map_unmanaged",
    params={"value": "Val"},
    callees={UM + ".is_dirty_equal": p_is_dirty_equal, UM + ".is_unmanaged": "inline", UM + ".update_allowed": "inline"},
    returns=None,
    result_name="ret",
    ensures={
        "wraps-exactly-the-user-controlled-values [C10,C06]": "implies(" + UNMANAGED + ", cls_is(ret, 'Unmanaged')) and when(cls_is(ret, 'Unmanaged'), same(ret.value, value) and " + UNMANAGED + ") and when(not cls_is(ret, 'Unmanaged'), same(ret, value))",
    },
    frame=[],
    safety_props=["C18"],
)

SHAPES.update({"Wrapper": Shape(UM + ".Unmanaged", {"value": "Val"}), "IsObj": Shape("inline_snapshot._is.Is", {"value": "Val"})})

contract(
    UM + ".Unmanaged.__eq__",
    params={"self": "@Wrapper", "other": "Val"},
    requires={"never-compared-with-another-wrapper": "not isinst(other, 'Unmanaged')"},
    returns="Val",
    result_name="ret",
    # C06: a wrapped value compares exactly like the value
    ensures={"forwards-the-comparison [C06,C10]": "same(ret, eq(self.value, other))"},
    frame=[],
    safety_props=["C18"],
)

contract(
    "inline_snapshot._is.Is.__eq__",
    params={"self": "@IsObj", "other": "Val"},
    returns="Val",
    result_name="ret",
    ensures={"forwards-the-comparison [C06,C10]": "same(ret, eq(self.value, other))"},
    frame=[],
    safety_props=["C18"],
)

# ---------------------------------------------------------------------------------------------- _code_repr.sort_set_values

CR = "inline_snapshot._code_repr"
LV = parse_ty("List[Val]")
LS = parse_ty("List[Str]")


def _uf(name, *sorts):
    return z3.Function(name, *[sort_of(s) for s in sorts])


def p_sorted(I, args, kwargs, node):
    """X9: sorted(xs) returns the elements ordered by `<`, or raises TypeError when two of them cannot be compared"""
    xs = args[0]
    if isinstance(xs, Obj) and xs.cls == "strlist":
        I.ghost["sorted_strings"] = True
        return Obj("strlist", {"of": xs.fields["of"], "sorted": True})
    if not I.ctx.choose():
        I.ghost["sort_raised"] = True
        raise RaiseSig("TypeError", info=["sorted(): elements are not orderable"])
    I.ghost["sorted_values"] = True
    return SV(_uf("sorted_vals", Abs("ValSet"), Abs("ValSet"))(xs.t), Abs("ValSet"))


def p_map(I, args, kwargs, node):
    return Obj("maprepr", {"of": args[1]})


def p_list_(I, args, kwargs, node):
    v = args[0]
    if isinstance(v, Obj) and v.cls == "maprepr":
        return Obj("strlist", {"of": v.fields["of"], "sorted": False})
    return v


def pat_chain_check(I, n, env):
    """all(a <= b for a, b in zip(xs, xs[1:])): is the sorted list a chain, i.e. are the elements totally ordered (PS2/X9)"""
    xs = env.lookup("set_values")
    r = SV(z3.Function("is_chain", sort_of(Abs("ValSet")), z3.BoolSort())(xs.t), BOOL)
    I.ghost["chain_checked_on"] = xs
    I.ghost["chain_ok"] = r
    return r


def s_is_chain(I, v):
    return SV(z3.Function("is_chain", sort_of(Abs("ValSet")), z3.BoolSort())(v.t), BOOL)


SPEC_NS["is_chain"] = s_is_chain

contract(
    CR + ".sort_set_values",
    params={"set_values": "ValSet"},
    callees={"sorted": p_sorted, "map": p_map, "list": p_list_},
    extern_patterns={"all((a <= b for (a, b) in zip(set_values, set_values[1:])))": pat_chain_check},
    returns=None,
    result_name="ret",
    ghost={"vars": {"sort_raised": "=False", "sorted_values": "=False", "sorted_strings": "=False", "chain_ok": "=False", "chain_checked_on": "=None"}},
    ensures={
        # C16: the text for a set must not depend on the iteration order: the order of the elements is used only when it is
        # total on them (sorted() did not raise and its result is a chain); otherwise the reprs are sorted
        "element-order-only-when-total [C16]": "when(not sort_raised, chain_checked_on == sorted_vals(old(set_values)))"
            " and implies(not sort_raised and is_chain(sorted_vals(old(set_values))), not sorted_strings and ret.sorted == False and ret.of == sorted_vals(old(set_values)))",
        "otherwise-sorted-by-repr [C16]": "implies(sort_raised or not is_chain(sorted_vals(old(set_values))), sorted_strings and ret.sorted == True)",
    },
    frame=[],
    safety_props=["C18"],
    assumes=["X9"],
)


def s_sorted_vals(I, v):
    return SV(_uf("sorted_vals", Abs("ValSet"), Abs("ValSet"))(v.t), Abs("ValSet"))


SPEC_NS["sorted_vals"] = s_sorted_vals

# ---------------------------------------------------------------------------------------------- _code_repr.value_code_repr


def p_dispatch(I, args, kwargs, node):
    r = SV(z3.Function("dispatch_repr", sort_of(VAL), z3.StringSort())(val_term(I, args[0])), STR)
    I.ghost["dispatched"] = r
    return r


def p_ast_parse(I, args, kwargs, node):
    ok = z3.Function("parses", z3.StringSort(), z3.BoolSort())(args[0].t)
    if I.ctx.branch(ok):
        return Opaque("tree")
    raise RaiseSig("SyntaxError", info=["ast.parse"])


def p_hasrepr(I, args, kwargs, node):
    return Obj("HasReprObj", {"type": args[0], "text": args[1]})


def p_real_repr(I, args, kwargs, node):
    o = args[0]
    if isinstance(o, Obj) and o.cls == "HasReprObj":
        I.ghost["hasrepr_of"] = o.fields["text"]
        return SV(z3.Function("hasrepr_text", z3.StringSort(), z3.StringSort())(o.fields["text"].t), STR)
    return Opaque("repr")


def s_parses(I, s):
    return SV(z3.Function("parses", z3.StringSort(), z3.BoolSort())(s.t), BOOL)


def s_hasrepr_text(I, s):
    return SV(z3.Function("hasrepr_text", z3.StringSort(), z3.StringSort())(s.t), STR)


def s_dispatch_repr(I, v):
    return SV(z3.Function("dispatch_repr", sort_of(VAL), z3.StringSort())(val_term(I, v)), STR)


SPEC_NS.update({"parses": s_parses, "hasrepr_text": s_hasrepr_text, "dispatch_repr": s_dispatch_repr})

contract(
    CR + ".value_code_repr",
    params={"obj": "Val"},
    callees={CR + ".code_repr_dispatch": p_dispatch, "ast.parse": p_ast_parse, CR + ".HasRepr": p_hasrepr, "HasRepr": p_hasrepr, CR + ".real_repr": p_real_repr,
             "real_repr": p_real_repr, "repr": p_real_repr, "type": lambda I, *a: I.ghost.setdefault("_type_of_obj", __import__("pyvc.types", fromlist=["ClassRef"]).ClassRef("T", "type(obj)"))},
    returns=None,
    result_name="ret",
    ghost={"vars": {"dispatched": "=None", "hasrepr_of": "=None"}},
    ensures={
        # C01: "objects whose repr is not Python code ... are recorded through HasRepr"
        "parsable-repr-is-used-as-is [C01,C16]": "implies(parses(dispatch_repr(obj)), ret == dispatch_repr(obj))",
        "unparsable-repr-goes-through-HasRepr [C01]": "implies(not parses(dispatch_repr(obj)), ret == hasrepr_text(dispatch_repr(obj)))",
    },
    frame=[],
    safety_props=["C18"],
    assumes=["X1"],
)
