"""Statement execution, loops (cut by invariants or completely unrolled), try/except/finally."""
from __future__ import annotations

import ast

import z3

from .core import (BreakSig, ContinueSig, PathEnd, RaiseSig, ReturnSig, Unsupported, fresh_value, is_sym,
                   list_get, pack, ty_of, unpack, zint)
from .interp import (_UNBOUND, Closure, Env, Interp, Iter, PyDict, PyList, assigned_names, exc_isa)
from .contract import split_label
from .types import sort_of, BOOL, INT, FuncRef, Obj, Opaque, SDict, SList, SSet, SV, ClassRef


def exec_block(I: Interp, stmts, env: Env):
    for st in stmts:
        exec_stmt(I, st, env)


def exec_stmt(I: Interp, st, env: Env):
    k = type(st).__name__
    f = _STMTS.get(k)
    if f is None:
        raise Unsupported(f"statement {k} at line {st.lineno}")
    if I.V.on_stmt(I, st, env):
        return None
    return f(I, st, env)


def s_Expr(I, st, env):
    if isinstance(st.value, ast.Constant):
        return
    I.eval(st.value, env)


def s_Assign(I, st, env):
    v = I.eval(st.value, env)
    for t in st.targets:
        I.assign(t, v, env)


def s_AnnAssign(I, st, env):
    if st.value is not None:
        I.assign(st.target, I.eval(st.value, env), env)


def s_AugAssign(I, st, env):
    t = st.target
    if isinstance(t, ast.Name):
        cur = I.lookup(t.id, env, t)
    elif isinstance(t, ast.Attribute):
        base = I.eval(t.value, env)
        cur = I.getattr(base, t.attr, t)
    elif isinstance(t, ast.Subscript):
        base = I.eval(t.value, env)
        idx = I.eval(t.slice, env)
        cur = I.index(base, idx, t)
    else:
        raise Unsupported("augassign target")
    rhs = I.eval(st.value, env)
    if isinstance(rhs, Obj) and rhs.cls == "generator":
        rhs = rhs.fields["trace"]
    # list += list mutates in place in Python; our lists are values unless aliased, so rebinding is
    # equivalent as long as the list does not escape (PS3) -- PyList is extended in place to keep aliasing.
    if isinstance(cur, PyList) and isinstance(st.op, ast.Add):
        if isinstance(rhs, PyList):
            cur.items.extend(rhs.items)
            return
        if isinstance(rhs, (list, tuple)):
            cur.items.extend(rhs)
            return
        if isinstance(rhs, SList):
            if isinstance(rhs.n, int):
                cur.items.extend(list_get(I.ctx, rhs, i) for i in range(rhs.n))
                return
            new = I.binop(st.op, I.to_slist(cur, rhs.ety), rhs, st)
            new.immutable = False
            _store(I, t, new, env)
            return
    new = I.binop(st.op, cur, rhs, st)
    _store(I, t, new, env)


def _store(I, t, v, env):
    if isinstance(t, ast.Name):
        env.set(t.id, v)
    elif isinstance(t, ast.Attribute):
        I.setattr(I.eval(t.value, env), t.attr, v, t)
    else:
        I.setitem(I.eval(t.value, env), I.eval(t.slice, env), v, t)


def s_If(I, st, env):
    if I.branch(I.eval(st.test, env)):
        exec_block(I, st.body, env)
    else:
        exec_block(I, st.orelse, env)


def s_Return(I, st, env):
    raise ReturnSig(I.eval(st.value, env) if st.value is not None else None)


def s_Pass(I, st, env):
    pass


def s_Break(I, st, env):
    raise BreakSig()


def s_Continue(I, st, env):
    raise ContinueSig()


def s_Assert(I, st, env):
    t = I.truth(I.eval(st.test, env))
    I.implicit("AssertionError", t if isinstance(t, bool) else z3.simplify(t), f"assert@{_src(st.test)}", st)


def _src(n, limit=60):
    s = ast.unparse(n).replace("\n", " ")
    return s if len(s) <= limit else s[: limit - 3] + "..."


def s_Raise(I, st, env):
    if st.exc is None:
        cur = getattr(I.frame, "current_exc", None)
        if cur is None:
            raise Unsupported("bare raise outside handler")
        raise cur
    e = st.exc
    name = None
    info = None
    if isinstance(e, ast.Call):
        f = I.eval(e.func, env)
        name = f.name if isinstance(f, ClassRef) else getattr(f, "qual", "Exception").rsplit(".", 1)[-1]
        info = [ast.unparse(a)[:80] for a in e.args]
    else:
        f = I.eval(e, env)
        if isinstance(f, ClassRef):
            name = f.name
        elif isinstance(f, Obj):
            name = f.cls.rsplit(".", 1)[-1]
        else:
            name = getattr(f, "qual", "Exception").rsplit(".", 1)[-1]
    raise RaiseSig(name, info)


def s_Global(I, st, env):
    for n in st.names:
        I.V.declare_global_name(I, n, env)


def s_Nonlocal(I, st, env):
    for n in st.names:
        env.nonlocals.add(n)


def s_Import(I, st, env):
    for a in st.names:
        env.set(a.asname or a.name.split(".")[0], I.resolve_dotted(a.name if a.asname else a.name.split(".")[0]))


def s_ImportFrom(I, st, env):
    base = I.frame.module._resolve_from(st) if I.frame.module is not None else (st.module or "")
    ok = I.V.import_ok(I, base, st)
    if ok is not True:
        I.implicit("ImportError", ok, f"import({base})", st)
    for a in st.names:
        env.set(a.asname or a.name, I.resolve_dotted(f"{base}.{a.name}"))


def s_FunctionDef(I, st, env):
    c = Closure(st, env, I.frame)
    c.decorators = [ast.unparse(d) for d in st.decorator_list]
    env.set(st.name, c)


def s_Delete(I, st, env):
    for t in st.targets:
        if isinstance(t, ast.Name) and env.has(t.id):
            env.set(t.id, _UNBOUND)
        else:
            raise Unsupported("del " + ast.unparse(t)[:40])


def s_With(I, st, env):
    from .calls import call_value

    mgrs = []
    for it in st.items:
        m = I.eval(it.context_expr, env)
        entered = I.V.with_enter(I, m, it, env)
        if it.optional_vars is not None:
            I.assign(it.optional_vars, entered, env)
        mgrs.append(m)
    try:
        exec_block(I, st.body, env)
    except (ReturnSig, BreakSig, ContinueSig, RaiseSig) as sig:
        for m in reversed(mgrs):
            I.V.with_exit(I, m, sig, env)
        raise
    for m in reversed(mgrs):
        I.V.with_exit(I, m, None, env)


def s_Try(I, st, env):
    caught = set()
    for h in st.handlers:
        if h.type is None:
            caught.add("BaseException")
        elif isinstance(h.type, ast.Tuple):
            for e in h.type.elts:
                caught.add(ast.unparse(e).rsplit(".", 1)[-1])
        else:
            caught.add(ast.unparse(h.type).rsplit(".", 1)[-1])

    def run_finally():
        if st.finalbody:
            exec_block(I, st.finalbody, env)

    fr = I.frame
    try:
        fr.handlers.append(caught)
        try:
            exec_block(I, st.body, env)
        finally:
            fr.handlers.pop()
    except RaiseSig as sig:
        if I.frame is not fr:
            raise
        handler = None
        for h in st.handlers:
            names = ["BaseException"] if h.type is None else (
                [ast.unparse(e).rsplit(".", 1)[-1] for e in h.type.elts] if isinstance(h.type, ast.Tuple) else [ast.unparse(h.type).rsplit(".", 1)[-1]]
            )
            if any(exc_isa(sig.cls, n) for n in names):
                handler = h
                break
        if handler is None:
            try:
                run_finally()
            except PathEnd:
                raise
            raise
        try:
            if handler.name:
                exo = Obj(sig.cls, {"value": getattr(sig, "value", Opaque("exc.value")), "args": Opaque("exc.args")})
                env.set(handler.name, exo)
            prev = getattr(fr, "current_exc", None)
            fr.current_exc = sig
            try:
                exec_block(I, handler.body, env)
            finally:
                fr.current_exc = prev
        except (ReturnSig, BreakSig, ContinueSig, RaiseSig):
            run_finally()
            raise
        run_finally()
        return
    except (ReturnSig, BreakSig, ContinueSig):
        run_finally()
        raise
    # no exception
    try:
        exec_block(I, st.orelse, env)
    except (ReturnSig, BreakSig, ContinueSig, RaiseSig):
        run_finally()
        raise
    run_finally()


# ------------------------------------------------------------------------------------------------
# loops


def loop_ordinal(I: Interp, st):
    for i, l in enumerate(I.frame.loops):
        if l is st:
            return i
    return None


def s_For(I, st, env):
    ordn = loop_ordinal(I, st)
    spec = I.V.loop_spec(I.frame.qual, ordn, I.frame.loops)
    it = I.eval(st.iter, env)
    if spec is not None and spec.elem_ty and not isinstance(it, (SList, PyList)):
        it = PyList(I.concrete_iter(it))
    if isinstance(it, SSet):
        from .types import ListT as _ListT

        lst = fresh_value(I.ctx, _ListT(it.ety), "set_elements")
        j_ = z3.Int(I.ctx.fresh_name("sj"))
        I.ctx.assume(z3.ForAll([j_], z3.Implies(z3.And(0 <= j_, j_ < lst.nz()), z3.Select(it.pred, z3.Select(lst.arr, j_)))))
        # ... and every element of the set is visited: a Skolem position for each member
        x_ = z3.Const(I.ctx.fresh_name("sx"), sort_of(it.ety))
        pos_ = z3.Function(I.ctx.fresh_name("set_pos"), sort_of(it.ety), z3.IntSort())
        I.ctx.assume(z3.ForAll([x_], z3.Implies(z3.Select(it.pred, x_), z3.And(0 <= pos_(x_), pos_(x_) < lst.nz(), z3.Select(lst.arr, pos_(x_)) == x_))))
        it = lst
    if isinstance(it, Obj) and it.cls == "generator":
        it = it.fields["trace"]
    elif isinstance(it, Obj) and not it.rec and I.V.has_method(it.cls, "__iter__"):
        it = I.call_method(it, "__iter__", [], {})
    if isinstance(it, Opaque) or (isinstance(it, Iter) and any(isinstance(x, Opaque) for x in it.srcs)):
        return opaque_loop(I, st, env)
    if spec is None and I.V.c.ghost.get("auto_cut") and isinstance(it, (SList, Iter)) and not (isinstance(it, SList) and isinstance(it.n, int)):
        # a loop without a contract over a list of unknown length: cut with the weakest invariant (True); only the ghost
        # counters of the tracked calls that occur in its body are havoced
        from .contract import Loop as _Loop

        gm = []
        tg = I.V.c.ghost.get("tracked_ghost", {})
        for n_ in ast.walk(ast.Module(body=st.body, type_ignores=[])):
            if isinstance(n_, ast.Call):
                fn_ = ast.unparse(n_.func).rsplit(".", 1)[-1]
                gm += tg.get(fn_, [])
        spec = _Loop(index=f"_auto{ordn}", inv={}, ghost_modifies=sorted(set(gm)))
        I.V.auto_cut_loops = getattr(I.V, "auto_cut_loops", set()) | {(I.frame.qual, ordn)}
    if spec is None or spec.unroll:
        try:
            items = I.concrete_iter(it)
        except Unsupported as ex:
            raise Unsupported(f"{I.frame.qual}: loop #{ordn} at line {st.lineno}: {ex}")
        broke = False
        for x in items:
            I.assign(st.target, x, env)
            try:
                exec_block(I, st.body, env)
            except BreakSig:
                broke = True
                break
            except ContinueSig:
                continue
        if not broke:
            exec_block(I, st.orelse, env)
        return
    cut_loop(I, st, env, spec, ordn, it)


def opaque_loop(I, st, env):
    """A loop over an iterable the engine knows nothing about: sound only if the body cannot touch tracked
    state -- then its effect is havoc of the names it assigns (and it may raise)."""
    names, attrs, mutated = assigned_names(st.body)
    tn, _, _ = assigned_names([ast.Assign(targets=[st.target], value=ast.Constant(0))])
    tracked = I.V.tracked_calls(I.frame.qual)
    returns = []
    for n in ast.walk(ast.Module(body=st.body, type_ignores=[])):
        if isinstance(n, (ast.Yield, ast.YieldFrom)):
            raise Unsupported(f"loop over an unknown iterable at line {st.lineno} contains yield")
        if isinstance(n, ast.Return):
            returns.append(n)
        if isinstance(n, ast.Call):
            fn = ast.unparse(n.func)
            if any(fn == t or fn.endswith("." + t) for t in tracked):
                raise Unsupported(f"loop over an unknown iterable at line {st.lineno} calls tracked {fn}")
    if attrs:
        raise Unsupported(f"loop over an unknown iterable at line {st.lineno} assigns attributes {sorted(attrs)}")
    untracked = I.V.untracked(I.frame.qual)
    for nm in sorted((names | tn | {m for m in mutated if m.isidentifier()}) - untracked):
        if env.has(nm):
            cur = env.lookup(nm)
            if cur is _UNBOUND or isinstance(cur, (FuncRef, ClassRef, Closure)):
                continue
            env.set(nm, havoc_value(I, cur, nm))
        else:
            env.vars[nm] = Opaque(nm)
    I.V.havoc_call(I, f"<loop body at line {st.lineno}>", [], {}, st)
    # the unknown iterations may leave through any `return` of the body (with the loop variables unknown)
    for rn in returns:
        if I.ctx.choose():
            continue
        for nm in tn:
            env.set(nm, Opaque(nm))
        raise ReturnSig(I.eval(rn.value, env) if rn.value is not None else None)


def s_While(I, st, env):
    ordn = loop_ordinal(I, st)
    spec = I.V.loop_spec(I.frame.qual, ordn, I.frame.loops)
    if spec is None:
        # bounded concrete execution is not allowed silently: only loops whose guard stays concrete
        n = 0
        while True:
            c = I.truth(I.eval(st.test, env))
            if not isinstance(c, bool):
                raise Unsupported(f"{I.frame.qual}: while loop #{ordn} at line {st.lineno} needs an invariant")
            if not c:
                break
            n += 1
            if n > 10000:
                raise Unsupported("concrete while loop does not terminate")
            try:
                exec_block(I, st.body, env)
            except BreakSig:
                return
            except ContinueSig:
                continue
        exec_block(I, st.orelse, env)
        return
    cut_loop(I, st, env, spec, ordn, None)


def iter_len_and_get(I: Interp, it):
    """(length as z3 Int, getter(index z3) -> value) for an iterable with symbolic length."""
    if isinstance(it, Iter):
        if it.kind == "list":
            n, g = iter_len_and_get(I, it.srcs[0])
            p = zint(it.pos)
            return z3.simplify(n - p), (lambda k: g(k + p))
        if it.kind == "zip":
            parts = [iter_len_and_get(I, s) for s in it.srcs]
            n = parts[0][0]
            for m, _ in parts[1:]:
                n = z3.If(m < n, m, n)
            p = zint(it.pos)
            return z3.simplify(n - p), (lambda k: tuple(g(k + p) for _, g in parts))
        if it.kind == "enumerate":
            n, g = iter_len_and_get(I, it.srcs[0])
            return n, (lambda k: (SV(z3.simplify(k + zint(it.start)), INT), g(k)))
    if isinstance(it, SList):
        return it.nz(), (lambda k: list_get(I.ctx, it, k))
    if isinstance(it, (PyList, tuple, str, list)):
        l = I.to_slist(it if not isinstance(it, list) else PyList(it))
        return l.nz(), (lambda k: list_get(I.ctx, l, k))
    raise Unsupported(f"cannot iterate symbolically over {it!r}")


def havoc_value(I: Interp, v, hint):
    """A fresh value of the same shape as v."""
    if isinstance(v, Obj) and v.rec is None and any(callable(x) for x in v.fields.values()):
        return v  # a policy object: its state lives in ghost variables (havoced separately)
    if isinstance(v, SList):
        ty = v.ty
        nv = fresh_value(I.ctx, ty, hint)
        nv.immutable = False
        return nv
    if isinstance(v, PyList):
        if not v.items:
            from .types import Abs as _Abs, ListT as _ListT

            nv = fresh_value(I.ctx, _ListT(_Abs("Any")), hint)
            nv.immutable = False
            return nv
        l = I.to_slist(v)
        nv = fresh_value(I.ctx, l.ty, hint)
        nv.immutable = False
        return nv
    if isinstance(v, SDict):
        return fresh_value(I.ctx, v.ty, hint)
    if isinstance(v, PyDict) and getattr(v, "assoc", None) is not None and not v.d:
        nv = PyDict({})
        nv.assoc = havoc_value(I, v.assoc, hint + ".assoc")
        return nv
    if isinstance(v, PyDict):
        out = {}
        for k, x in v.d.items():
            if isinstance(x, PyList) and not x.items:
                decl = I.V.local_type(I.frame.qual, hint + "[]")
                if decl is None:
                    raise Unsupported(f"cannot havoc {hint}[{k!r}]: declare locals['{hint}[]']")
                nv = fresh_value(I.ctx, decl, f"{hint}[{k}]")
                nv.immutable = False
                out[k] = nv
            else:
                out[k] = havoc_value(I, x, f"{hint}[{k}]")
        return PyDict(out)
    if isinstance(v, Iter):
        ni = Iter(v.kind, v.srcs, v.start, v.n)
        ni.pos = SV(I.ctx.fresh(INT, hint + "_pos"), INT).t
        I.ctx.assume(ni.pos >= 0)
        return ni
    t = ty_of(v)
    if isinstance(v, (set, frozenset)):
        from .types import Abs as _Abs, SetT as _SetT

        ety = ty_of(next(iter(v))) if v else _Abs("Any")
        if isinstance(next(iter(v), None), str):
            from .types import STR as _STR

            ety = _STR
        return fresh_value(I.ctx, _SetT(ety), hint)
    if t is None:
        if isinstance(v, (Opaque, Closure)) or v is None:
            return Opaque(hint)
        raise Unsupported(f"cannot havoc {hint} = {v!r}")
    if isinstance(v, str) and len(v) != 1:
        from .types import TEXT

        nv = fresh_value(I.ctx, TEXT, hint)
        nv.immutable = False
        return nv
    return fresh_value(I.ctx, t, hint)


def cut_loop(I: Interp, st, env: Env, spec, ordn, it):
    V = I.V
    ctx = I.ctx
    is_for = isinstance(st, ast.For)
    qual = I.frame.qual
    if is_for:
        if spec.elem_ty and isinstance(it, (PyList, list, tuple)):
            from .core import slist_of
            from .types import parse_ty

            items = it.items if isinstance(it, PyList) else list(it)
            it = slist_of(I.ctx, items, parse_ty(spec.elem_ty))
        n_it, getter = iter_len_and_get(I, it)
        if isinstance(it, SList):
            I.ghost[f"_iter{ordn}"] = it
    idx = spec.index or f"_k{ordn}"

    def check_inv(kind):
        for label, expr in spec.inv.items():
            V.check_clause(I, env, kind, f"loop{ordn}.{label}", expr)

    def assume_inv():
        for label, expr in spec.inv.items():
            V.assume_clause(I, env, expr, tag=split_label(label)[0])

    # 1. entry
    if is_for:
        env.set(idx, 0)
    check_inv("inv-entry")
    # 2. havoc
    names, attrs, mutated = assigned_names(st.body + ([st] if False else []))
    if is_for:
        tn, _, _ = assigned_names([ast.Assign(targets=[st.target], value=ast.Constant(0))])
        names |= tn
    if spec.modifies is not None:
        names = set(spec.modifies) | ({n for n in names if False})
        attrs, mutated = set(), set()
        mod_attrs = [m for m in spec.modifies if "." in m]
        names = {m for m in spec.modifies if "." not in m}
        attrs = set(mod_attrs)
    for nm in sorted(names | {m for m in mutated if m.isidentifier()}):
        if env.has(nm):
            cur = env.lookup(nm)
            if cur is _UNBOUND or isinstance(cur, (FuncRef, ClassRef)):
                continue
            decl = V.local_type(qual, nm)
            if decl is not None:
                nv = fresh_value(ctx, decl, nm)
                if isinstance(nv, SList):
                    nv.immutable = False
                env.set(nm, nv)
            else:
                env.set(nm, havoc_value(I, cur, nm))
        else:
            decl = V.local_type(qual, nm)
            if decl is not None:
                nv = fresh_value(ctx, decl, nm)
                if isinstance(nv, SList):
                    nv.immutable = False
                env.vars[nm] = nv
            else:
                env.vars[nm] = _UNBOUND
    for path in sorted(attrs | {m for m in mutated if not m.isidentifier()}):
        pnode = ast.parse(path, mode="eval").body
        if any(isinstance(x, ast.Call) for x in ast.walk(pnode)):
            # an attribute of a call result: the object comes from a callee policy (opaque / fresh per call)
            continue
        root = pnode
        while isinstance(root, (ast.Attribute, ast.Subscript)):
            root = root.value
        if isinstance(root, ast.Name) and (not env.has(root.id) or env.lookup(root.id) is _UNBOUND):
            continue
        V.havoc_path(I, env, path)
    V.on_loop_havoc(I, st, env, spec)
    if is_for:
        k = z3.Int(ctx.fresh_name(idx))
        ctx.assume(z3.And(k >= 0, k <= n_it))
        env.set(idx, SV(k, INT))
    assume_inv()
    # 3. fork
    if ctx.choose():
        # arbitrary iteration
        if is_for:
            ctx.assume(k < n_it)
            I.assign(st.target, getter(k), env)
        else:
            c = I.truth(I.eval(st.test, env))
            ctx.assume(c)
        dec0 = None
        if spec.decreases:
            dec0 = zint(V.eval_clause(I, env, spec.decreases))
        for gname, gval in spec.iter_init.items():
            I.ghost[gname] = gval
        try:
            exec_block(I, st.body, env)
        except BreakSig:
            return  # continues after the loop with the state at the break
        except ContinueSig:
            pass
        for label, expr in spec.iter_post.items():
            V.check_clause(I, env, "iter-post", f"loop{ordn}.{label}", expr)
        if is_for:
            env.set(idx, SV(z3.simplify(k + 1), INT))
        check_inv("inv-preserved")
        if spec.decreases:
            dec1 = zint(V.eval_clause(I, env, spec.decreases))
            V.add_obligation(I, "termination", f"loop{ordn}.decreases", z3.And(dec0 >= 0, dec1 < dec0), V.safety_props(qual))
        raise PathEnd()
    else:
        if is_for:
            ctx.assume(k >= n_it)
        else:
            c = I.truth(I.eval(st.test, env))
            ctx.assume(z3.Not(c) if not isinstance(c, bool) else (not c))
        exec_block(I, st.orelse, env)


_STMTS = {
    "Expr": s_Expr, "Assign": s_Assign, "AnnAssign": s_AnnAssign, "AugAssign": s_AugAssign, "If": s_If,
    "Return": s_Return, "Pass": s_Pass, "Break": s_Break, "Continue": s_Continue, "Assert": s_Assert,
    "Raise": s_Raise, "Global": s_Global, "Nonlocal": s_Nonlocal, "Import": s_Import,
    "ImportFrom": s_ImportFrom, "FunctionDef": s_FunctionDef, "Delete": s_Delete, "With": s_With,
    "Try": s_Try, "For": s_For, "While": s_While,
}
