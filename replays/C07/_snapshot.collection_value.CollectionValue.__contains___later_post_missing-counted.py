"""Replay file written by /verif/check.py
{
 "property": "C07",
 "failed_obligation": "_snapshot.collection_value.CollectionValue.__contains__#later/post:missing-counted",
 "path": 1,
 "function": "inline_snapshot._snapshot.collection_value.CollectionValue.__contains__#later",
 "verdict": "refuted",
 "backend": "z3-5.1",
 "solver_model": "FalseVal = Val!val!1\nNoneVal = Val!val!2\nTrueVal = Val!val!0\n_snapshot.generic_value.clone_result!17 = Val!val!5\ndeepcopy_Val = [else ->\n If(And(Var(0) == Val!val!4,\n        Not(Var(0) == Val!val!2),\n        Not(Var(0) == Val!val!0),\n        Not(Var(0) == Val!val!6),\n        Not(Var(0) == Val!val!5)),\n    Val!val!4,\n    Val!val!5)]\neq_Val = [else -> Val!val!6]\nitem!4 = Val!val!3\nself._new_value!2 = mk_List_Val(K(Int, Val!val!4), 0)\nself._old_value!1 = Val!val!4\ntruthy_Val = [Val!val!0 -> True, Val!val!6 -> True, else -> False]\nundefined_Val = Val!val!4",
 "where": ""
}
"""

print('no native failing input was found for this obligation; see the header for the solver output')
