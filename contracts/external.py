"""_external: outsource / DiscStorage / external (C13).  Names are z3 Strings; sha256 hex digests enter as
"64 characters, none of them '-', '.', '*'" (part of X7), the directory as a symbolic list of Path records (X8)."""
import z3

from pyvc.contract import Loop, Shape, contract
from pyvc.core import PathEnd, RaiseSig, Unsupported, fresh_value, pack, unpack
from pyvc.defaults import DEFAULT_POLICIES, SHAPES
from pyvc.interp import _MISSING, EXC_BASES, PyList
from pyvc.specs import SPEC_NS, val_term
from pyvc.types import BOOL, INT, STR, Abs, Obj, Opaque, SV, declare_record, parse_ty, sort_of

EX = "inline_snapshot._external"
EXC_BASES["HashError"] = "Exception"

declare_record("PathRec", {"stem": STR, "suffix": STR})
PATH = parse_ty("PathRec")


def sha_hex(I, data_t):
    f = z3.Function("sha256_hex", sort_of(Abs("Val")), z3.StringSort())
    return f(data_t)


def _assume_hash_shape(I, h):
    """X7 (shape part): a hex digest has 64 characters and contains none of '-', '.', '*'"""
    I.ctx.assume(z3.And(z3.Length(h) == 64, z3.Not(z3.Contains(h, z3.StringVal("-"))), z3.Not(z3.Contains(h, z3.StringVal("."))),
                        z3.Not(z3.Contains(h, z3.StringVal("*")))), tag="X7")


# ---------------------------------------------------------------------------------------------- outsource


def p_sha256(I, args, kwargs, node):
    o = Obj("hashlib.sha256", {})

    def update(I2, data):
        o.fields["data"] = data
        return None

    def hexdigest(I2):
        d = o.fields["data"]
        h = sha_hex(I2, val_term(I2, d))
        _assume_hash_shape(I2, h)
        I2.ghost["hashed"] = d
        return SV(h, STR)

    o.fields["update"] = update
    o.fields["hexdigest"] = hexdigest
    return o


def p_encode_utf8(I, sv, name):
    return SV(z3.Function("utf8", sort_of(Abs("Val")), sort_of(Abs("Val")))(sv.t), Abs("Val"))


def s_utf8(I, v):
    return SV(z3.Function("utf8", sort_of(Abs("Val")), sort_of(Abs("Val")))(val_term(I, v)), Abs("Val"))


def s_sha(I, v):
    return SV(sha_hex(I, val_term(I, v)), STR)


def s_isinstance_of(I, v, name):
    return SV(z3.Function("isinst_" + name, sort_of(Abs("Val")), z3.BoolSort())(v.t), BOOL)


SPEC_NS.update({"utf8": s_utf8, "sha": s_sha, "isinstance_of": s_isinstance_of})
DEFAULT_POLICIES["attrs"].update({"Val.encode": lambda I, a, k, n: p_encode_utf8(I, a[0], "encode")})


def p_lookup_all(I, args, kwargs, node):
    """storage.lookup_all(name): names of the files matching the glob (X8); only emptiness matters to outsource"""
    name = args[-1]
    I.ghost["looked_up"] = name
    r = z3.Bool(I.ctx.fresh_name("exists_already"))
    I.ghost["exists_already"] = SV(r, BOOL)
    return Obj("nameset", {"__len__": SV(z3.If(r, z3.IntVal(1), z3.IntVal(0)), INT)})


def p_save(I, args, kwargs, node):
    I.ghost["n_save"] = I.ghost["n_save"] + 1
    I.ghost["saved_name"] = args[-2]
    I.ghost["saved_data"] = args[-1]
    return None


def p_external_ctor(I, args, kwargs, node):
    """external(name): by the contract of external.__init__ (below): ValueError unless the name has the documented shape"""
    name = args[0]
    I.ghost["external_of"] = name
    if not I.ctx.choose():
        raise RaiseSig("ValueError", info=["external.__init__"])
    return Obj(EX + ".external", {"_name": name})


SHAPES.update({"OState": Shape("inline_snapshot._global_state.State", {
    "missing_values": "Int", "incorrect_values": "Int", "update_flags": "@Flags", "active": "Bool", "snapshots": "Opaque",
    "files_with_snapshots": "Opaque", "storage": "@OStorage", "flags": "Opaque"}),
    "OStorage": Shape(EX + ".DiscStorage", {"directory": "Opaque"})})

OUT_G = {"n_save": "=0", "saved_name": "=None", "saved_data": "=None", "looked_up": "=None", "exists_already": "=False", "hashed": "=None", "external_of": "=None"}

for variant, dty in (("str", "is_str"), ("bytes", "is_bytes")):
    contract(
        EX + ".outsource",
        name=f"{EX}.outsource#{variant}",
        params={"data": "Val", "suffix": "Opt[Str]"},
        globals_={"state": "@OState"},
        callees={"hashlib.sha256": p_sha256, "DiscStorage.lookup_all": p_lookup_all, "DiscStorage.save": p_save, "external": p_external_ctor},
        requires={"kind": f"isinstance_of(data, '{'str' if variant == 'str' else 'bytes'}') and not isinstance_of(data, '{'bytes' if variant == 'str' else 'str'}')"},
        ghost={"vars": OUT_G, "light_feasibility": True},
        ensures={
            # C13: "the data behind external(name) is byte-identical to what was outsourced and its SHA-256 is the stored file name"
            "hashes-the-stored-bytes [C13]": "same(hashed, " + ("utf8(old(data))" if variant == "str" else "old(data)") + ")",
            "looks-up-the-full-name [C13]": "looked_up == sha(hashed) + (old(suffix) if old(suffix) is not None else '" + (".txt" if variant == "str" else ".bin") + "')",
            "saves-new-file-only-when-absent [C13]": "(n_save == 1) == (not exists_already) and n_save <= 1",
            "new-file-name-and-content [C13]": "implies(n_save == 1, saved_name == sha(hashed) + '-new' + (old(suffix) if old(suffix) is not None else '"
                                               + (".txt" if variant == "str" else ".bin") + "') and same(saved_data, hashed))",
            "reference-names-the-hash [C13]": "external_of == looked_up",
        },
        raises={"ValueError": {"bad-suffix-or-name [C13]": "True"}},
        safety_props=["C18", "C13"],
        assumes=["X7", "X8"],
    )

# ---------------------------------------------------------------------------------------------- DiscStorage._lookup_path / persist / remove


def p_glob(I, args, kwargs, node):
    files = fresh_value(I.ctx, parse_ty("List[PathRec]"), "matching_files")
    I.ghost["matches"] = files
    I.ghost["globbed"] = args[-1]
    return files


SHAPES.update({"LStorage": Shape(EX + ".DiscStorage", {"directory": "@DirObj"}),
               "DirObj": Shape("pathlib.Path", {"glob": lambda I, pat: p_glob(I, [pat], {}, None)})})

contract(
    EX + ".DiscStorage._lookup_path",
    params={"self": "@LStorage", "name": "Str"},
    ghost={"vars": {"matches": "=None", "globbed": "=None"}},
    returns=None,
    result_name="ret",
    ensures={
        # C13: "A missing or ambiguous hash prefix raises an error instead of resolving to other data"
        "unique-match-is-returned [C13]": "len(matches) == 1 and ret == matches[0] and globbed == name",
    },
    raises={"HashError": {"missing-or-ambiguous [C13]": "len(matches) != 1"}},
    frame=[],
    safety_props=["C18", "C13"],
    assumes=["X8"],
)


def p_lookup_path(I, args, kwargs, node):
    """self._lookup_path(name) by its contract: the unique match, or HashError"""
    I.ghost["looked_up"] = args[-1]
    if not I.ctx.choose():
        I.ghost["lookup_failed"] = True
        raise RaiseSig("HashError", info=["_lookup_path"])
    f = fresh_value(I.ctx, PATH, "file")

    def with_name(I2, n):
        I2.ghost["new_name"] = n
        return Obj("PathTarget", {"name": n})

    def rename(I2, target):
        I2.ghost["n_rename"] = I2.ghost["n_rename"] + 1
        I2.ghost["renamed_to"] = target.fields["name"]
        return None

    def unlink(I2):
        I2.ghost["n_unlink"] = I2.ghost["n_unlink"] + 1
        return None

    o = Obj("PathObj", {"stem": f.fields["stem"], "suffix": f.fields["suffix"], "with_name": with_name, "rename": rename, "unlink": unlink})
    I.ghost["file"] = o
    return o


PG = {"looked_up": "=None", "lookup_failed": "=False", "n_rename": "=0", "renamed_to": "=None", "new_name": "=None", "file": "=None", "n_unlink": "=0"}

contract(
    EX + ".DiscStorage.persist",
    params={"self": "@OStorage", "name": "Str"},
    callees={"DiscStorage._lookup_path": p_lookup_path},
    ghost={"vars": PG},
    ensures={
        "looks-up-the-given-name [C13]": "looked_up == name",
        # C13: a persisted file is the -new file under the same hash and suffix, nothing else is renamed
        "nothing-renamed-when-missing-or-ambiguous [C13,C15]": "when(lookup_failed, n_rename == 0)",
        "renames-only-new-files [C13,C15]": "when(not lookup_failed, (n_rename == 1) == file.stem.endswith('-new')) and n_rename <= 1",
        "persisted-name-keeps-hash-and-suffix [C13]": "when(n_rename == 1, renamed_to == file.stem[:len(file.stem) - 4] + file.suffix)",
    },
    raises={},
    frame=[],
    safety_props=["C18", "C13"],
    assumes=["X8"],
)

contract(
    EX + ".DiscStorage.remove",
    params={"self": "@OStorage", "name": "Str"},
    callees={"DiscStorage._lookup_path": p_lookup_path},
    ghost={"vars": PG},
    ensures={"removes-the-unique-match [C13]": "looked_up == name and n_unlink == 1 and not lookup_failed"},
    raises={"HashError": {"nothing-removed-when-missing-or-ambiguous [C13]": "n_unlink == 0 and lookup_failed"}},
    frame=[],
    safety_props=["C18", "C13"],
    assumes=["X8"],
)

# ---------------------------------------------------------------------------------------------- external.__eq__ / __repr__

SHAPES.update({"Ext": Shape(EX + ".external", {"_hash": "Str", "_suffix": "Str"})})


def p_isinstance_external(I, sv, name, qual):
    return _MISSING


contract(
    EX + ".external.__eq__",
    params={"self": "@Ext", "other": "@Ext"},
    returns=None,
    result_name="ret",
    ensures={
        # C13: equal iff same suffix and one hash is a prefix of the other (a shortened hash in the source still refers to the data)
        "prefix-and-suffix-equality [C13]": "ret == (self._suffix == other._suffix and (self._hash.startswith(other._hash) or other._hash.startswith(self._hash)))",
    },
    frame=[],
    safety_props=["C18", "C13"],
)
