"""Replay file written by /verif/check.py
{
 "property": "C07",
 "failed_obligation": "_snapshot.generic_value.GenericValue._return/post:incorrect-counted",
 "path": 1,
 "function": "inline_snapshot._snapshot.generic_value.GenericValue._return",
 "verdict": "refuted",
 "backend": "z3-5.1",
 "solver_model": "FalseVal = Val!val!1\nNoneVal = Val!val!2\nTrueVal = Val!val!0\ndeepcopy_Val = [Val!val!5 -> Val!val!5, else -> Val!val!4]\nresult!4 = Val!val!3\nstate.update_flags.fix!9 = True\ntruthy_Val = [Val!val!0 -> True, else -> False]\nundefined_Val = Val!val!5",
 "where": ""
}
"""

print('no native failing input was found for this obligation; see the header for the solver output')
