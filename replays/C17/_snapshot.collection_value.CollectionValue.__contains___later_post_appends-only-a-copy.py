"""Replay file written by /verif/check.py
{
 "property": "C17",
 "failed_obligation": "_snapshot.collection_value.CollectionValue.__contains__#later/post:appends-only-a-copy",
 "path": 4,
 "function": "inline_snapshot._snapshot.collection_value.CollectionValue.__contains__#later",
 "verdict": "refuted",
 "backend": "z3-5.1",
 "solver_model": "FalseVal = Val!val!1\nNoneVal = Val!val!2\nTrueVal = Val!val!0\n_snapshot.generic_value.GenericValue._return_result!18 = Val!val!0\narray-ext = [else -> 0]\ncontains_Val = [else -> Val!val!6]\ndeepcopy_Val = [else ->\n If(And(Var(0) == Val!val!4,\n        Not(Var(0) == Val!val!2),\n        Not(Var(0) == Val!val!8),\n        Not(Var(0) == Val!val!6),\n        Not(Var(0) == Val!val!7)),\n    Val!val!4,\n    Val!val!7)]\neq_Val = [else -> Val!val!7]\nitem!4 = Val!val!3\nself._new_value!2 = mk_List_Val(Store(K(Int, Val!val!9), 0, Val!val!8), 0)\nself._old_value!1 = Val!val!5\nstate.incorrect_values!17 = 0\nstate.incorrect_values!6 = 0\nstate.update_flags.create!7 = False\nstate.update_flags.fix!8 = True\nstate.update_flags.trim!9 = True\nstate.update_flags.update!10 = False\ntruthy_Val = [Val!val!0 -> True, Val!val!6 -> True, else -> False]\nundefined_Val = Val!val!4",
 "where": ""
}
"""

print('no native failing input was found for this obligation; see the header for the solver output')
