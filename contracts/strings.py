"""Layer S: string literal generation (_utils._str_literal_helper / triple_quote / value_to_token)."""
import ast

from pyvc.contract import static_check
from pyvc import extract

UT = "inline_snapshot._utils"


def _extract_escape_char():
    """The inner function `escape_char` of _str_literal_helper, extracted mechanically from the current source and
    compiled stand-alone with its single free variable `extra` turned into a parameter (nothing else is changed)."""
    m, fn, _, outer = extract.find_function(UT + "._str_literal_helper.escape_char")
    src = ast.get_source_segment(m.source, fn)
    node = ast.parse(__import__("textwrap").dedent(src)).body[0]
    free = {n.id for n in ast.walk(node) if isinstance(n, ast.Name) and isinstance(n.ctx, ast.Load)} - {a.arg for a in node.args.args} - set(dir(__builtins__))
    free = sorted(x for x in free if x not in dir(__import__("builtins")))
    assert free == ["extra"], f"escape_char has unexpected free variables {free}"
    node.args.args.append(ast.arg(arg="extra"))
    ast.fix_missing_locations(node)
    ns = {}
    exec(compile(ast.Module(body=[node], type_ignores=[]), "<extracted escape_char>", "exec"), ns)
    return ns["escape_char"], extract.source_hash(m, fn)


@static_check("escape_char-per-code-point", props=["C12"])
def _escape_char_exhaustive():
    """Per-character lemma of C12, complete over the whole domain: for every code point c (surrogates excluded: they
    cannot be written to a UTF-8 file) and every value of the closure variable `extra` in {'', "'", '"'}:
        literal_eval(q + escape_char(c, extra) + q) == c        for a quote q that the escaped text does not need escaped
    (bulk evaluation: one literal per block of code points, quote characters and line breaks individually)."""
    esc, h = _extract_escape_char()
    rows = []
    specials = {"'", '"', "\n", "\r", "\\"}
    for extra in ("", "'", '"'):
        bad = []
        n = 0
        block = []

        def flush():
            nonlocal block
            if not block:
                return
            text = "".join(block)
            lit = '"""' + "".join(esc(c, extra) for c in block) + '"""'
            try:
                ok = ast.literal_eval(lit) == text
            except Exception:
                ok = False
            if not ok:
                for c in block:
                    try:
                        if ast.literal_eval('"""' + esc(c, extra) + '"""') != c:
                            bad.append(c)
                    except Exception:
                        bad.append(c)
            block = []

        for cp in range(0x110000):
            if 0xD800 <= cp <= 0xDFFF:
                continue
            c = chr(cp)
            n += 1
            if c in specials:
                e = esc(c, extra)
                for q in ('"""', "'''"):
                    # the helper only offers quote types that do not occur in the escaped string; a single quote char is
                    # written raw unless it is `extra`, so test it inside the *other* triple quote
                    if c in q and e == c:
                        continue
                    lit = q + e + (" " if e.endswith(q[0]) else "") + q
                    try:
                        v = ast.literal_eval(lit)
                        if v.rstrip(" ") != c and v != c:
                            bad.append(c)
                    except Exception:
                        bad.append(c)
                continue
            block.append(c)
            if len(block) >= 4096:
                flush()
        flush()
        rows.append(dict(id=f"static/escape_char:extra={extra!r}", ok=not bad,
                         detail=f"{n} code points evaluated on the extracted function (source sha {h}); failing: {[hex(ord(c)) for c in bad[:8]]}"))
    return rows


# ---------------------------------------------------------------------------------------------- frame condition: no state between calls

STATELESS = [
    UT + ".normalize_strings", UT + ".skip_trailing_comma", UT + ".normalize", UT + "._str_literal_helper", UT + ".triple_quote",
    UT + ".value_to_token", UT + ".simple_token.__eq__",
]


def _module_state_used(qual):
    """Frame condition `assigns \\nothing, reads no mutable module state`, decided syntactically on the current source:
    the function (nested functions included) has no decorator, no `global` / `nonlocal` reaching module level, and every free name
    is a builtin, an import, a module-level def / class, or a module-level name assigned exactly once to an immutable expression
    (constants, attributes, tuples of those).  Returns the list of offending reasons (empty = the frame condition holds)."""
    import builtins

    m, fn, ci, outer = extract.find_function(qual)
    reasons = []
    if fn.decorator_list:
        reasons.append("decorated with " + ", ".join(ast.unparse(d) for d in fn.decorator_list))
    assigned = {}
    for st in m.tree.body:
        targets = []
        if isinstance(st, ast.Assign):
            targets = [(t, st.value) for t in st.targets]
        elif isinstance(st, (ast.AnnAssign, ast.AugAssign)):
            targets = [(st.target, st.value)]
        for t, v in targets:
            for n in ast.walk(t):
                if isinstance(n, ast.Name):
                    assigned.setdefault(n.id, []).append(v)

    def immutable(e):
        if e is None:
            return False
        if isinstance(e, ast.Constant):
            return True
        if isinstance(e, ast.Tuple):
            return all(immutable(x) for x in e.elts)
        if isinstance(e, ast.Attribute):
            return isinstance(e.value, ast.Name) and e.value.id in m.imports  # token.NEWLINE ...
        if isinstance(e, ast.UnaryOp):
            return immutable(e.operand)
        return False

    local = set()
    for n in ast.walk(fn):
        if isinstance(n, (ast.Global, ast.Nonlocal)) and (isinstance(n, ast.Global) or outer is None):
            reasons.append(f"`{ast.unparse(n)}`")
        if isinstance(n, ast.arg):
            local.add(n.arg)
        if isinstance(n, ast.Name) and isinstance(n.ctx, (ast.Store, ast.Del)):
            local.add(n.id)
        if isinstance(n, (ast.FunctionDef, ast.ClassDef)) :
            local.add(n.name)
            if n is not fn and getattr(n, "decorator_list", None):
                reasons.append(f"inner `{n.name}` is decorated")
        if isinstance(n, ast.ExceptHandler) and n.name:
            local.add(n.name)
    if outer is not None:
        for n in ast.walk(outer):
            if isinstance(n, ast.arg):
                local.add(n.arg)
            if isinstance(n, ast.Name) and isinstance(n.ctx, ast.Store):
                local.add(n.id)
    for n in ast.walk(fn):
        if isinstance(n, ast.Name) and isinstance(n.ctx, ast.Load) and n.id not in local:
            nm = n.id
            if hasattr(builtins, nm) or nm in m.imports or nm in m.funcs or nm in m.classes:
                continue
            vals = assigned.get(nm)
            if vals is None:
                reasons.append(f"free name `{nm}` is not defined at module level")
            elif len(vals) != 1 or not immutable(vals[0]):
                reasons.append(f"reads module-level `{nm}` (assigned {len(vals)}x, `{ast.unparse(vals[0])[:40]}`): mutable state shared between calls")
    return sorted(set(reasons)), extract.source_hash(m, fn)


@static_check("token-functions-keep-no-state", props=["C08", "C16", "C12", "C01"])
def _stateless_table():
    """C16: "The text written for a value depends only on the value and the surrounding file"; C08: generate -> tokenize -> compare is
    a fixed point.  Both need the token functions to be functions of their argument: no memo table, no module-level mutable state,
    no decorator that could add one (a cache keyed by `==` conflates -0.0 / 0.0, Decimal("1.0") / Decimal("1.00"), True / 1)."""
    rows = []
    for q in STATELESS:
        try:
            reasons, h = _module_state_used(q)
        except LookupError:
            rows.append(dict(id=f"static/stateless:{q.split('inline_snapshot.', 1)[-1]}", ok=False, detail="function not found"))
            continue
        rows.append(dict(id=f"static/stateless:{q.split('inline_snapshot.', 1)[-1]}", ok=not reasons,
                         detail=(f"source sha {h}: no decorator, no global statement, every free name is a builtin / import / def / immutable constant"
                                 if not reasons else "; ".join(reasons))))
    return rows
