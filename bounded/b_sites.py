"""B-sites (C14): every textual snapshot() call site has its own state; repeated evaluation aggregates.

Programs with call sites in unusual placements (same line, same-named code objects on one line, helper functions,
closures created in a loop, comprehensions, module level) are run through the real in-process driver with `create`;
each site must receive exactly the value(s) observed at that site.  Bound: the fixed list of programs below."""
from __future__ import annotations

import json
import subprocess
import sys
import tempfile
import textwrap

from bounded import standin

PROGRAMS = {
    "two-on-one-line": '''
        from inline_snapshot import snapshot
        def test_a():
            assert 1 == snapshot(); assert 2 == snapshot()
    ''',
    "two-lambdas-on-one-line": '''
        from inline_snapshot import snapshot
        checks = {"small": lambda v: v == snapshot(), "big": lambda v: v == snapshot()}
        def test_a():
            assert checks["small"](1)
            assert checks["big"](1000)
    ''',
    "same-named-functions": '''
        from inline_snapshot import snapshot
        def make(n):
            if n == 0:
                def check(v): return v == snapshot()
            else:
                def check(v): return v == snapshot()
            return check
        def test_a():
            assert make(0)("zero")
            assert make(1)("one")
    ''',
    "helper-called-from-two-sites": '''
        from inline_snapshot import snapshot
        def check(v, s):
            assert v == s
        def test_a():
            check(1, snapshot())
            check(2, snapshot())
    ''',
    "loop-aggregates-bound": '''
        from inline_snapshot import snapshot
        def test_a():
            for i in [3, 9, 4]:
                assert i <= snapshot()
            for i in [3, 9, 4]:
                assert i >= snapshot()
    ''',
    "loop-aggregates-members-and-keys": '''
        from inline_snapshot import snapshot
        def test_a():
            for i in [3, 9, 3]:
                assert i in snapshot()
            s = snapshot()
            for k in ["x", "y"]:
                assert s[k] == k.upper()
    ''',
    "module-level-shared": '''
        from inline_snapshot import snapshot
        limit = snapshot()
        other = snapshot()
        def test_a():
            assert 5 <= limit
        def test_b():
            assert 7 <= limit
            assert "o" == other
    ''',
    "comprehension-and-nested-call": '''
        from inline_snapshot import snapshot
        def f(x): return x
        def test_a():
            assert [f(f(snapshot())) == 1, f(snapshot()) == 2] == [True, True]
    ''',
    "two-files": None,
}

EXPECT = {
    "two-on-one-line": ["snapshot(1)", "snapshot(2)"],
    "two-lambdas-on-one-line": ["snapshot(1)", "snapshot(1000)"],
    "same-named-functions": ['snapshot("zero")', 'snapshot("one")'],
    "helper-called-from-two-sites": ["snapshot(1)", "snapshot(2)"],
    "loop-aggregates-bound": ["snapshot(9)", "snapshot(3)"],
    "loop-aggregates-members-and-keys": ["snapshot([3, 9])", 'snapshot({"x": "X", "y": "Y"})'],
    "module-level-shared": ["snapshot(7)", 'snapshot("o")'],
    "comprehension-and-nested-call": ["snapshot(1)", "snapshot(2)"],
}

DRIVER = r'''
import json, sys
from inline_snapshot.testing import Example
files = json.loads(sys.argv[1])
try:
    e = Example(files).run_inline(["--inline-snapshot=create"])
    print("RESULT" + json.dumps(e.files))
except BaseException as ex:
    print("RESULT" + json.dumps({"__error__": f"{type(ex).__name__}: {ex}"}))
'''


def run_case(files):
    p = subprocess.run([sys.executable, "-c", DRIVER, json.dumps(files)], capture_output=True, text=True, timeout=600, cwd=tempfile.gettempdir())
    for line in p.stdout.splitlines():
        if line.startswith("RESULT"):
            return json.loads(line[6:])
    return {"__error__": "driver produced no result: " + p.stderr[-400:]}


REPLAY = '''import json, sys
from inline_snapshot.testing import Example
files = {files!r}
e = Example(files).run_inline(["--inline-snapshot=create"])
for want in {want!r}:
    assert any(want in src for src in e.files.values()), ("missing " + want, e.files)
'''


@standin("B-sites", props=["C14"], bound="9 fixed programs with call sites in unusual placements, create through Example.run_inline")
def run(tier, seed):
    fails, n = [], 0
    cases = []
    for name, src in PROGRAMS.items():
        if src is None:
            files = {"test_one.py": "from inline_snapshot import snapshot\ndef test_a():\n    assert 1 == snapshot()\n",
                     "test_two.py": "from inline_snapshot import snapshot\ndef test_a():\n    assert 2 == snapshot()\n"}
            want = ["snapshot(1)", "snapshot(2)"]
        else:
            files = {"test_something.py": textwrap.dedent(src)}
            want = EXPECT[name]
        cases.append((name, files, want))
    for name, files, want in cases:
        n += 1
        out = run_case(files)
        if "__error__" in out:
            fails.append(dict(finding=None, input=name, detail=out["__error__"], replay_code=REPLAY.format(files=files, want=want)))
            continue
        text = "\n".join(out.values())
        missing = [w for w in want if w not in text]
        if missing:
            fails.append(dict(finding=None, input=name, detail=f"sites did not receive their own values: missing {missing}\n{text}",
                              replay_code=REPLAY.format(files=files, want=want)))
    return dict(evaluated=n, distinct=n, failures=fails, samples=[c[0] for c in cases[:4]], cross_checks=["X11 executing finds the call node for every placement"])
