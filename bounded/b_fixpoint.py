"""B-fixpoint: real pytest sessions; second runs and approval orders.

C08  a second run is a no-op
C09  the order in which categories are approved does not matter

Bounded stand-in only.
"""
from __future__ import annotations

import itertools
import random
import re
import time
import traceback
from concurrent.futures import ThreadPoolExecutor

from bounded import standin

from ._sessions import (
    CATS,
    PYPROJECT_PLAIN,
    Deadline,
    Failures,
    Project,
    Skipped,
    diff_trees,
    replay_script,
    result_for,
    same_ast,
    set_deadline,
    step_src,
    tail,
)
from .b_sess import ALL_SUBSETS, Hist, make_template

ALLF = ",".join(CATS)
HEADERS = ("Create snapshots", "Fix snapshots", "Trim snapshots", "Update snapshots")


def pending_headers(out):
    return [h for h in HEADERS if h in out]


# ---------------------------------------------------------------------------- value zoo (C08)

ZOO_FIXED = [
    "5", "-3", "0", "1.5", "-0.0", "1e100", "10**20", "True", "None",
    '"text"', "\"it's\"", "'say \"hi\"'", '"line\\nbreak"', '"tab\\there"', '"trailing\\n"', '"a\\nb\\nc\\n"', '"x" * 100', '""',
    '"\\\\"', "'äö€'",
    'b"bytes"', 'b"\\x00\\xff"', "b''",
    "(1, 2)", "(1,)", "()", "[]", "{}", "[1, [2, 3]]", "[[]]", '{"a": [1, 2], "b": {"c": None}}', "{1: 'x', (1, 2): 'y'}",
    "{1, 2}", "{'b', 'a', 'c'}", "frozenset({1})", "set()", "[(1, 'a'), (2, 'b')]", "{'k': (1,)}",
    "[1.5, -2, 'x', None, True]", "{'a': {'b': {'c': {'d': [1, 2, {'e': ()}]}}}}",
    "list(range(40))", "{str(i): i for i in range(12)}", "['word %d' % i for i in range(15)]",
    # leaves that are equal but are written differently (a value-keyed memo of generated tokens would conflate them)
    "[0.0, -0.0]", "[-0.0, 0.0, 0]", "[1, True, 1.0]", "{'a': 1.0, 'b': 1, 'c': True}", "[(0.0,), (-0.0,)]",
]

ZOO_HASH = [
    "{'b', 'a', 'c', 'd', 'e'}", "frozenset({'x', 'y', 'z'})", "{frozenset({'a'}), frozenset({'b'}), frozenset({'c'})}",
    "{frozenset({'a', 'b'}), frozenset({'c'}), frozenset()}", "({'p', 'q', 'r'},)", "[{'p', 'q', 'r'}, ({'s', 't', 'u'},)]",
    "{'k': {'v1', 'v2', 'v3'}}", "{('a', 'b'), ('c',), ('d', 'e')}", "(frozenset({'m', 'n', 'o'}),)", "{'only'}",
]


def rand_value(rng, depth=0):
    k = rng.randrange(11 if depth < 3 else 6)
    if k == 0:
        return str(rng.randrange(-100, 100000))
    if k == 1:
        return repr(rng.choice([0.5, -1.25, 3.0, 1e-7, 2.5e20]))
    if k == 2:
        alphabet = ["a", "b", " ", "'", '"', "\\n", "\\t", "ä", "x", "{", "}", "#", "\\\\"]
        body = "".join(rng.choice(alphabet) for _ in range(rng.randrange(0, 12)))
        if depth == 0:
            body = body.strip(" ")  # a lone top-level string with outer blanks is the known defect F1 (dedicated case below)
        body = body.replace('"', '\\"')
        return f'"{body}"'
    if k == 3:
        return rng.choice(["None", "True", "False"])
    if k == 4:
        return repr(bytes(rng.randrange(256) for _ in range(rng.randrange(0, 6))))
    if k == 5:
        return str(rng.randrange(10)) + " + " + str(rng.randrange(10))
    n = rng.randrange(0, 4)
    items = [rand_value(rng, depth + 1) for _ in range(n)]
    if k == 6:
        return "[" + ", ".join(items) + "]"
    if k == 7:
        return "(" + ", ".join(items) + ("," if n == 1 else "") + ")"
    if k == 8:
        keys = rng.sample(["'a'", "'b'", "1", "2", "(1, 2)", "'key c'", "None"], n)
        return "{" + ", ".join(f"{a}: {b}" for a, b in zip(keys, items)) + "}"
    if k == 9:
        return "{" + ", ".join(str(rng.randrange(50)) for _ in range(n + 1)) + "}"
    return "[" + ", ".join(items) + "] * 2"


def zoo_project(values, tag):
    src = ["from inline_snapshot import snapshot", ""]
    for i, v in enumerate(values):
        src += ["", f"def test_v{i}():", f"    assert {v} == snapshot()", ""]
    # other operations on created values
    src += ["", "def test_ops():", "    assert 5 <= snapshot()", "    assert 5 >= snapshot()", "    assert 5 in snapshot()",
            "    s = snapshot()", "    assert 'v' == s['k']", "    assert [1] == s['l']", ""]
    return {f"test_zoo_{tag}.py": "\n".join(src), "pyproject.toml": PYPROJECT_PLAIN}


F7_PROJECT = {
    "test_cplx.py": "from inline_snapshot import snapshot\n\n\ndef test_c():\n    assert 2 + 1j == snapshot()\n",
    "pyproject.toml": PYPROJECT_PLAIN,
}


def strip_parens(b):
    return re.sub(rb"[()]", b"", b)


def f7_predicate(before, after):
    """F7: the rerun rewrote only test files, the files are AST-identical and text-identical up to added '(' / ')' characters,
    every changed line holds a complex literal (repr with outer parentheses) inside snapshot(...), and parentheses were only added."""
    changed = [k for k in set(before) | set(after) if before.get(k) != after.get(k)]
    if not changed:
        return False
    for k in changed:
        if k not in before or k not in after or not k.endswith(".py"):
            return False
        a, b = before[k], after[k]
        if not same_ast(a, b) or strip_parens(a) != strip_parens(b):
            return False
        la, lb = a.splitlines(), b.splitlines()
        if len(la) != len(lb):
            return False
        for x, y in zip(la, lb):
            if x != y:
                if not (b"snapshot(" in y and re.search(rb"\dj\)", y) and y.count(b"(") > x.count(b"(")):
                    return False
    return True


def f1_predicate(values, r):
    """F1: the rerun changed no file, and every test that is not green is a `assert <str value> == snapshot(<literal>)` whose value has
    leading/trailing blanks while the literal written by the earlier approved run equals the value with those blanks stripped
    (black formats the lone string fragment like a docstring)."""
    if values is None or r.before != r.after or not r.outcomes:
        return False
    bad = [t for t, o in r.outcomes.items() if o != {"passed"}]
    if not bad:
        return False
    import ast as _ast

    for t in bad:
        mod, name = t.split("::")
        m = re.fullmatch(r"test_v(\d+)", name)
        if not m or int(m.group(1)) >= len(values):
            return False
        try:
            v = eval(values[int(m.group(1))], {})
            tree = _ast.parse(r.after[mod + ".py"].decode())
            fn = next(n for n in tree.body if isinstance(n, _ast.FunctionDef) and n.name == name)
            call = next(n for n in _ast.walk(fn) if isinstance(n, _ast.Call) and getattr(n.func, "id", None) == "snapshot")
            lit = _ast.literal_eval(call.args[0])
        except Exception:
            return False
        if not (isinstance(v, str) and isinstance(lit, str) and lit != v and v != v.strip() and lit.strip() == v.strip()):
            return False
    return True


def rerun_job(files, flags, desc, fails, runs=2, require_green=True, stdin=b"", values=None, hashseeds=None):
    """first session with `flags`, then `runs` identical sessions; each rerun must be a no-op. returns #sessions
    hashseeds: PYTHONHASHSEED of session 0, 1, 2, ... (every pytest call is a new process with another string hash seed; pinning
    different seeds makes that deterministic instead of leaving it to chance)"""
    h = Hist(files)
    try:
        args = [f"--inline-snapshot={flags}"]
        env = (lambda k: {"PYTHONHASHSEED": str(hashseeds[k % len(hashseeds)])}) if hashseeds else (lambda k: None)
        r0 = h.run(args, env=env(0), stdin=stdin)
        for i in range(runs):
            r = h.run(args, env=env(i + 1), stdin=stdin)
            diffs = diff_trees(r.before, r.after)
            problems = []
            if diffs:
                problems.append(f"rerun #{i + 1} with the same flags modified files: {diffs}")
                for k in diffs:
                    name = k[2:].split(" ")[0]
                    if name in r.before and name in r.after and name.endswith(".py"):
                        import difflib

                        problems.append("".join(difflib.unified_diff(r.before[name].decode().splitlines(True),
                                                                     r.after[name].decode().splitlines(True), "before", "after", n=0)))
            if require_green:
                if r.rc != 0:
                    problems.append(f"rerun #{i + 1}: exit status {r.rc} (all categories were approved in the run before)")
                hd = pending_headers(r.out)
                if hd:
                    problems.append(f"rerun #{i + 1}: report still shows {hd}")
            if problems:
                finding = None
                if diffs and f7_predicate(r.before, r.after) and (r.rc == 0 or not require_green) and \
                        all(p.startswith(("rerun #%d with" % (i + 1), "---")) or "Update snapshots" in p for p in problems):
                    finding = "F7"
                elif not diffs and require_green and r.rc != 0 and not pending_headers(r.out) and f1_predicate(values, r):
                    finding = "F1"
                check = ["assert r['after'] == r['before'], sorted(k for k in set(r['after']) | set(r['before']) if r['after'].get(k) != r['before'].get(k))"]
                if require_green:
                    check += ["assert r['rc'] == 0, r['rc']",
                              f"assert not [h for h in {HEADERS!r} if h in r['out']], 'pending changes reported'"]
                fails.add(finding, dict(desc, flags=flags, rerun=i + 1), "C08: " + "\n".join(problems) + "\n--- output (tail)\n" + tail(r.out, 15),
                          h.replay("\n".join(check)))
                break
        return h.sessions
    except Skipped:
        return max(h.sessions - 1, 0)
    except BaseException:
        fails.add(None, dict(desc, flags=flags), "C08 harness exception:\n" + traceback.format_exc(), "")
        return h.sessions
    finally:
        h.close()


# ---------------------------------------------------------------------------- C09

F13_PROJECTS = {
    "dict[key] create+trim, trailing comma": (
        "from inline_snapshot import snapshot\n\n\ndef test_a():\n    s = snapshot({\"a\": 1, \"b\": 2,})\n    assert 1 == s[\"a\"]\n    assert 3 == s[\"c\"]\n",
        ("create", "trim")),
    "in-list fix+trim, trailing comma": (
        "from inline_snapshot import snapshot\n\n\ndef test_a():\n    for x in (5, 6):\n        assert x in snapshot([5, 7,])\n",
        ("fix", "trim")),
}
F13_MORE = {
    "dict[key] create+trim, comment before brace": (
        "from inline_snapshot import snapshot\n\n\ndef test_a():\n    s = snapshot({\"a\": 1, \"b\": 2  # c\n    })\n    assert 1 == s[\"a\"]\n    assert 3 == s[\"c\"]\n",
        ("create", "trim")),
    "dict[key] create+trim, no trailing comma (control)": (
        "from inline_snapshot import snapshot\n\n\ndef test_a():\n    s = snapshot({\"a\": 1, \"b\": 2})\n    assert 1 == s[\"a\"]\n    assert 3 == s[\"c\"]\n",
        ("create", "trim")),
    "in-list fix+trim, no trailing comma (control)": (
        "from inline_snapshot import snapshot\n\n\ndef test_a():\n    for x in (5, 6):\n        assert x in snapshot([5, 7])\n",
        ("fix", "trim")),
}

_DC = ("from inline_snapshot import snapshot\nfrom dataclasses import dataclass\n\n\n@dataclass\nclass A:\n    x: int = 0\n    b: int = 0\n"
       "    c: int = 0\n    d: int = 0\n\n\n")
_RH = ("from inline_snapshot import snapshot, outsource\n\n\nclass R:\n    def __init__(self, v):\n        self.v = v\n\n    def __repr__(self):\n"
       "        return '<R>'\n\n    def __eq__(self, o):\n        return isinstance(o, R) and o.v == self.v\n\n\n")
# changes of different categories inside one container / one module: their positions and the generated imports must not depend
# on which category was applied first
ORDER_PROJECTS = {
    "call: default-valued keyword (update) in front of a kept one, new keyword (fix)": (
        _DC + "def test_a():\n    assert A(x=1, c=3, d=4) == snapshot(A(x=1, b=0, c=3))\n", ("fix", "update")),
    "dict: respelled value (update), deleted and inserted keys (fix)": (
        "from inline_snapshot import snapshot\n\n\ndef test_a():\n    assert {\"a\": 1, \"c\": 3} == snapshot({\"a\": 0+1, \"b\": 2})\n", ("fix", "update")),
    "list: respelled element (update), deleted and inserted elements (fix)": (
        "from inline_snapshot import snapshot\n\n\ndef test_a():\n    assert [1, 3, 4] == snapshot([0+1, 2, 3])\n", ("fix", "update")),
}
ORDER_MORE = {
    "call: default-valued first keyword (update), changed and new keywords (fix)": (
        _DC + "def test_a():\n    assert A(x=2, d=4) == snapshot(A(b=0, x=1))\n", ("fix", "update")),
    "call: two default-valued keywords around a kept one, two new keywords": (
        _DC + "def test_a():\n    assert A(x=1, c=5, d=4) == snapshot(A(b=0, x=1, d=0))\n", ("fix", "update")),
    "imports: HasRepr (create) and external (fix) generated in one module": (
        _RH + "def test_a():\n    assert R(1) == snapshot()\n\n\ndef test_b():\n    assert outsource('text') == snapshot('x')\n", ("create", "fix")),
    "in-list: respelled member (update), new member (fix), unused member (trim)": (
        "from inline_snapshot import snapshot\n\n\ndef test_a():\n    for x in (1, 4):\n        assert x in snapshot([0+1, 2])\n", ("fix", "trim", "update")),
}

# F31 (known finding): a comparison that fails (fix pending) in front of other snapshot uses of the same test.  A run that approves
# only trim (or update) does not make that comparison succeed, the test stops there, and the snapshots behind it are not (or only
# partly) evaluated: their trim is not seen, or sub-snapshot keys the stopped test never reached are trimmed away.
_H = "from inline_snapshot import snapshot\n\n\n"
ABORT_PROJECTS = {
    "abort: failing == in front of a `<=` snapshot with slack": (
        _H + "def test_a():\n    assert 5 == snapshot(4)\n    assert 3 <= snapshot(9)\n", ("fix", "trim")),
}
ABORT_MORE = {
    "abort: failing sub-snapshot in front of other keys of the same dict": (
        _H + "def test_a():\n    s = snapshot({\"b\": 2, \"a\": 1})\n    assert 5 == s[\"b\"]\n    assert 1 == s[\"a\"]\n    assert 3 == s[\"c\"]\n",
        ("create", "fix", "trim")),
    "abort: failing == in front of an `in` snapshot with an unused member": (
        _H + "def test_a():\n    s = snapshot([1, 2])\n    assert 5 == snapshot(4)\n    assert 1 in s\n", ("fix", "trim")),
}


def f31_predicate(key, bad_orders):
    """every order that ends differently approves trim (or update) while the failing comparison in front is not yet fixed"""
    if not str(key).startswith("abort:") or not bad_orders:
        return False
    return all("fix" in o and any(c in o and o.index(c) < o.index("fix") for c in ("trim", "update")) for o in bad_orders)


def trailing_text_layout(src):
    """does some snapshot(...) argument have text (trailing comma / comment) between its last element and the closing bracket?"""
    return bool(re.search(r"snapshot\(\s*[\[{][^\]}]*(,|#[^\n]*\n)\s*[\]}]\s*\)", src))


def crashed(r):
    """the session died in a hook: pytest prints INTERNALERROR> lines, or (pytest 9, sessionfinish) a raw traceback on stderr"""
    return "INTERNALERROR" in r.out + r.err or ("Traceback (most recent call last)" in r.err and "pytest_sessionfinish" in r.err)


def f13_predicate(files, cats, r):
    """F13: >= 2 categories approved in ONE run, a container snapshot with text between last element and closing bracket,
    and the combined session dies (INTERNALERROR / traceback out of pytest_sessionfinish) from the overlap assertion in ChangeRecorder/_check, leaving files unchanged."""
    out = r.out + r.err
    layout = any(trailing_text_layout(v if isinstance(v, str) else v.decode()) for k, v in files.items() if k.endswith(".py"))
    return (len(cats) >= 2 and layout and crashed(r) and "pytest_sessionfinish" in out and "AssertionError" in out
            and "in _check" in out and "Replacement(" in out and r.before == r.after)


def order_job_factory(ex, files, cats, futs, key):
    """memoised ordered-prefix sessions: state after approving cats[0], cats[1], ... one per session"""

    def job(prefix):
        parent = files if len(prefix) == 1 else futs[(key, prefix[:-1])].result()[0]
        with Project(parent) as p:
            r = p.run([f"--inline-snapshot={prefix[-1]}"])
        return dict(r.after), r

    for n in range(1, len(cats) + 1):
        for prefix in itertools.permutations(cats, n):
            if (key, prefix) not in futs:
                futs[(key, prefix)] = ex.submit(job, prefix)


def replay_c09(files, order, cats):
    body = [
        f"FILES = {dict(files)!r}",
        "write(PROJ, FILES)",
        f"for c in {list(order)!r}:",
        "    r = session(PROJ, ['--inline-snapshot=' + c])",
        "one_by_one = tree(PROJ)",
        "P2 = os.path.join(ROOT, 'p2'); os.mkdir(P2); write(P2, FILES)",
        f"r = session(P2, ['--inline-snapshot={','.join(cats)}'])",
        "print(r['out'][-3000:])",
        "together = tree(P2)",
        "assert 'INTERNALERROR' not in r['out'] + r['err'] and 'Traceback' not in r['err'], 'combined run crashed'",
        "for k in together:",
        "    if k.endswith('.py'): assert dump(one_by_one[k]) == dump(together[k]), (k, one_by_one[k].decode(), together[k].decode())",
    ]
    return replay_script("\n".join(body))


# ---------------------------------------------------------------------------- driver


@standin("B-fixpoint", props=["C08", "C09"],
         bound="real pytest sessions: rerun after all four categories / after the same subset (template project + fixed zoo of ~45 "
               "builtin values; thorough adds 3 x 30 random nested values and all 15 subsets); approval orders: quick 2 category "
               "triples x 6 orders, thorough all 24 orders of 4 (+ all sub-orders) on 3 templates, plus trailing-comma layouts")
def run(tier, seed):
    return _run(tier, seed)


def run_for(pid, tier, seed):
    """only the parts that serve property `pid`, and only the failures attributed to it"""
    return result_for(pid, _run(tier, seed, only=pid))


run.run_for = run_for


def _run(tier, seed, only=None):
    t0 = time.time()
    rng = random.Random(seed)
    fails = Failures()
    samples, cross = [], []
    evaluated = 0
    distinct = 0
    deadline = set_deadline(Deadline(tier))
    try:
        quick = tier == "quick"
        templates = {f"T{i}": make_template(random.Random(seed * 1000 + i)) for i in range(1 if quick else 3)}
        with ThreadPoolExecutor(max_workers=8) as ex:
            # ---------------- C09: ordered prefixes (submitted first, prefix before extension => no deadlock)
            futs = {}
            plans = []  # (key, files, cats)
            for tid, tpl in templates.items():
                if quick:
                    triples = rng.sample([F for F in ALL_SUBSETS if len(F) == 3], 2)
                    for F in triples:
                        plans.append((tid, tpl, F))
                else:
                    plans.append((tid, tpl, CATS))
            f13_set = dict(F13_PROJECTS) if quick else dict(F13_PROJECTS, **F13_MORE)
            f13_set.update(ORDER_PROJECTS if quick else dict(ORDER_PROJECTS, **ORDER_MORE))
            f13_set.update(ABORT_PROJECTS if quick else dict(ABORT_PROJECTS, **ABORT_MORE))
            for name, (src, cats) in f13_set.items():
                plans.append((name, {"test_a.py": src, "pyproject.toml": PYPROJECT_PLAIN}, cats))
            if only == "C08":
                plans = []
            for key, files, cats in plans:
                order_job_factory(ex, files, cats, futs, key)
            combined = {}
            for key, files, cats in plans:
                subsets = [cats] if (quick or len(cats) < 4) else [F for F in ALL_SUBSETS if len(F) >= 2]
                for F in subsets:
                    if (key, F) not in combined:
                        def comb(files=files, F=F):
                            with Project(files) as p:
                                return p.run([f"--inline-snapshot={','.join(F)}"])
                        combined[(key, F)] = (files, ex.submit(comb))
            # ---------------- C08 jobs
            c08 = []
            want_c08 = only in (None, "C08")
            for tid, tpl in (templates.items() if want_c08 else ()):
                c08.append(ex.submit(rerun_job, tpl, ALLF, dict(project=f"template {tid}"), fails))
                subsets = rng.sample([F for F in ALL_SUBSETS if 0 < len(F) < 4], 3) if quick else [F for F in ALL_SUBSETS if 0 < len(F) < 4]
                for F in subsets:
                    c08.append(ex.submit(rerun_job, tpl, ",".join(F), dict(project=f"template {tid}"), fails, 1, False))
                if not quick:
                    c08.append(ex.submit(rerun_job, tpl, "review", dict(project=f"template {tid}", answers="all y"), fails, 1, True,
                                         b"y\n" * 4))
                    c08.append(ex.submit(rerun_job, tpl, ALLF + ",report", dict(project=f"template {tid}"), fails, 1, True))
            zoo = [("fixed", ZOO_FIXED)] if want_c08 else []
            if not quick and want_c08:
                for i in range(3):
                    r2 = random.Random(seed * 77 + i)
                    zoo.append((f"rand{i}", [rand_value(r2) for _ in range(30)]))
            if not quick and want_c08:
                zoo.append(("blanks", ['" a "', '"x "', '[" kept "]']))  # lone strings with outer blanks: known defect F1
            for tag, values in zoo:
                c08.append(ex.submit(rerun_job, zoo_project(values, tag), ALLF, dict(project=f"zoo {tag}", values=len(values)), fails,
                                     2, True, b"", values))
                samples.append(f"C08 zoo {tag}: {values[:6]} ...")
            if want_c08:
                # values whose text could depend on the string hash seed (sets / frozensets of strings, also partially ordered
                # elements and sets nested in containers that are rendered as a whole), re-run under pinned, different seeds
                c08.append(ex.submit(rerun_job, zoo_project(ZOO_HASH, "hash"), ALLF, dict(project="zoo hash-seed sensitive values", values=len(ZOO_HASH)),
                                     fails, 3, True, b"", ZOO_HASH, [1, 2, 3, 4]))
            if want_c08:
                c08.append(ex.submit(rerun_job, F7_PROJECT, ALLF, dict(project="complex value (repr with outer parentheses)"), fails))
            if not quick and want_c08:
                c08.append(ex.submit(rerun_job, F7_PROJECT, "create,update", dict(project="complex value"), fails, 2, True))
            distinct += len(c08)

            # ---------------- gather C09
            results = {}
            for k, f in futs.items():
                evaluated += 1
                try:
                    results[k] = f.result()
                except Skipped:
                    evaluated -= 1
                except BaseException:
                    fails.add(None, dict(project=k[0], order=list(k[1])), "C09 harness exception:\n" + traceback.format_exc(), "")
            for (key, F), (files, f) in combined.items():
                evaluated += 1
                distinct += 1
                try:
                    r = f.result()
                except Skipped:
                    evaluated -= 1
                    continue
                except BaseException:
                    fails.add(None, dict(project=key, combined=list(F)), "C09 harness exception:\n" + traceback.format_exc(), "")
                    continue
                together = r.after
                has_crashed = crashed(r)
                orders = list(itertools.permutations(F))
                finals = {}
                for o in orders:
                    if (key, o) in results:
                        finals[o] = results[(key, o)][0]
                bad = []
                for o, tr in finals.items():
                    for k in together:
                        if k.endswith(".py") and not same_ast(tr.get(k, b""), together[k]):
                            bad.append((o, k, tr.get(k, b"").decode(errors="replace")))
                # orders must also agree with each other
                ref_o = orders[0]
                among = [o for o, tr in finals.items() if any(k.endswith(".py") and not same_ast(tr[k], finals[ref_o][k]) for k in tr)] \
                    if ref_o in finals else []
                if len(samples) < 5 and not bad:
                    samples.append(f"C09 {key}: {len(finals)} orders of {list(F)} == combined run")
                if bad or has_crashed:
                    finding = "F13" if (f13_predicate(files, F, r) and not among) else None
                    if finding is None and not has_crashed and f31_predicate(key, [x[0] for x in bad]):
                        finding = "F31"
                    o, k, txt = bad[0] if bad else (orders[0], "-", "")
                    fails.add(finding, dict(project=key, categories=list(F), orders_differing_from_combined=[list(x[0]) for x in bad][:6],
                                            orders_differing_among_themselves=[list(x) for x in among][:6]),
                              f"C09: combined run --inline-snapshot={','.join(F)} {'CRASHED (INTERNALERROR / traceback from pytest_sessionfinish) and ' if has_crashed else ''}"
                              f"differs from one-at-a-time approval in {len(bad)}/{len(finals)} orders; e.g. order {list(o)} file {k}:\n{txt}\n"
                              f"--- combined:\n{together.get(k, b'').decode(errors='replace') if k != '-' else ''}\n--- combined output (tail)\n"
                              + tail("\n".join(l for l in (r.out + r.err).splitlines() if not l.startswith("| ")), 14),
                              replay_c09(files, o, F))
                elif among:
                    fails.add(None, dict(project=key, categories=list(F)), f"C09: orders disagree among themselves: {among}",
                              replay_c09(files, among[0], F))
            for f in c08:
                try:
                    evaluated += f.result()
                except BaseException:
                    fails.add(None, "C08 job", "harness exception:\n" + traceback.format_exc(), "")
        cross += [
            "X: black formatting of generated code is deterministic across processes (reruns byte-identical)",
            "X: PYTHONHASHSEED is left random per session (set/dict rendering must not depend on it)",
            "X: INTERNALERROR in pytest_sessionfinish -> nothing written, non-zero exit",
        ]
    except BaseException:
        fails.add(None, "B-fixpoint driver", "driver exception:\n" + traceback.format_exc(), "")
    finally:
        set_deadline(None)
    if deadline.skipped:
        cross.append(f"BUDGET: {deadline.skipped} sessions skipped because the {tier} wall-clock budget was used up")
    return dict(skipped=deadline.skipped, evaluated=evaluated, distinct=distinct, failures=fails.items, samples=samples[:5], cross_checks=cross,
                seconds=round(time.time() - t0, 1), dropped={str(k): v for k, v in fails.dropped.items()})
