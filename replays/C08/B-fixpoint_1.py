"""Replay file written by /verif/check.py
{
 "property": "C08",
 "standin": "B-fixpoint",
 "bound": "real pytest sessions: rerun after all four categories / after the same subset (template project + fixed zoo of ~45 builtin values; thorough adds 3 x 30 random nested values and all 15 subsets); approval orders: quick 2 category triples x 6 orders, thorough all 24 orders of 4 (+ all sub-orders) on 3 templates, plus trailing-comma layouts",
 "input": {
  "project": "zoo fixed",
  "values": 48,
  "flags": "create,fix,trim,update",
  "rerun": 1
 },
 "detail": "C08: rerun #1 with the same flags modified files: ['M test_zoo_fixed.py']\n--- before\n+++ after\n@@ -254 +254 @@\n-    assert [0.0, -0.0] == snapshot([0.0, -0.0])\n+    assert [0.0, -0.0] == snapshot([-0.0, -0.0])\n@@ -258 +258 @@\n-    assert [-0.0, 0.0, 0] == snapshot([-0.0, 0.0, 0])\n+    assert [-0.0, 0.0, 0] == snapshot([-0.0, -0.0, 0])\n@@ -270 +270 @@\n-    assert [(0.0,), (-0.0,)] == snapshot([(0.0,), (-0.0,)])\n+    assert [(0.0,), (-0.0,)] == snapshot([(-0.0,), (-0.0,)])\n\nrerun #1: report still shows ['Update snapshots']\n--- output (tail)\nPASSED test_zoo_fixed.py::test_v35\nPASSED test_zoo_fixed.py::test_v36\nPASSED test_zoo_fixed.py::test_v37\nPASSED test_zoo_fixed.py::test_v38\nPASSED test_zoo_fixed.py::test_v39\nPASSED test_zoo_fixed.py::test_v40\nPASSED test_zoo_fixed.py::test_v41\nPASSED test_zoo_fixed.py::test_v42\nPASSED test_zoo_fixed.py::test_v43\nPASSED test_zoo_fixed.py::test_v44\nPASSED test_zoo_fixed.py::test_v45\nPASSED test_zoo_fixed.py::test_v46\nPASSED test_zoo_fixed.py::test_v47\nPASSED test_zoo_fixed.py::test_ops\n============================== 49 passed in 5.70s =============================="
}
"""


# stand-alone replay: runs real pytest sessions of the plugin installed for this interpreter
# (run with /verif/.venv/bin/python, which sees the editable install of /repo).
import ast, os, shutil, subprocess, sys, tempfile
import xml.etree.ElementTree as ET
from pathlib import Path

CI_VARS = ('CI', 'bamboo.buildKey', 'BUILD_ID', 'BUILD_NUMBER', 'BUILDKITE', 'CIRCLECI', 'CONTINUOUS_INTEGRATION', 'GITHUB_ACTIONS', 'HUDSON_URL', 'JENKINS_URL', 'TEAMCITY_VERSION', 'TRAVIS', 'PYCHARM_HOSTED')
OTHER = ('INLINE_SNAPSHOT_DEFAULT_FLAGS', 'FORCE_COLOR', 'NO_COLOR', 'PYTEST_ADDOPTS', 'PYTEST_PLUGINS', 'PYTHONHASHSEED')
BASE_ARGS = ('-p', 'no:cacheprovider', '-p', 'no:benchmark', '-rA')


def _env(extra, tty):
    env = dict(os.environ)
    for v in CI_VARS + OTHER:
        env.pop(v, None)
    env.update(TERM="unknown", COLUMNS="80", PYTHONDONTWRITEBYTECODE="1")
    if tty:
        env["FORCE_COLOR"] = "true"
    env.update(extra or {})
    return env


def tree(root):
    return {p.relative_to(root).as_posix(): p.read_bytes() for p in sorted(Path(root).rglob("*"))
            if p.is_file() and "__pycache__" not in p.parts}


def write(root, files):
    for n, c in files.items():
        p = Path(root) / n
        p.parent.mkdir(parents=True, exist_ok=True)
        p.write_bytes(c if isinstance(c, bytes) else c.encode())


def outcomes(path):
    out = {}
    try:
        r = ET.parse(path).getroot()
    except Exception:
        return None
    for tc in r.iter("testcase"):
        k = out.setdefault(tc.get("classname") + "::" + tc.get("name"), set())
        kinds = {"failed" if c.tag == "failure" else c.tag for c in tc if c.tag in ("failure", "error", "skipped")}
        k.update(kinds or {"passed"})
    return out


def session(proj, args=(), env=None, stdin=b"", tty=None):
    out = tempfile.mkdtemp()
    try:
        before = tree(proj)
        p = subprocess.run([sys.executable, "-m", "pytest", *BASE_ARGS, "--junitxml=" + out + "/j.xml", *args],
                           cwd=proj, env=_env(env, bool(stdin) if tty is None else tty), input=stdin,
                           capture_output=True)
        return dict(rc=p.returncode, out=p.stdout.decode("utf-8", "replace"), err=p.stderr.decode("utf-8", "replace"),
                    outcomes=outcomes(out + "/j.xml"), before=before, after=tree(proj))
    finally:
        shutil.rmtree(out, ignore_errors=True)


def dump(src):
    return ast.dump(ast.parse(src.decode() if isinstance(src, bytes) else src))


ROOT = tempfile.mkdtemp()
PROJ = os.path.join(ROOT, "proj")
os.mkdir(PROJ)
try:
    write(PROJ, {'test_zoo_fixed.py': 'from inline_snapshot import snapshot\n\n\ndef test_v0():\n    assert 5 == snapshot()\n\n\ndef test_v1():\n    assert -3 == snapshot()\n\n\ndef test_v2():\n    assert 0 == snapshot()\n\n\ndef test_v3():\n    assert 1.5 == snapshot()\n\n\ndef test_v4():\n    assert -0.0 == snapshot()\n\n\ndef test_v5():\n    assert 1e100 == snapshot()\n\n\ndef test_v6():\n    assert 10**20 == snapshot()\n\n\ndef test_v7():\n    assert True == snapshot()\n\n\ndef test_v8():\n    assert None == snapshot()\n\n\ndef test_v9():\n    assert "text" == snapshot()\n\n\ndef test_v10():\n    assert "it\'s" == snapshot()\n\n\ndef test_v11():\n    assert \'say "hi"\' == snapshot()\n\n\ndef test_v12():\n    assert "line\\nbreak" == snapshot()\n\n\ndef test_v13():\n    assert "tab\\there" == snapshot()\n\n\ndef test_v14():\n    assert "trailing\\n" == snapshot()\n\n\ndef test_v15():\n    assert "a\\nb\\nc\\n" == snapshot()\n\n\ndef test_v16():\n    assert "x" * 100 == snapshot()\n\n\ndef test_v17():\n    assert "" == snapshot()\n\n\ndef test_v18():\n    assert "\\\\" == snapshot()\n\n\ndef test_v19():\n    assert \'äö€\' == snapshot()\n\n\ndef test_v20():\n    assert b"bytes" == snapshot()\n\n\ndef test_v21():\n    assert b"\\x00\\xff" == snapshot()\n\n\ndef test_v22():\n    assert b\'\' == snapshot()\n\n\ndef test_v23():\n    assert (1, 2) == snapshot()\n\n\ndef test_v24():\n    assert (1,) == snapshot()\n\n\ndef test_v25():\n    assert () == snapshot()\n\n\ndef test_v26():\n    assert [] == snapshot()\n\n\ndef test_v27():\n    assert {} == snapshot()\n\n\ndef test_v28():\n    assert [1, [2, 3]] == snapshot()\n\n\ndef test_v29():\n    assert [[]] == snapshot()\n\n\ndef test_v30():\n    assert {"a": [1, 2], "b": {"c": None}} == snapshot()\n\n\ndef test_v31():\n    assert {1: \'x\', (1, 2): \'y\'} == snapshot()\n\n\ndef test_v32():\n    assert {1, 2} == snapshot()\n\n\ndef test_v33():\n    assert {\'b\', \'a\', \'c\'} == snapshot()\n\n\ndef test_v34():\n    assert frozenset({1}) == snapshot()\n\n\ndef test_v35():\n    assert set() == snapshot()\n\n\ndef test_v36():\n    assert [(1, \'a\'), (2, \'b\')] == snapshot()\n\n\ndef test_v37():\n    assert {\'k\': (1,)} == snapshot()\n\n\ndef test_v38():\n    assert [1.5, -2, \'x\', None, True] == snapshot()\n\n\ndef test_v39():\n    assert {\'a\': {\'b\': {\'c\': {\'d\': [1, 2, {\'e\': ()}]}}}} == snapshot()\n\n\ndef test_v40():\n    assert list(range(40)) == snapshot()\n\n\ndef test_v41():\n    assert {str(i): i for i in range(12)} == snapshot()\n\n\ndef test_v42():\n    assert [\'word %d\' % i for i in range(15)] == snapshot()\n\n\ndef test_v43():\n    assert [0.0, -0.0] == snapshot()\n\n\ndef test_v44():\n    assert [-0.0, 0.0, 0] == snapshot()\n\n\ndef test_v45():\n    assert [1, True, 1.0] == snapshot()\n\n\ndef test_v46():\n    assert {\'a\': 1.0, \'b\': 1, \'c\': True} == snapshot()\n\n\ndef test_v47():\n    assert [(0.0,), (-0.0,)] == snapshot()\n\n\ndef test_ops():\n    assert 5 <= snapshot()\n    assert 5 >= snapshot()\n    assert 5 in snapshot()\n    s = snapshot()\n    assert \'v\' == s[\'k\']\n    assert [1] == s[\'l\']\n', 'pyproject.toml': '[tool.inline-snapshot]\n'})
    r = session(PROJ, ['--inline-snapshot=create,fix,trim,update'])
    r = session(PROJ, ['--inline-snapshot=create,fix,trim,update'])
    print(r['out'][-2500:])
    assert r['after'] == r['before'], sorted(k for k in set(r['after']) | set(r['before']) if r['after'].get(k) != r['before'].get(k))
    assert r['rc'] == 0, r['rc']
    assert not [h for h in ('Create snapshots', 'Fix snapshots', 'Trim snapshots', 'Update snapshots') if h in r['out']], 'pending changes reported'
finally:
    shutil.rmtree(ROOT, ignore_errors=True)
print("replay: no violation observed")

