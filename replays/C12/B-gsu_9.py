"""Replay file written by /verif/check.py
{
 "property": "C12",
 "standin": "B-gsu",
 "bound": "displays with <= 3 elements x 4 layouts x 4 kinds x delete subsets x 5 insert patterns (1500 sampled cases quick / all thorough) through the real apply_all + new_code",
 "input": "('dict', 'single', ('1', '0+2', '\"\"\"a\\nb\"\"\"'), (0,), {3: ['8', '9']})",
 "detail": "AssertionError: (Replacement(range=SourceRange(start=SourcePosition(lineno=1, col_offset=4), end=SourcePosition(lineno=2, col_offset=4)), text=\", 'k30': 8, 'k31': 9\", change_id=63), Replacement(range=SourceRange(start=SourcePosition(lineno=1, col_offset=15), end=SourcePosition(lineno=1, col_offset=21)), text='', change_id=63))"
}
"""

import sys, tempfile
sys.path.insert(0, "/verif")
from bounded.b_gsu import one_case
msg = one_case(tempfile.mkdtemp(), *('dict', 'single', ('1', '0+2', '"""a\nb"""'), (0,), {3: ['8', '9']}))
print(('dict', 'single', ('1', '0+2', '"""a\nb"""'), (0,), {3: ['8', '9']}), "->", msg)
assert msg is None, msg

