"""Replay file written by /verif/check.py
{
 "property": "C16",
 "failed_obligation": "_code_repr.sort_set_values/post:otherwise-sorted-by-repr",
 "path": 1,
 "function": "inline_snapshot._code_repr.sort_set_values",
 "verdict": "refuted",
 "backend": "z3-5.1",
 "solver_model": "is_chain = [else -> False]\nset_values!1 = ValSet!val!0\nsorted_vals = [else -> ValSet!val!1]",
 "where": ""
}
"""

print('no native failing input was found for this obligation; see the header for the solver output')
