"""Replay file written by /verif/check.py
{
 "property": "C11",
 "failed_obligation": "_adapter.generic_call_adapter.DefaultDictAdapter.argument/post:second-argument-is-a-plain-dict-copy",
 "path": 2,
 "function": "inline_snapshot._adapter.generic_call_adapter.DefaultDictAdapter.argument",
 "verdict": "refuted",
 "backend": "z3-5.1",
 "solver_model": "plain_dict_of = [else -> Val!val!1]\npos_or_name!2 = 1\nvalue!1 = Val!val!0",
 "where": ""
}
"""

print('no native failing input was found for this obligation; see the header for the solver output')
