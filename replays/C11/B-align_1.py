"""Replay file written by /verif/check.py
{
 "property": "C11",
 "standin": "B-align",
 "bound": "all pairs of sequences over 3 letters up to length 4 (quick) / 5 (thorough); add_x scripts up to length 7 / 9",
 "input": "nw_align(['a', 'b'], ['a', 'b', 'a', 'a'])",
 "detail": "keeps 1 elements, a longest common subsequence has 2"
}
"""

from inline_snapshot import _align
import sys
sys.path.insert(0, "/verif")
from bounded.b_align import check_align, check_script, check_add_x
args = (['a', 'b'], ['a', 'b', 'a', 'a'])
which = 'nw_align'
r = getattr(_align, which)(*args)
msg = check_align(*args, r) if which == "align" else check_script(*args, r, True) if which == "nw_align" else check_add_x(*args, r)
print(which, args, "->", r, "::", msg)
assert msg is None, msg

