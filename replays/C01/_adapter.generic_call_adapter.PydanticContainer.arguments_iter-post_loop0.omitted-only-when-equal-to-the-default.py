"""Replay file written by /verif/check.py
{
 "property": "C01",
 "failed_obligation": "_adapter.generic_call_adapter.PydanticContainer.arguments/iter-post:loop0.omitted-only-when-equal-to-the-default",
 "path": 5,
 "function": "inline_snapshot._adapter.generic_call_adapter.PydanticContainer.arguments",
 "verdict": "refuted",
 "backend": "z3-5.1",
 "solver_model": "DField_default = [else -> Val!val!0]\nDField_default_factory = [else -> Val!val!5]\nDField_repr = [else -> True]\nNone_Val = Val!val!6\nPydanticUndefined_sentinel = Val!val!1\nattr_of = [else -> Val!val!3]\ncontains_Val = [else -> Val!val!10]\neq_Val = [(Val!val!7, Val!val!3) -> Val!val!8, else -> Val!val!4]\nk!15 = 0\nmade_by = [else -> Val!val!7]\nmodel_fields!13 = mk_List_Tuple_Str_DField(K(Int,\n                           mk_Tuple_Str_DField(\"__fields_set__\",\n                                        DField!val!0)),\n                         1)\nstrval = [else -> Val!val!9]\ntruthy_Val = [else -> False]\nvalue!1 = Val!val!2",
 "where": ""
}
"""

print('no native failing input was found for this obligation; see the header for the solver output')
