"""Layer A (file level): SourceFile.rewrite / new_code, ChangeRecorder.fix_all, format_code, Replace.apply."""
import z3

from pyvc.contract import Loop, Shape, contract
from pyvc.core import PathEnd, RaiseSig, Unsupported, fresh_value, pack, unpack
from pyvc.defaults import DEFAULT_POLICIES, SHAPES
from pyvc.interp import _MISSING, PyList
from pyvc.types import BOOL, INT, STR, Abs, Obj, Opaque, SV, parse_ty, sort_of

RW = "inline_snapshot._rewrite_code"
FM = "inline_snapshot._format"
TXT = Abs("Txt")


def _T():
    return sort_of(TXT)


TXT = Abs("Txt")
# text values: encode/decode are total conversions (listed assumption: text decoded from the file or generated as code is encodable)
DEFAULT_POLICIES["attrs"].update({
    "Txt.encode": lambda I, a, k, n: Opaque("bytes"),
    "Txt.strip": lambda I, a, k, n: Opaque("str"),
    "Txt.rstrip": lambda I, a, k, n: SV(z3.Function("rstrip_txt", sort_of(TXT), sort_of(TXT))(a[0].t), TXT),
    "Txt.splitlines": lambda I, a, k, n: Opaque("lines"),
    # text.replace(a, b) with constant a, b: a deterministic function of the text (used for line-ending conversion)
    "Txt.replace": lambda I, a, k, n: SV(z3.Function("replace_txt_" + "".join(f"{ord(c):02x}" for c in str(a[1]) + "|" + str(a[2]))[:60], sort_of(TXT), sort_of(TXT))(a[0].t), TXT),
})


def _txt(I, name):
    return SV(z3.Const(I.ctx.fresh_name(name), _T()), TXT)


def fmt_fn():
    return z3.Function("fmt", _T(), _T())


def _ginc(I, name):
    v = I.ghost[name]
    I.ghost[name] = v + 1 if isinstance(v, int) else SV(z3.simplify(v.t + 1), INT)


# ---------------------------------------------------------------------------------------------- rewrite


def p_new_code_call(I, args, kwargs, node):
    """self.new_code() as seen from rewrite(): may raise (formatter, tokenizer, read) -- before anything is opened."""
    I.epoch = getattr(I, "epoch", 0) + 1
    I.V.may_raise(I, "new_code")
    return _txt(I, "new_code")


def p_open(I, args, kwargs, node):
    I.epoch = getattr(I, "epoch", 0) + 1
    I.V.may_raise(I, "open")  # a failing open("bw") leaves the file as it was (X8)
    mode = args[1] if len(args) > 1 else kwargs.get("mode", "r")
    if isinstance(mode, str) and "w" in mode:
        I.ghost["truncated"] = True
        _ginc(I, "n_open")

    def write(I2, data):
        I2.epoch = getattr(I2, "epoch", 0) + 1
        I2.ghost["written"] = data
        I2.ghost["truncated"] = False  # assumed: writing a bytes object after a successful open is not interrupted
        _ginc(I2, "n_write")
        return None

    return Obj("file", {"write": write})


def file_with_hook(I, m, what, sig, env):
    if isinstance(m, Obj) and m.cls == "file":
        return m
    return Opaque("with")


def encode_hook(I, what, args, kwargs, node):
    if what.endswith(".encode"):
        # str.encode() of text that was decoded from the file / generated as code: total (listed assumption)
        return Opaque("bytes")
    return _MISSING


RW_EXIT = {"file-is-old-or-complete [C15]": "not truncated"}

contract(
    RW + ".SourceFile.rewrite",
    params={"self": "@RSourceFile"},
    shapes={"RSourceFile": Shape(RW + ".SourceFile", {"filename": "Opaque", "replacements": "Opaque", "source": "Opaque"})},
    callees={"SourceFile.new_code": p_new_code_call, "open": p_open},
    ghost={"vars": {"truncated": "=False", "n_open": "=0", "n_write": "=0", "written": "=None"},
           "with_hook": file_with_hook, "havoc_hook": encode_hook, "may_raise": True, "light_feasibility": True},
    ensures=dict(RW_EXIT, **{"written-once [C15,C03]": "n_open == 1 and n_write == 1"}),
    raises={"Exception": dict(RW_EXIT)},
    safety_props=["C18", "C15"],
    assumes=["X8"],
)

contract(
    RW + ".ChangeRecorder.fix_all",
    params={"self": "@Rec"},
    shapes={"Rec": Shape(RW + ".ChangeRecorder", {"_source_files": "@FileMap", "_changes": "Opaque"}),
            "FileMap": Shape("filemap", {"values": lambda I: fresh_value(I.ctx, parse_ty("List[RFile]"), "files")})},
    attrs={"RFile.rewrite": lambda I, a, k, n: _rewrite_contract(I)},
    ghost={"vars": {"truncated": "=False", "n_rewrite": "=0"}, "may_raise": True, "light_feasibility": True},
    loops={0: Loop(index="k", ghost_modifies=["n_rewrite"], inv={"no-file-left-truncated": "not truncated"})},
    ensures={"every-file-old-or-complete [C15]": "not truncated"},
    raises={"Exception": {"every-file-old-or-complete [C15]": "not truncated"}},
    safety_props=["C18", "C15"],
)


def _rewrite_contract(I):
    """file.rewrite() by its contract above: on every exit (normal or exceptional) the file is old or complete."""
    I.epoch = getattr(I, "epoch", 0) + 1
    _ginc(I, "n_rewrite")
    I.V.may_raise(I, "rewrite")
    return None


# ---------------------------------------------------------------------------------------------- new_code


def p_read_text(I, args, kwargs, node):
    I.V.may_raise(I, "read_text")
    return I.ghost["code"]


def p_format_code(I, args, kwargs, node):
    I.epoch = getattr(I, "epoch", 0) + 1
    I.V.may_raise(I, "format_code")
    t = args[0]
    return SV(fmt_fn()(t.t), TXT)


def p_enforce(I, args, kwargs, node):
    return I.V.global_value(I, "enforce")


def splice_fn():
    return z3.Function("splice", _T(), sort_of(Abs("Repls")), _T())


def pat_offsets(I, n, env):
    """[(r.range.start.offset(ln), r.range.end.offset(ln), r.text) for r in replacements]:
    X4/X5 -- asttokens.util.replace splices the sorted, disjoint replacements at their character offsets."""
    return SV(z3.Function("sorted_repls", sort_of(Abs("Repls")), sort_of(Abs("Repls")))(I.ghost["repls"].t), Abs("Repls"))


def p_util_replace(I, args, kwargs, node):
    I.V.may_raise(I, "asttokens.util.replace")
    code, reps = args
    return SV(splice_fn()(code.t, reps.t), TXT)


def p_list(I, args, kwargs, node):
    return Opaque("list(self.replacements)")


SPLICED = "splice(code, sorted_repls(repls))"

from pyvc.specs import SPEC_NS


def s_splice(I, code, reps):
    return SV(splice_fn()(code.t, reps.t), TXT)


def s_sorted_repls(I, reps):
    return SV(z3.Function("sorted_repls", sort_of(Abs("Repls")), sort_of(Abs("Repls")))(reps.t), Abs("Repls"))


def s_fmt(I, t):
    return SV(fmt_fn()(t.t), TXT)


SPEC_NS.update({"splice": s_splice, "sorted_repls": s_sorted_repls, "fmt": s_fmt})

contract(
    RW + ".SourceFile.new_code",
    params={"self": "@RSourceFile"},
    shapes={"RSourceFile": Shape(RW + ".SourceFile", {"filename": "@PathObj", "replacements": "Opaque", "source": "Opaque"}),
            "PathObj": Shape("pathlib.Path", {"read_text": lambda I, *a: p_read_text(I, a, {}, None)})},
    globals_={"enforce": "Bool"},
    callees={"inline_snapshot._format.enforce_formatting": p_enforce, "inline_snapshot._format.format_code": p_format_code,
             "SourceFile._check": "havoc", "asttokens.util.replace": p_util_replace, "asttokens.LineNumbers": "havoc", "LineNumbers": "havoc"},
    extern_patterns={"[(r.range.start.offset(line_numbers), r.range.end.offset(line_numbers), r.text) for r in replacements]": pat_offsets},
    returns="Txt",
    result_name="ret",
    ghost={"vars": {"code": "Txt", "repls": "Repls"}, "may_raise": True, "light_feasibility": True, "havoc_unknown_externals": True,
           "untracked": ["replacements", "line_numbers"]},
    ensures={
        # C20 second sentence / C03: "If it was not clean and no format-command is configured, the file is not re-formatted as a whole"
        "not-clean-and-no-command-means-plain-splice [C20,C03]": "implies(not enforce and not (code == fmt(code)), ret == " + SPLICED + ")",
        # C20 first sentence reduced to: the result is formatter output whenever the file was clean (X15: black is idempotent)
        "clean-or-enforced-means-formatted-splice [C20]": "implies(enforce or code == fmt(code), ret == fmt(" + SPLICED + "))",
    },
    raises={"Exception": {}},
    safety_props=["C18", "C20"],
    assumes=["X4", "X5", "X15"],
)

# ---------------------------------------------------------------------------------------------- format_code

SHAPES.update({"CfgObj": Shape("inline_snapshot._config.Config", {"format_command": "Opt[Str]"})})


def p_sp_run(I, args, kwargs, node):
    """X6: subprocess.run(shell=True, capture_output=True) returns a CompletedProcess; a failing command is a non-zero returncode."""
    I.epoch = getattr(I, "epoch", 0) + 1
    rc = fresh_value(I.ctx, INT, "returncode")
    I.ghost["returncode"] = rc
    out = _txt(I, "command_stdout")
    I.ghost["command_stdout"] = out
    return Obj("CompletedProcess", {"returncode": rc, "stdout": Obj("bytes", {"decode": lambda I2, *a: out}), "stderr": Obj("bytes", {"decode": lambda I2, *a: Opaque("stderr")})})


def p_raise_problem(I, args, kwargs, node):
    _ginc(I, "n_problem")
    return None


def p_format_str(I, args, kwargs, node):
    """black.format_str: may raise anything (issue #138); otherwise returns fmt_black(text, mode)."""
    I.epoch = getattr(I, "epoch", 0) + 1
    I.ghost["format_str_called"] = True
    if not I.ctx.choose():
        I.ghost["format_str_raised"] = True
        raise RaiseSig("UnknownError", info=["black.format_str"])
    r = _txt(I, "black_output")
    I.ghost["black_output"] = r
    return r


def fc_import_ok(I, base, st):
    if base == "black":
        return I.V.global_value(I, "black_installed").t
    return True


def fc_with_hook(I, m, what, sig, env):
    return Opaque("with")


def p_format(I, args, kwargs, node):
    return Opaque("format_command.format(...)")


contract(
    FM + ".format_code",
    params={"text": "Txt", "filename": "Opaque"},
    globals_={"inline_snapshot._config.config": "@CfgObj", "black_installed": "Bool"},
    callees={"subprocess.run": p_sp_run, "sp.run": p_sp_run, "run": p_sp_run, "inline_snapshot._problems.raise_problem": p_raise_problem,
             "black.format_str": p_format_str, "format_str": p_format_str, "inline_snapshot._format.file_mode_for_path": "havoc",
             "rich.markup.escape": "havoc", "escape": "havoc"},
    returns="Txt",
    result_name="ret",
    ghost={"vars": {"n_problem": "=0", "returncode": "=0", "command_stdout": "=None", "format_str_called": "=False", "format_str_raised": "=False", "black_output": "=None"},
           "import_ok": fc_import_ok, "with_hook": fc_with_hook, "light_feasibility": True, "havoc_unknown_externals": True,
           "havoc_hook": lambda I, what, a, k, n: (Opaque("str") if what.endswith((".format", ".encode", ".decode")) else _MISSING)},
    ensures={
        # C15: "a formatter failure degrades to unformatted but still correct code plus a reported problem"
        "failing-command-returns-input-and-reports [C15]": "implies(_config.config.format_command is not None and returncode != 0, ret == text and n_problem == 1)",
        "successful-command-returns-its-output [C15,C20]": "implies(_config.config.format_command is not None and returncode == 0, ret == command_stdout and n_problem == 0)",
        # C16/C15: without black (and without a command) the text is returned unchanged and the problem is reported
        "missing-black-returns-input-and-reports [C16,C15]": "implies(_config.config.format_command is None and not black_installed, ret == text and n_problem == 1)",
        "black-exception-returns-input-and-reports [C15]": "implies(format_str_raised, ret == text and n_problem == 1)",
        "black-output-returned [C20,C16]": "implies(_config.config.format_command is None and black_installed and not format_str_raised, ret == black_output and n_problem == 0)",
    },
    raises={"Exception": {"only-from-reading-the-black-configuration [C15]": "_config.config.format_command is None and black_installed and not format_str_called"}},
    safety_props=["C18", "C15"],
    assumes=["X6", "X2"],
)

# ---------------------------------------------------------------------------------------------- file_mode_for_path


def _cfg_obj(I):
    """parse_pyproject_toml(): a mapping; presence and value of each key are symbolic."""
    keys = {"line_length": INT, "skip_magic_trailing_comma": BOOL, "skip_string_normalization": BOOL, "preview": BOOL}
    has = {k: SV(z3.Bool(I.ctx.fresh_name("has_" + k)), BOOL) for k in keys}
    val = {k: fresh_value(I.ctx, t, "cfg_" + k) for k, t in keys.items()}
    I.ghost["cfg_has"] = has
    I.ghost["cfg_val"] = val

    def contains(I2, k):
        return has[k] if k in has else False

    def getitem(I2, k):
        return val[k]

    return Obj("blackcfg", {"__contains__": contains, "__getitem__": getitem})


def p_parse_pyproject(I, args, kwargs, node):
    return _cfg_obj(I)


def p_find_pyproject(I, args, kwargs, node):
    r = z3.Bool(I.ctx.fresh_name("pyproject_found"))
    I.ghost["pyproject_found"] = SV(r, BOOL)
    if I.ctx.branch(r):
        return Opaque("pyproject path")
    return None


def p_filemode(I, args, kwargs, node):
    m = Obj("black.Mode", {"line_length": SV(z3.Int("default_line_length"), INT), "magic_trailing_comma": SV(z3.Bool("default_mtc"), BOOL),
                           "string_normalization": SV(z3.Bool("default_sn"), BOOL), "preview": SV(z3.Bool("default_preview"), BOOL)})
    return m


def s_cfg_has(I, k):
    h = I.ghost.get("cfg_has")
    return h[k] if h else False


def s_cfg_val(I, k):
    v = I.ghost.get("cfg_val")
    if not v:
        return 0 if k == "line_length" else False  # no pyproject on this path: the value is irrelevant (guarded by cfg_has)
    return v[k]


SPEC_NS.update({"cfg_has": s_cfg_has, "cfg_val": s_cfg_val})


def _field(name, key, conv):
    return ("implies(pyproject_found and cfg_has('%s'), ret.%s == %s) and implies(not (pyproject_found and cfg_has('%s')), ret.%s == default_%s)"
            % (key, name, conv, key, name, name))


def _defaults(I, name):
    return {"line_length": SV(z3.Int("default_line_length"), INT), "magic_trailing_comma": SV(z3.Bool("default_mtc"), BOOL),
            "string_normalization": SV(z3.Bool("default_sn"), BOOL), "preview": SV(z3.Bool("default_preview"), BOOL)}[name]


for _n in ("line_length", "magic_trailing_comma", "string_normalization", "preview"):
    SPEC_NS["default_" + _n] = None  # placeholders replaced per path below


class _Default:
    def __init__(self, n):
        self.n = n


def _install_defaults():
    # spec names default_<field>: constants standing for black.FileMode()'s own defaults
    SPEC_NS["default_line_length"] = SV(z3.Int("default_line_length"), INT)
    SPEC_NS["default_magic_trailing_comma"] = SV(z3.Bool("default_mtc"), BOOL)
    SPEC_NS["default_string_normalization"] = SV(z3.Bool("default_sn"), BOOL)
    SPEC_NS["default_preview"] = SV(z3.Bool("default_preview"), BOOL)


_install_defaults()

contract(
    FM + ".file_mode_for_path",
    params={"path": "Opaque"},
    callees={"black.FileMode": p_filemode, "FileMode": p_filemode, "black.find_pyproject_toml": p_find_pyproject, "find_pyproject_toml": p_find_pyproject,
             "black.parse_pyproject_toml": p_parse_pyproject, "parse_pyproject_toml": p_parse_pyproject},
    returns=None,
    result_name="ret",
    ghost={"vars": {"pyproject_found": "=False", "cfg_has": "=None", "cfg_val": "=None"}, "light_feasibility": True},
    ensures={
        # C20: "black with the options found in the project's pyproject.toml (line length, magic trailing comma, string normalisation, preview)"
        "line-length [C20]": _field("line_length", "line_length", "cfg_val('line_length')"),
        "magic-trailing-comma [C20]": _field("magic_trailing_comma", "skip_magic_trailing_comma", "(not cfg_val('skip_magic_trailing_comma'))"),
        "string-normalization [C20]": _field("string_normalization", "skip_string_normalization", "(not cfg_val('skip_string_normalization'))"),
        "preview [C20]": _field("preview", "preview", "cfg_val('preview')"),
    },
    safety_props=["C18", "C20"],
    assumes=["X2"],
)

# ---------------------------------------------------------------------------------------------- Replace.apply

from . import change as _chg2  # Token record


def p_text_positions(I, args, kwargs, node):
    """X3: ASTTokens.get_text_positions(node, padded=False) = (start of the node's first token, end of its last token)."""
    nd, padded = args[-2], args[-1]
    I.ghost["padded_arg"] = padded
    f = z3.Function("text_positions", sort_of(Abs("Node")), sort_of(parse_ty("Tuple[Tuple[Int,Int],Tuple[Int,Int]]")))
    return unpack(I.ctx, f(nd.t), parse_ty("Tuple[Tuple[Int,Int],Tuple[Int,Int]]"))


def p_apply_replace(I, args, kwargs, node):
    rng = args[1]
    I.ghost["emitted"] = rng
    I.ghost["n_emitted"] = I.ghost["n_emitted"] + 1
    I.ghost["emitted_code"] = args[2]
    return None


def s_text_positions(I, nd):
    f = z3.Function("text_positions", sort_of(Abs("Node")), sort_of(parse_ty("Tuple[Tuple[Int,Int],Tuple[Int,Int]]")))
    return unpack(I.ctx, f(nd.t), parse_ty("Tuple[Tuple[Int,Int],Tuple[Int,Int]]"))


SPEC_NS["text_positions"] = s_text_positions

contract(
    "inline_snapshot._change.Replace.apply",
    params={"self": "@ReplaceObj", "recorder": "@Recorder"},
    shapes={"ReplaceObj": Shape("inline_snapshot._change.Replace", {"flag": "Str", "file": "@SrcW", "node": "Node", "new_code": "Code", "old_value": "Val", "new_value": "Val"}),
            "SrcW": Shape("inline_snapshot._source_file.SourceFile", {"_source": "@ExSource"}),
            "ExSource": Shape("executing.Source", {"filename": "Opaque", "asttokens": lambda I: Obj("asttokens.ASTTokens", {"get_text_positions": lambda I2, *a: p_text_positions(I2, a, {}, None)})}),
            "Recorder": Shape("inline_snapshot._rewrite_code.ChangeRecorder", {})},
    callees={"ChangeRecorder.new_change": lambda I, a, k, n: Obj("inline_snapshot._rewrite_code.Change", {}), "Change.replace": p_apply_replace,
             "SourceFile.asttokens": "inline", "SourceFile.filename": "inline", "Change.filename": "inline"},
    ghost={"vars": {"emitted": "=None", "n_emitted": "=0", "emitted_code": "=None", "padded_arg": "=None"}},
    ensures={
        # C03: a Replace touches exactly the text of its own node
        "replaces-exactly-its-own-node [C03,C10,C11,C12,C02,C01,C18]": "n_emitted == 1 and emitted == text_positions(self.node) and padded_arg == False",
        "writes-its-own-code [C03,C01]": "emitted_code == self.new_code",
    },
    frame=[],
    safety_props=["C18", "C03"],
    assumes=["X3"],
)
