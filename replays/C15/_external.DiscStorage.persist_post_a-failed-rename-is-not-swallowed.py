"""Replay file written by /verif/check.py
{
 "property": "C15",
 "failed_obligation": "_external.DiscStorage.persist/post:a-failed-rename-is-not-swallowed",
 "path": 2,
 "function": "inline_snapshot._external.DiscStorage.persist",
 "verdict": "refuted",
 "backend": "z3-5.1",
 "solver_model": "file!13 = mk_Rec_PathRec(\"-new\", \"!0!\")\nname!1 = \".\"",
 "where": ""
}
"""

print('no native failing input was found for this obligation; see the header for the solver output')
