"""Inductive proofs (z3) of the lemmas that specs.py exports as axioms.

Each lemma `forall xs. forall n >= 0. P(xs, n)` is split into
    base:  defs |- forall xs. P(xs, 0)
    step:  defs, n >= 0, (forall xs. P(xs, n)) |- forall xs. P(xs, n + 1)
    pack:  defs, (forall xs, n >= 0. P(xs, n)) |- <the exported axiom text>
so that the formula used as an axiom is exactly what was proved.  Earlier lemmas may be used by later ones.
"""
from __future__ import annotations

import time

import z3

from . import specs
from .specs import CharArr, cat_char, cnt_def, cnt_fn, cnt_lemmas, letters_member, rev_char, slc_char


def _unsat(assumptions, goal, timeout=180000):
    s = z3.Solver()
    s.set("timeout", timeout)
    for a in assumptions:
        s.add(a)
    s.add(z3.Not(goal))
    t0 = time.time()
    r = s.check()
    return r == z3.unsat, (time.time() - t0) * 1000, str(r)


def induct(name, defs, xs, P, exported, results, side=None):
    n = z3.Int("ind!n")
    ok = True
    total = 0.0
    stages = []
    base_goal = z3.ForAll(xs, P(z3.IntVal(0))) if xs else P(z3.IntVal(0))
    ih = z3.ForAll(xs, P(n)) if xs else P(n)
    step_goal = z3.ForAll(xs, P(n + 1)) if xs else P(n + 1)
    allp = z3.ForAll(xs + [n], z3.Implies(n >= 0, P(n)))
    for stage, assum, goal in (
        ("base", defs, base_goal),
        ("step", defs + [n >= 0, ih], step_goal),
        ("pack", defs + [allp], exported),
    ):
        u, ms, r = _unsat(assum, goal)
        total += ms
        stages.append((stage, r))
        ok = ok and u
    results.append({"lemma": name, "discharged": ok, "stages": stages, "ms": round(total, 1), "backend": "z3-5.1 (induction)"})
    return ok


def prove_cnt(letters, results):
    f = cnt_fn(letters)
    defs = cnt_def(letters) + specs.char_defs()
    L = cnt_lemmas(letters)
    a, b = z3.Consts("pl!a pl!b", CharArr)
    m, v, an, lo, nn = z3.Ints("pl!m pl!v pl!an pl!lo pl!nn")
    mem = lambda x: z3.If(letters_member(x, letters), 1, 0)
    tag = "cnt_" + letters + "."
    proved = []

    def run(key, xs, P):
        ok = induct(tag + key, defs + proved, xs, P, L[key], results)
        if ok:
            proved.append(L[key])
        return ok

    run("range", [a], lambda n: z3.And(f(a, n) >= 0, f(a, n) <= n))
    run("mono", [a, m], lambda n: z3.Implies(z3.And(0 <= m, m <= n), z3.And(f(a, m) <= f(a, n), f(a, n) - f(a, m) <= n - m)))
    run("store", [a, m, v], lambda n: z3.Implies(m >= n, f(z3.Store(a, m, v), n) == f(a, n)))
    run("const", [v], lambda n: f(specs.rep_char()(v), n) == z3.If(letters_member(v, letters), n, 0))
    cat, rev, slc = cat_char(), rev_char(), slc_char()
    run("cat-low", [a, an, b], lambda n: z3.Implies(n <= an, f(cat(a, an, b), n) == f(a, n)))
    run("cat-high", [a, an, b], lambda d: z3.Implies(an >= 0, f(cat(a, an, b), an + d) == f(a, an) + f(b, d)))
    run("rev", [a, nn], lambda k: z3.Implies(k <= nn, f(rev(a, nn), k) == f(a, nn) - f(a, nn - k)))
    run("slc", [a, lo], lambda k: z3.Implies(lo >= 0, f(slc(a, lo), k) == f(a, lo + k) - f(a, lo)))


def prove_all():
    results = []
    for s in specs.CNT_SETS:
        prove_cnt(s, results)
    return results


if __name__ == "__main__":
    import json

    rs = prove_all()
    for r in rs:
        print(r)
    print("all discharged:", all(r["discharged"] for r in rs))
