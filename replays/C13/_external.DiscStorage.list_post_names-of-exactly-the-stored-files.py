"""Replay file written by /verif/check.py
{
 "property": "C13",
 "failed_obligation": "_external.DiscStorage.list/post:names-of-exactly-the-stored-files",
 "path": 1,
 "function": "inline_snapshot._external.DiscStorage.list",
 "verdict": "refuted",
 "backend": "z3-5.1",
 "solver_model": "array-ext = [(as-array, as-array) -> -24168, else -> 0]\ndir_exists!1 = True\ndirectory_entries!13 = mk_List_Rec_PathRec(Store(Store(Store(Store(Store(Store(K(Int,\n                                        mk_Rec_PathRec(\"A\",\n                                        \"\")),\n                                        -1,\n                                        mk_Rec_PathRec(\"\",\n                                        \"\")),\n                                        0,\n                                        mk_Rec_PathRec(\"\",\n                                        \"\")),\n                                        -24168,\n                                        mk_Rec_PathRec(\"\",\n                                        \"\")),\n                                      -21885,\n                                      mk_Rec_PathRec(\"\",\n                                        \"A\")),\n                                -12831,\n                                mk_Rec_PathRec(\"\", \"\")),\n                          -12237,\n                          mk_Rec_PathRec(\"\", \"\")),\n                    0)\ndirectory_entries!18 = mk_List_Rec_PathRec(Store(K(Int, mk_Rec_PathRec(\"\", \"\")),\n                          -24168,\n                          mk_Rec_PathRec(\"\", \"A\")),\n                    0)\nk!51 = [-1 -> mk_Rec_PathRec(\"\", \"\"),\n 0 -> mk_Rec_PathRec(\"\", \"\"),\n -24168 -> mk_Rec_PathRec(\"\", \"\"),\n -21885 -> mk_Rec_PathRec(\"\", \"A\"),\n -12831 -> mk_Rec_PathRec(\"\", \"\"),\n -12237 -> mk_Rec_PathRec(\"\", \"\"),\n else -> mk_Rec_PathRec(\"A\", \"\")]\nk!52 = [-24168 -> mk_Rec_PathRec(\"\", \"A\"),\n else -> mk_Rec_PathRec(\"\", \"\")]\npos!16 = [\"A\" -> -12237, else -> -21885]\npos!21 = [\"A\" -> -12831, else -> 61]\nstored = [else -> False]",
 "where": ""
}
"""

print('no native failing input was found for this obligation; see the header for the solver output')
