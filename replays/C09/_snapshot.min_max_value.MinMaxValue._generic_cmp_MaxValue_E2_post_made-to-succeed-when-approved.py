"""Replay file written by /verif/check.py
{
 "property": "C09",
 "failed_obligation": "_snapshot.min_max_value.MinMaxValue._generic_cmp#MaxValue/E2/post:made-to-succeed-when-approved",
 "path": 10,
 "function": "inline_snapshot._snapshot.min_max_value.MinMaxValue._generic_cmp#MaxValue/E2",
 "verdict": "refuted",
 "backend": "z3-5.1 finite-scope k=3",
 "solver_model": "FalseVal = Val!e1\nNoneVal = Val!e1\nTrueVal = Val!e0\n_snapshot.generic_value.GenericValue._return_result!21 = Val!e1\n_snapshot.generic_value.clone_result!19 = Val!e2\ndeepcopy_Val = [else -> Var(0)]\neq_Val = [else -> Val!e0]\nge_Val = [else ->\n If(Or(And(Var(0) == Val!e2, Var(1) == Val!e0),\n       And(Var(0) == Val!e1, Var(1) == Val!e0),\n       And(Var(0) == Val!e1, Var(1) == Val!e2)),\n    Val!e1,\n    Val!e0)]\nle_Val = [else ->\n If(Or(And(Var(0) == Val!e0, Var(1) == Val!e1),\n       And(Var(0) == Val!e2, Var(1) == Val!e1),\n       And(Var(0) == Val!e0, Var(1) == Val!e2)),\n    Val!e1,\n    Val!e0)]\nobs!5 = K(Val, False)\nother!4 = Val!e2\nself._new_value!2 = Val!e1\nself._old_value!1 = Val!e1\nstate.incorrect_values!20 = 0\nstate.incorrect_values!7 = -1\nstate.update_flags.create!8 = True\nstate.update_flags.fix!9 = False\nstate.update_flags.update!11 = False\ntruthy_Val = [Val!e0 -> True, else -> False]\nundefined_Val = Val!e0",
 "where": ""
}
"""

print('no native failing input was found for this obligation; see the header for the solver output')
