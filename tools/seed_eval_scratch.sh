#!/bin/sh
# usage: seed_eval_scratch.sh <seeded-dir> [extra property ids...]
# Like seed_eval.sh, but on a scratch export of /repo HEAD (+ the patch) instead of the /repo working tree: the checks are pointed at it
# with VERIF_REPO (contracts, static tables) and PYTHONPATH (stand-ins, pytest sessions), so several seeds can be evaluated in parallel
# and /repo is never touched.  Prints one summary line per check.
D=$1; shift
N=$(basename $D)
PID=$(/verif/.venv/bin/python -c "import json,sys; print(json.load(open('$D/meta.json'))['property'])")
S=/tmp/se_$N; rm -rf $S; mkdir -p $S; (cd /repo && git archive HEAD src | tar -x -C $S)
( cd /tmp && env -u CI PYTHONPATH=$S/src /venv/bin/python $D/demo.py >/tmp/se_${N}_demo_clean.out 2>&1 ); H=$?
(cd $S && patch -p1 -s < $D/patch.diff) || { echo "$N PATCHFAIL"; rm -rf $S; exit 8; }
( cd /tmp && env -u CI PYTHONPATH=$S/src /venv/bin/python $D/demo.py >/tmp/se_${N}_demo_mut.out 2>&1 ); M=$?
cd /verif
for P in $PID "$@"; do
  VERIF_OUT_DIR=$S/out PYTHONPATH=$S/src VERIF_REPO=$S timeout 1800 ./check.py $P > /tmp/se_${N}_$P.out 2>&1; E=$?
  echo "$N $P demo_head=$H demo_patched=$M check_exit=$E violations=$(grep -c '^VIOLATION' /tmp/se_${N}_$P.out) undecided=$(grep -c '^UNDECIDED' /tmp/se_${N}_$P.out) faults=$(grep -c '^CHECKER-FAULT' /tmp/se_${N}_$P.out) :: $(grep '^VIOLATION' /tmp/se_${N}_$P.out | head -1 | sed 's/.*\(obligation=[^ ]*\|standin=[^ ]*\).*/\1/' | cut -c1-120)"
done
rm -rf $S
