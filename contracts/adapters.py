"""Layer C: adapters.  ValueAdapter.assign (exact five-case postcondition)."""
import z3

from pyvc.contract import Loop, Shape, contract
from pyvc.types import BOOL, Abs, Obj, Opaque, SV, sort_of

VA = "inline_snapshot._adapter.value_adapter"


def p_update_allowed(I, args, kwargs, node):
    from pyvc.specs import val_term

    f = z3.Function("update_allowed", sort_of(Abs("Val")), z3.BoolSort())
    return SV(f(val_term(I, args[0])), BOOL)


def s_update_allowed(I, v):
    from pyvc.specs import val_term

    return SV(z3.Function("update_allowed", sort_of(Abs("Val")), z3.BoolSort())(val_term(I, v)), BOOL)


def s_is_unmanaged_wrapper(I, v):
    return SV(z3.Function("isinst_Unmanaged", sort_of(Abs("Val")), z3.BoolSort())(v.t), BOOL)


def s_is_fstring(I, n):
    return SV(z3.Function("isinst_JoinedStr", sort_of(Abs("Node")), z3.BoolSort())(n.t), BOOL)


def s_is_str(I, v):
    return SV(z3.Function("isinst_str", sort_of(Abs("Val")), z3.BoolSort())(v.t), BOOL)


from pyvc.specs import SPEC_NS

SPEC_NS.update({"update_allowed": s_update_allowed, "is_unmanaged_wrapper": s_is_unmanaged_wrapper, "is_fstring": s_is_fstring, "is_str": s_is_str})

EQ_ON = "T(eq(old_value, new_value))"
FROZEN = "(is_unmanaged_wrapper(old_value) or (is_fstring(old_node) and is_str(new_value)))"

contract(
    VA + ".ValueAdapter.assign",
    params={"self": "@VAdapter", "old_value": "Val", "old_node": "Node", "new_value": "Val"},
    shapes={"VAdapter": Shape(VA + ".ValueAdapter", {"context": "@Context"})},
    callees={"inline_snapshot._unmanaged.update_allowed": p_update_allowed, "warnings.warn_explicit": "havoc"},
    returns="Val",
    result_name="ret",
    uses=["val"],
    frame=[],
    ensures={
        # C10: "Sub-expressions that hand control back to the user - Is(...), f-strings ... - are never altered by any category"
        "unmanaged-and-fstring-kept [C10,C02]": "implies(" + FROZEN + ", same(ret, old_value) and len(trace) == 0)",
        # C02 / C05: a differing leaf is replaced by the new value: create iff it was missing, else fix
        "differing-leaf-is-replaced [C02,C05,C01]": "implies(not " + FROZEN + " and not " + EQ_ON + ", same(ret, new_value) and len(trace) == 1"
            " and trace[0].kind == 'Replace' and (trace[0].flag == 'create') == (old_value is undefined) and (trace[0].flag == 'fix') == (old_value is not undefined)"
            " and same(trace[0].node, old_node) and same(trace[0].new_value, new_value) and same(trace[0].old_value, old_value))",
        # C11: "elements ... whose value is unchanged keep their original source text": an equal leaf gets at most an `update`
        "equal-leaf-is-kept [C11,C02,C08]": "implies(not " + FROZEN + " and " + EQ_ON + ", all(trace[j].flag == 'update' for j in range(0, len(trace))))",
        # C05 / C08: "An update never changes the value": only for an equal value whose tokens differ, and only where updates are allowed
        "update-only-for-token-difference [C05,C08]": "implies(not " + FROZEN + " and " + EQ_ON + ", (len(trace) == 1) == (old_node is not None and update_allowed(old_value) and tokens_differ(old_node, new_value)))",
        "no-change-returns-old-object [C11,C14]": "implies(len(trace) == 0, same(ret, old_value))",
        "at-most-one-change [C18]": "len(trace) <= 1",
        "change-is-at-the-leaf [C03,C10]": "all(same(trace[j].node, old_node) for j in range(0, len(trace)))",
        # with a source node, the replacement text is the code of the new value (without a node there is nothing to write)
        "code-of-new-value [C01,C02]": "implies(old_node is not None, all(trace[j].code == code_of(new_value) for j in range(0, len(trace))))",
    },
    safety_props=["C18"],
    ghost={"frame_props": ["C14"]},
    assumes=["PS7", "X2", "X10"],
)
