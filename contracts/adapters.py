"""Layer C: adapters.  ValueAdapter.assign (exact five-case postcondition)."""
import z3

from pyvc.contract import Loop, Shape, contract
from pyvc.types import BOOL, Abs, Obj, Opaque, SV, sort_of

VA = "inline_snapshot._adapter.value_adapter"


def p_update_allowed(I, args, kwargs, node):
    from pyvc.specs import val_term

    f = z3.Function("update_allowed", sort_of(Abs("Val")), z3.BoolSort())
    return SV(f(val_term(I, args[0])), BOOL)


def s_update_allowed(I, v):
    from pyvc.specs import val_term

    return SV(z3.Function("update_allowed", sort_of(Abs("Val")), z3.BoolSort())(val_term(I, v)), BOOL)


def s_is_unmanaged_wrapper(I, v):
    return SV(z3.Function("isinst_Unmanaged", sort_of(Abs("Val")), z3.BoolSort())(v.t), BOOL)


def s_is_fstring(I, n):
    return SV(z3.Function("isinst_JoinedStr", sort_of(Abs("Node")), z3.BoolSort())(n.t), BOOL)


def s_is_str(I, v):
    return SV(z3.Function("isinst_str", sort_of(Abs("Val")), z3.BoolSort())(v.t), BOOL)


from pyvc.specs import SPEC_NS

SPEC_NS.update({"update_allowed": s_update_allowed, "is_unmanaged_wrapper": s_is_unmanaged_wrapper, "is_fstring": s_is_fstring, "is_str": s_is_str})

EQ_ON = "T(eq(old_value, new_value))"
FROZEN = "(is_unmanaged_wrapper(old_value) or (is_fstring(old_node) and is_str(new_value)))"

contract(
    VA + ".ValueAdapter.assign",
    params={"self": "@VAdapter", "old_value": "Val", "old_node": "Node", "new_value": "Val"},
    shapes={"VAdapter": Shape(VA + ".ValueAdapter", {"context": "@Context"})},
    callees={"inline_snapshot._unmanaged.update_allowed": p_update_allowed, "warnings.warn_explicit": "havoc"},
    returns="Val",
    result_name="ret",
    uses=["val"],
    frame=[],
    ensures={
        # C10: "Sub-expressions that hand control back to the user - Is(...), f-strings ... - are never altered by any category"
        "unmanaged-and-fstring-kept [C10,C02]": "implies(" + FROZEN + ", same(ret, old_value) and len(trace) == 0)",
        # C02 / C05: a differing leaf is replaced by the new value: create iff it was missing, else fix
        "differing-leaf-is-replaced [C02,C05,C01]": "implies(not " + FROZEN + " and not " + EQ_ON + ", same(ret, new_value) and len(trace) == 1"
            " and trace[0].kind == 'Replace' and (trace[0].flag == 'create') == (old_value is undefined) and (trace[0].flag == 'fix') == (old_value is not undefined)"
            " and same(trace[0].node, old_node) and same(trace[0].new_value, new_value) and same(trace[0].old_value, old_value))",
        # C11: "elements ... whose value is unchanged keep their original source text": an equal leaf gets at most an `update`
        "equal-leaf-is-kept [C11,C02,C08]": "implies(not " + FROZEN + " and " + EQ_ON + ", all(trace[j].flag == 'update' for j in range(0, len(trace))))",
        # C05 / C08: "An update never changes the value": only for an equal value whose tokens differ, and only where updates are allowed
        "update-only-for-token-difference [C05,C08]": "implies(not " + FROZEN + " and " + EQ_ON + ", (len(trace) == 1) == (old_node is not None and update_allowed(old_value) and tokens_differ(old_node, new_value)))",
        "no-change-returns-old-object [C11,C14]": "implies(len(trace) == 0, same(ret, old_value))",
        "at-most-one-change [C18]": "len(trace) <= 1",
        "change-is-at-the-leaf [C03,C10]": "all(same(trace[j].node, old_node) for j in range(0, len(trace)))",
        # with a source node, the replacement text is the code of the new value (without a node there is nothing to write)
        "code-of-new-value [C01,C02]": "implies(old_node is not None, all(trace[j].code == code_of(new_value) for j in range(0, len(trace))))",
    },
    safety_props=["C18"],
    ghost={"frame_props": ["C14"]},
    assumes=["PS7", "X2", "X10"],
)

# ---------------------------------------------------------------------------------------------- DictAdapter.assign

from pyvc.core import fresh_value, pack, unpack, RaiseSig
from pyvc.specs import abstract_assign, val_term
from pyvc.types import INT, ListT, parse_ty

DA = "inline_snapshot._adapter.dict_adapter"
DICTV = Abs("DictV")
VAL = Abs("Val")


def _keys(I, d):
    f = z3.Function("DictV_keys", sort_of(DICTV), sort_of(parse_ty("List[Val]")))
    l = unpack(I.ctx, f(d.t), parse_ty("List[Val]"))
    # dict keys are pairwise different (PS5)
    i, j = z3.Int(I.ctx.fresh_name("ki")), z3.Int(I.ctx.fresh_name("kj"))
    I.ctx.define("distinct-keys-" + str(d.t), lambda: z3.ForAll([i, j], z3.Implies(z3.And(0 <= i, i < j, j < l.nz()), z3.Select(l.arr, i) != z3.Select(l.arr, j)),
                                                                      patterns=[z3.MultiPattern(z3.Select(l.arr, i), z3.Select(l.arr, j))]))
    return l


def _dget(d_t, k_t):
    return z3.Function("DictV_get", sort_of(DICTV), sort_of(VAL), sort_of(VAL))(d_t, k_t)


def dict_contains(I, d, item):
    l = _keys(I, d)
    j = z3.Int(I.ctx.fresh_name("cj"))
    return SV(z3.Exists([j], z3.And(0 <= j, j < l.nz(), z3.Select(l.arr, j) == val_term(I, item))), BOOL)


def dict_index(I, d, key, node):
    ok = dict_contains(I, d, key)
    I.implicit("KeyError", ok.t, "key-present", node)
    return SV(_dget(d.t, val_term(I, key)), VAL)


def dict_len(I, d):
    l = _keys(I, d)
    return l.n if isinstance(l.n, int) else SV(l.n, INT)


def dict_keys(I, args, kwargs, node):
    return _keys(I, args[0])


def dict_items(I, args, kwargs, node):
    d = args[0]
    l = _keys(I, d)
    pair = parse_ty("Tuple[Val,Val]")
    items = fresh_value(I.ctx, ListT(pair), "items")
    mk = sort_of(pair).constructor(0)
    i = z3.Int(I.ctx.fresh_name("ii"))
    I.ctx.assume(items.nz() == l.nz())
    I.ctx.assume(z3.ForAll([i], z3.Implies(z3.And(0 <= i, i < l.nz()), z3.Select(items.arr, i) == mk(z3.Select(l.arr, i), _dget(d.t, z3.Select(l.arr, i)))),
                           patterns=[z3.Select(items.arr, i)]), tag="items")
    return items


def dict_get(I, args, kwargs, node):
    d, key = args[0], args[1]
    default = args[2] if len(args) > 2 else None
    if I.ctx.branch(dict_contains(I, d, key).t):
        return SV(_dget(d.t, val_term(I, key)), VAL)
    return default


SPEC_NS.setdefault("abs_ops", {})["DictV"] = {"contains": dict_contains, "index": dict_index, "len": dict_len}
from pyvc.defaults import DEFAULT_POLICIES

DEFAULT_POLICIES["attrs"].update({"DictV.keys": dict_keys, "DictV.items": dict_items, "DictV.get": dict_get, "Node.keys": "List[Node]", "Node.values": "List[Node]", "Node.elts": "List[Node]"})


def s_dkeys(I, d):
    return _keys(I, d)


def s_dget(I, d, k):
    return SV(_dget(d.t, val_term(I, k)), VAL)


def s_dhas(I, d, k):
    return dict_contains(I, d, k)


def s_assoc(I, r):
    return r.assoc


SPEC_NS.update({"dkeys": s_dkeys, "dget": s_dget, "dhas": s_dhas, "assoc": s_assoc})


def p_literal_eval(I, args, kwargs, node):
    if not I.ctx.choose():
        raise RaiseSig("ValueError", info=["ast.literal_eval of a non-literal"])
    return Opaque("literal")


def dict_child_assign(I, args, kwargs, node):
    """Child call `adapter.assign(old_value[key], node, new_value[key])` inside DictAdapter.assign.
    Obligation (C11/C10/C03): the node handed to the child is the value node of *that key* in the old display.
    Then the child's generic contract is assumed (induction over the structure of the value):
    P-val under E1 -- the child's result equals the new element."""
    o, nd, n = args[-3], args[-2], args[-1]
    fr = I.frames[-1]
    env = I.param_env
    old_value, old_node = env.lookup("old_value"), env.lookup("old_node")
    ks = _keys(I, old_value)
    if isinstance(nd, SV) and nd.ty == Abs("Node"):
        nt = nd.t
    elif nd is None:
        nt = I.V.none_const(Abs("Node"))
    else:
        nt = z3.Const(I.ctx.fresh_name("unknown_node"), sort_of(Abs("Node")))
    vals = I.getattr(old_node, "values")
    isd = z3.Function("isinst_Dict", sort_of(Abs("Node")), z3.BoolSort())(old_node.t)
    q = z3.Int(I.ctx.fresh_name("q"))
    good = z3.If(z3.And(old_node.t != I.V.none_const(Abs("Node")), isd),
                 z3.Exists([q], z3.And(0 <= q, q < ks.nz(), val_term(I, o) == _dget(old_value.t, z3.Select(ks.arr, q)), nt == z3.Select(vals.arr, q))),
                 nt == I.V.none_const(Abs("Node")))
    I.oblige("call-pre", f"child-gets-the-node-of-its-own-key@{getattr(node, "lineno", "?")} [C11,C10,C03,C02,C16]", good)
    g = abstract_assign(I, args, kwargs, node)
    eqf = z3.Function("eq_Val", sort_of(VAL), sort_of(VAL), sort_of(VAL))
    tr = z3.Function("truthy_Val", sort_of(VAL), z3.BoolSort())
    I.ctx.assume(tr(eqf(g.fields["value"].t, val_term(I, n))), tag="IH-child-P-val")
    return g


def _va_policy(I, args, kwargs, node):
    from pyvc.types import Obj as _O

    return _O("inline_snapshot._adapter.adapter.Adapter", {"context": None})


NEWKEYS = "dkeys(new_value)"

contract(
    DA + ".DictAdapter.assign",
    params={"self": "@DAdapter", "old_value": "DictV", "old_node": "Node", "new_value": "DictV"},
    shapes={"DAdapter": Shape(DA + ".DictAdapter", {"context": "@Context"})},
    callees={"Adapter.get_adapter": _va_policy, "Adapter.assign": dict_child_assign, "ast.literal_eval": p_literal_eval, "warnings.warn_explicit": "havoc",
             "Adapter.value_assign": "inline", "ValueAdapter": "inline"},
    returns=None,
    result_name="ret",
    uses=["val", "E1"],
    requires={
        # established by DictAdapter.items / UndecidedValue: the value was obtained by evaluating the node
        "denotes": "implies(old_node is not None and isinstance_node(old_node, 'Dict'), len(old_node.values) == len(old_node.keys))",
    },
    loops={
        0: Loop(index="k0", inv={"no-star-so-far": "all(old_node.keys[j] is not None for j in range(0, k0))", "nothing-yet": "len(trace) == 0"}),
        1: Loop(index="k1", inv={"nothing-yet": "len(trace) == 0"}),
        2: Loop(index="k2", inv={
            "deletes-only-dropped-keys": "all(trace[j].kind == 'Delete' and trace[j].flag == 'fix' for j in range(0, len(trace)))",
        }),
        3: Loop(index="k3", inv={
            "result-keys": "len(assoc(result)) == k3 and all(assoc(result)[i][0] == dkeys(new_value)[i] for i in range(0, k3))",
            "result-values": "all(T(eq(assoc(result)[i][1], dget(new_value, dkeys(new_value)[i]))) for i in range(0, k3))",
            "insert-pos": "0 <= insert_pos and insert_pos <= k3",
            "pending-inserts-are-new-keys": "all(not dhas(old_value, to_insert[i][0]) for i in range(0, len(to_insert)))",
        }),
    },
    ensures={
        # C02: the recorded dict has exactly the new keys, in the new order, with values equal to the new values
        "result-has-the-new-keys-in-order [C02]": "ifdef(['k3'], len(assoc(ret)) == len(dkeys(new_value)) and all(assoc(ret)[i][0] == dkeys(new_value)[i] for i in range(0, len(dkeys(new_value)))))",
        "result-values-equal-the-new-values [C02]": "ifdef(['k3'], all(T(eq(assoc(ret)[i][1], dget(new_value, dkeys(new_value)[i]))) for i in range(0, len(dkeys(new_value)))))",
        # C05/C02: a display whose entries do not correspond one to one to the entries of the value it evaluates to (a repeated key)
        # cannot be edited entry by entry - keys would be paired with the wrong value nodes: it is replaced as a whole
        "display-not-matching-the-value-is-only-replaced-as-a-whole [C05,C02,C11]": "implies(old_node is not None and isinstance_node(old_node, 'Dict')"
            " and all(old_node.keys[j] is not None for j in range(0, len(old_node.keys))) and len(dkeys(old_value)) != len(old_node.keys),"
            " all(same(trace[j].node, old_node) for j in range(0, len(trace))))",
        # C10: "containers holding star-expressions are never altered by any category"
        "star-container-is-frozen [C10]": "implies(old_node is not None and isinstance_node(old_node, 'Dict')"
            " and any(old_node.keys[j] is None for j in range(0, len(old_node.keys))), same(ret, old_value) and len(trace) == 0)",
    },
    raises={"AssertionError": {"only-the-key-order-sanity-check [C18]": "True"}},
    ghost={"props": ["C11", "C10", "C03", "C16"], "assoc_dict_ty": "Tuple[Val,Val]", "none_list_ty": "Node", "locals": {"to_insert": "List[Tuple[Val,Val]]"},
           "untracked": ["new_code", "node_value"], "light_feasibility": True},
    safety_props=["C18"],
    assumes=["PS5", "E1", "X3"],
)


def s_isinstance_node(I, n, name):
    return SV(z3.Function("isinst_" + name, sort_of(Abs("Node")), z3.BoolSort())(n.t), BOOL)


SPEC_NS["isinstance_node"] = s_isinstance_node

# ---------------------------------------------------------------------------------------------- SequenceAdapter.assign

from pyvc.core import zint as _zint
from pyvc.types import Obj as _O2, SSet as _SSet

SA = "inline_snapshot._adapter.sequence_adapter"


def p_defaultdict(I, args, kwargs, node):
    """to_insert = defaultdict(list): only the set of keys (insert positions) is tracked; the lists are opaque."""
    d = _O2("defaultdict", {})
    I.ghost["ins_positions"] = _SSet(z3.K(z3.IntSort(), z3.BoolVal(False)), INT)

    def getitem(I2, key):
        k = _zint(key)
        I2.oblige("safety", "insert-position-within-old-elements [C18,C02]", z3.And(k >= 0, k <= I2.param_env.lookup("old_value").nz()))
        cur = I2.ghost["ins_positions"]
        I2.ghost["ins_positions"] = _SSet(z3.Store(cur.pred, k, True), INT)
        return _O2("insert-list", {"append": lambda I3, x: None})

    def items(I2):
        its = fresh_value(I2.ctx, parse_ty("List[Tuple[Int,Codes]]"), "to_insert_items")
        acc = sort_of(parse_ty("Tuple[Int,Codes]")).accessor(0, 0)
        i = z3.Int(I2.ctx.fresh_name("pi"))
        pred = I2.ghost["ins_positions"].pred
        I2.ctx.assume(z3.ForAll([i], z3.Implies(z3.And(0 <= i, i < its.nz()), z3.Select(pred, acc(z3.Select(its.arr, i)))), patterns=[z3.Select(its.arr, i)]), tag="dict-items")
        return its

    d.fields["__getitem__"] = getitem
    d.fields["items"] = items
    return d


def p_listinsert(I, args, kwargs, node):
    return _O2("inline_snapshot._change.ListInsert", {"flag": args[0], "file": args[1], "node": args[2], "position": args[3], "new_code": Opaque("codes"), "new_values": Opaque("values")})


def s_itpos(I, it):
    p = it.pos
    return p if isinstance(p, int) else SV(p, INT)


SPEC_NS["itpos"] = s_itpos


def seq_child_assign(I, args, kwargs, node):
    """child call inside SequenceAdapter.assign: the element handed down is paired with *its own* node (C11/C10/C03),
    then the child's generic contract is assumed (induction over the structure): P-val under E1."""
    o, nd, n = args[-3], args[-2], args[-1]
    env = I.param_env
    old_value, old_node = env.lookup("old_value"), env.lookup("old_node")
    elts = I.getattr(old_node, "elts")
    q = z3.Int(I.ctx.fresh_name("q"))
    nt = nd.t if isinstance(nd, SV) else (I.V.none_const(Abs("Node")) if nd is None else z3.Const(I.ctx.fresh_name("unknown_node"), sort_of(Abs("Node"))))
    good = z3.Exists([q], z3.And(0 <= q, q < old_value.nz(), val_term(I, o) == z3.Select(old_value.arr, q),
                                 z3.If(old_node.t != I.V.none_const(Abs("Node")), nt == z3.Select(elts.arr, q), nt == I.V.none_const(Abs("Node")))))
    I.oblige("call-pre", f"child-gets-the-node-of-its-own-element@{getattr(node, 'lineno', '?')} [C11,C10,C03,C02]", good)
    g = abstract_assign(I, args, kwargs, node)
    eqf = z3.Function("eq_Val", sort_of(VAL), sort_of(VAL), sort_of(VAL))
    tr = z3.Function("truthy_Val", sort_of(VAL), z3.BoolSort())
    I.ctx.assume(tr(eqf(g.fields["value"].t, val_term(I, n))), tag="IH-child-P-val")
    return g


for cls, seqty, nodecls in (("ListAdapter", "List[Val]", "List"), ("TupleAdapter", "TupleSeq[Val]", "Tuple")):
    contract(
        SA + ".SequenceAdapter.assign",
        name=f"{SA}.SequenceAdapter.assign#{cls}",
        self_cls=f"{SA}.{cls}",
        params={"self": "@SAdapter", "old_value": seqty, "old_node": "Node", "new_value": seqty},
        shapes={"SAdapter": Shape(SA + ".SequenceAdapter", {"context": "@Context"})},
        callees={"Adapter.get_adapter": _va_policy, "Adapter.assign": seq_child_assign, "warnings.warn_explicit": "havoc", "Adapter.value_assign": "inline",
                 "ValueAdapter": "inline", "inline_snapshot._compare_context.compare_context": "havoc", "collections.defaultdict": p_defaultdict,
                 "defaultdict": p_defaultdict, "ListInsert": p_listinsert},
        returns=None,
        result_name="ret",
        uses=["val", "E1", "cnt"],
        requires={
            # established by SequenceAdapter.items / UndecidedValue: the value was obtained by evaluating the node
            "denotes": f"implies(old_node is not None and isinstance_node(old_node, '{nodecls}'), len(old_node.elts) == len(old_value))",
        },
        loops={
            0: Loop(index="k0", inv={"nothing-yet": "len(trace) == 0",
                                     "no-star-so-far": "all(not isinstance_node(old_node.elts[j], 'Starred') for j in range(0, k0))"}),
            1: Loop(index="t", ghost_modifies=["ins_positions"], inv={
                "lemma-instances": "use_cnt_facts(diff, 'mxd', t) and use_cnt_facts(diff, 'mxi', t)",
                "old-consumed": "itpos(old) == cnt(diff, 'mxd', t) and old_position == itpos(old)",
                "new-consumed": "itpos(new) == cnt(diff, 'mxi', t) and len(result) == itpos(new)",
                "result-equals-new-so-far": "all(T(eq(result[j], new_value[j])) for j in range(0, len(result)))",
            }),
            2: Loop(index="k2", ghost_modifies=[], inv={"trivial": "True"}),
        },
        ensures={
            # C02: the recorded value has the new length and every element equals the new element (E1, children by induction)
            "result-equals-the-new-sequence [C02]": "ifdef(['diff'], len(ret) == len(new_value) and all(T(eq(ret[j], new_value[j])) for j in range(0, len(new_value))))",
            # C10: "containers holding star-expressions are never altered by any category"
            "star-container-is-frozen [C10]": f"implies(old_node is not None and isinstance_node(old_node, '{nodecls}')"
                " and any(isinstance_node(old_node.elts[j], 'Starred') for j in range(0, len(old_node.elts))), same(ret, old_value) and len(trace) == 0)",
        },
        ghost={"vars": {"ins_positions": "=None"}, "none_list_ty": "Node", "locals": {"result": "List[Val]"}, "untracked": ["new_code"],
               "props": ["C11", "C10", "C03", "C18"], "light_feasibility": False},
        safety_props=["C18"],
        assumes=["E1", "X3", "X9"],
    )

# ---------------------------------------------------------------------------------------------- GenericCallAdapter.map

GC = "inline_snapshot._adapter.generic_call_adapter"


def p_arguments(I, args, kwargs, node):
    """cls.arguments(value) -> (positional Argument list, keyword Argument dict): abstract (dataclasses/attrs/pydantic introspection)"""
    a = fresh_value(I.ctx, parse_ty("List[Val]"), "pos_args")
    I.ghost["pos_args"] = a
    I.ghost["kw_args"] = Opaque("new_kwargs")
    return (Opaque("new_args"), Opaque("new_kwargs"))


def pat_map_pos(I, n, env):
    """[adapter_map(arg.value, map_function) for arg in new_args]: every positional argument goes through adapter_map (PS2);
    with an added `if` filter not every one does"""
    I.ghost["mapped_all_positional"] = not I.V.pattern_filtered
    return Opaque("mapped positional")


pat_map_pos.accepts_filter = True


def pat_map_kw(I, n, env):
    """{k: adapter_map(kwarg.value, map_function) for k, kwarg in new_kwargs.items()}: every keyword argument -- including the
    ones equal to their default -- goes through adapter_map"""
    I.ghost["mapped_all_keywords"] = not I.V.pattern_filtered
    return Opaque("mapped keywords")


pat_map_kw.accepts_filter = True


def p_type_call(I, *a):
    def ctor(I2, *a, **k):
        I2.ghost["rebuilt"] = True
        return Opaque("rebuilt value")

    return ctor


contract(
    GC + ".GenericCallAdapter.map",
    params={"cls": "Opaque", "value": "Val", "map_function": "Opaque"},
    callees={"GenericCallAdapter.arguments": p_arguments, "arguments": p_arguments, "type": p_type_call},
    extern_patterns={
        "[adapter_map(arg.value, map_function) for arg in new_args]": pat_map_pos,
        "{k: adapter_map(kwarg.value, map_function) for (k, kwarg) in new_kwargs.items()}": pat_map_kw,
    },
    ghost={"vars": {"mapped_all_positional": "=False", "mapped_all_keywords": "=False", "rebuilt": "=False", "pos_args": "=None", "kw_args": "=None"},
           "havoc_unknown_externals": True},
    ensures={
        # C10: UndecidedValue wraps Is()/nested snapshots by mapping map_unmanaged over *every* argument of a constructor call;
        # an argument that is skipped (e.g. because it equals its default) loses its Unmanaged wrapper and gets rewritten
        "every-argument-is-mapped [C10,C06,C07,C14]": "mapped_all_positional and mapped_all_keywords and rebuilt",
    },
    safety_props=["C18"],
    assumes=["PS2"],
)

# ---------------------------------------------------------------------------------------------- SequenceAdapter.map


from pyvc.defaults import SHAPES as _SHAPES


def pat_map_elements(I, n, env):
    """[adapter_map(v, map_function) for v in value]: every element goes through adapter_map (PS2)"""
    I.ghost["mapped_all_elements"] = not I.V.pattern_filtered
    return Opaque("mapped elements")


pat_map_elements.accepts_filter = True


def _seq_cls(I):
    def value_type(I2, items):
        I2.ghost["rebuilt_from"] = items
        I2.ghost["n_rebuilt"] = I2.ghost["n_rebuilt"] + 1
        o = _O2("new-container", {})
        I2.ghost["new_container"] = o
        return o

    return value_type


_SHAPES.update({"SeqCls": Shape("type", {"value_type": lambda I, items: _seq_cls(I)(I, items)})})

contract(
    SA + ".SequenceAdapter.map",
    params={"cls": "@SeqCls", "value": "Opaque", "map_function": "Opaque"},
    extern_patterns={"[adapter_map(v, map_function) for v in value]": pat_map_elements},
    ghost={"vars": {"mapped_all_elements": "=False", "n_rebuilt": "=0", "rebuilt_from": "=None", "new_container": "=None"}, "havoc_unknown_externals": True},
    returns=None,
    result_name="ret",
    ensures={
        # C10: every element is wrapped where needed; C14/C17: the stored argument is a *new* container - never the object the
        # hand-written argument evaluated to (comparing that object with itself at the next evaluation detects no change)
        "new-container-of-the-mapped-elements [C14,C17,C10]": "mapped_all_elements and n_rebuilt == 1 and ret is new_container",
    },
    safety_props=["C18"],
    assumes=["PS2"],
)


def pat_map_dict(I, n, env):
    """{k: adapter_map(v, map_function) for k, v in value.items()}: a new dict with every value mapped (PS2)"""
    I.ghost["mapped_all_elements"] = not I.V.pattern_filtered
    o = _O2("new-container", {})
    I.ghost["new_container"] = o
    return o


pat_map_dict.accepts_filter = True


contract(
    DA + ".DictAdapter.map",
    params={"cls": "Opaque", "value": "Opaque", "map_function": "Opaque"},
    extern_patterns={"{k: adapter_map(v, map_function) for (k, v) in value.items()}": pat_map_dict},
    ghost={"vars": {"mapped_all_elements": "=False", "new_container": "=None"}, "havoc_unknown_externals": True},
    returns=None,
    result_name="ret",
    ensures={"new-dict-of-the-mapped-values [C14,C17,C10]": "mapped_all_elements and ret is new_container"},
    safety_props=["C18"],
    assumes=["PS2"],
)

# ---------------------------------------------------------------------------------------------- DictAdapter.items / SequenceAdapter.items


def dict_values(I, args, kwargs, node):
    d = args[0]
    l = _keys(I, d)
    vals = fresh_value(I.ctx, parse_ty("List[Val]"), "values")
    i = z3.Int(I.ctx.fresh_name("vi"))
    I.ctx.assume(vals.nz() == l.nz())
    I.ctx.assume(z3.ForAll([i], z3.Implies(z3.And(0 <= i, i < l.nz()), z3.Select(vals.arr, i) == _dget(d.t, z3.Select(l.arr, i))), patterns=[z3.Select(vals.arr, i)]), tag="values")
    return vals


DEFAULT_POLICIES["attrs"].update({"DictV.values": dict_values})


def pat_items_without_nodes(I, n, env):
    """[Item(value=value, node=None) for value in value.values()] / [Item(value=v, node=None) for v in value]: one item per element,
    in order, without nodes (list-comprehension semantics, PS2)"""
    src = I.eval(n.generators[0].iter, env)
    items = fresh_value(I.ctx, parse_ty("List[Item]"), "items_without_nodes")
    IT = sort_of(parse_ty("Item"))
    mk = IT.constructor(0)
    i = z3.Int(I.ctx.fresh_name("wi"))
    I.ctx.assume(items.nz() == src.nz())
    I.ctx.assume(z3.ForAll([i], z3.Implies(z3.And(0 <= i, i < src.nz()), z3.Select(items.arr, i) == mk(z3.Select(src.arr, i), I.V.none_const(Abs("Node")))),
                           patterns=[z3.Select(items.arr, i)]), tag="items")
    return items


def p_item_ctor(I, args, kwargs, node):
    """Item(value=..., node=...) as a value record"""
    v, nd = kwargs.get("value", args[0] if args else None), kwargs.get("node", args[1] if len(args) > 1 else None)
    nt = nd.t if isinstance(nd, SV) else I.V.none_const(Abs("Node"))
    return Obj("Item", {"value": SV(val_term(I, v), VAL), "node": SV(nt, Abs("Node"))}, rec=parse_ty("Item"))


ITEMS_VALUES = "len(ret) == len(dkeys(value)) and all(same(ret[j].value, dget(value, dkeys(value)[j])) for j in range(0, len(ret)))"

contract(
    DA + ".DictAdapter.items",
    params={"cls": "Opaque", "value": "DictV", "node": "Node"},
    callees={"ast.literal_eval": p_literal_eval, "Item": p_item_ctor, "inline_snapshot._adapter.adapter.Item": p_item_ctor},
    extern_patterns={"[Item(value=value, node=None) for value in value.values()]": pat_items_without_nodes},
    requires={"denotes": "implies(node is not None and isinstance_node(node, 'Dict'), len(node.values) == len(node.keys) and len(node.keys) == len(dkeys(value)))"},
    returns=None,
    result_name="ret",
    loops={0: Loop(index="k", ghost_modifies=[], inv={
        "one-item-per-entry-so-far": "len(result) == k and all(same(result[j].value, dget(value, dkeys(value)[j])) and same(result[j].node, node.values[j]) for j in range(0, k))"})},
    ensures={
        # C06/C14/C10: _re_eval refreshes Is(...) / nested snapshots through these items on every evaluation, _get_changes finds the
        # editable nodes through them: every entry of the value has its item, whether or not the argument is a dict display
        "one-item-per-entry-in-order [C06,C14,C10,C11]": ITEMS_VALUES,
        "nodes-of-a-display-by-position [C11,C10,C03]": "implies(node is not None and isinstance_node(node, 'Dict'), all(same(ret[j].node, node.values[j]) for j in range(0, len(ret))))",
        "no-nodes-without-a-display [C18,C03]": "implies(node is None or not isinstance_node(node, 'Dict'), all(ret[j].node is None for j in range(0, len(ret))))",
    },
    raises={"AssertionError": {"only-the-key-order-sanity-check [C18]": "True"}},
    ghost={"locals": {"result": "List[Item]"}, "asserts_raise": True},
    frame=[],
    safety_props=["C18"],
    assumes=["PS5"],
)


def pat_items_with_nodes(I, n, env):
    """[Item(value=v, node=n) for v, n in zip(value, node.elts)]: element i paired with node i"""
    value, node = env.lookup("value"), env.lookup("node")
    elts = I.getattr(node, "elts")
    items = fresh_value(I.ctx, parse_ty("List[Item]"), "items_with_nodes")
    mk = sort_of(parse_ty("Item")).constructor(0)
    i = z3.Int(I.ctx.fresh_name("wi"))
    n_ = z3.If(value.nz() < elts.nz(), value.nz(), elts.nz())
    I.ctx.assume(items.nz() == n_)
    I.ctx.assume(z3.ForAll([i], z3.Implies(z3.And(0 <= i, i < n_), z3.Select(items.arr, i) == mk(z3.Select(value.arr, i), z3.Select(elts.arr, i))),
                           patterns=[z3.Select(items.arr, i)]), tag="items")
    return items


from pyvc.types import ClassRef as _ClassRef

for cls, nodecls in (("ListAdapter", "List"), ("TupleAdapter", "Tuple")):
    contract(
        SA + ".SequenceAdapter.items",
        name=f"{SA}.SequenceAdapter.items#{cls}",
        params={"cls": f"@SeqItemsCls{nodecls}", "value": "List[Val]", "node": "Node"},
        shapes={f"SeqItemsCls{nodecls}": Shape("type", {"node_type": _ClassRef(nodecls, "ast." + nodecls)})},
        extern_patterns={"[Item(value=v, node=None) for v in value]": pat_items_without_nodes,
                         "[Item(value=v, node=n) for (v, n) in zip(value, node.elts)]": pat_items_with_nodes},
        returns=None,
        result_name="ret",
        ensures={
            "one-item-per-element-in-order [C06,C14,C10,C11]": "len(ret) == len(value) and all(same(ret[j].value, value[j]) for j in range(0, len(ret)))",
            "nodes-of-a-display-by-position [C11,C10,C03]": f"implies(node is not None and isinstance_node(node, '{nodecls}'), all(same(ret[j].node, node.elts[j]) for j in range(0, len(ret))))",
            "no-nodes-without-a-display [C18,C03]": f"implies(node is None or not isinstance_node(node, '{nodecls}'), all(ret[j].node is None for j in range(0, len(ret))))",
        },
        raises={"AssertionError": {"display-and-value-differ-in-length [C18]": f"node is not None and isinstance_node(node, '{nodecls}') and len(value) != len(node.elts)"}},
        ghost={"asserts_raise": True},
        frame=[],
        safety_props=["C18"],
    )
