"""Verify contracts: python -m pyvc.run <target-substring> ..."""
from __future__ import annotations

import importlib
import pkgutil
import sys
import time

from . import extract, specs
from .contract import REGISTRY
from .solve import discharge_all
from .verify import Verifier

from .defaults import DEFAULT_POLICIES, SHAPES


def load_sidecars():
    import contracts

    for m in pkgutil.iter_modules(contracts.__path__):
        importlib.import_module(f"contracts.{m.name}")


def verify_target(target, seed=0, solve=True):
    c = REGISTRY[target]
    v = Verifier(c, dict(specs.SPEC_NS), specs.AXIOM_SETS, DEFAULT_POLICIES, SHAPES)
    obs = v.run()
    if solve:
        discharge_all(obs, v.axioms(), seed)
    return v, obs


def main(argv):
    load_sidecars()
    pats = argv or [""]
    for t in REGISTRY:
        if not any(p in t for p in pats):
            continue
        t0 = time.time()
        v, obs = verify_target(t)
        st = {}
        for o in obs:
            st[o.status] = st.get(o.status, 0) + 1
        print(f"== {t}: paths={v.paths} ended={v.ended} obligations={len(obs)} {st} errors={v.errors} wall={time.time()-t0:.1f}s")
        for o in obs:
            if o.status != "discharged":
                print(f"   {o.status:9s} {o.oid}#p{o.path} [{','.join(o.props)}] {o.where} {o.backend} {o.detail}")
                if o.model and "-v" in sys.argv:
                    print("      " + o.model.replace("\n", "\n      ")[:1500])


if __name__ == "__main__":
    main([a for a in sys.argv[1:] if not a.startswith("-")])
