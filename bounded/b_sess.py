"""B-sess: real pytest sessions of the real plugin on small generated projects.

C04  nothing is written without approval; exactly the approved categories apply
C07  a wrong or missing snapshot never yields a green run
C13  external storage stays consistent over a history of sessions

Bounded stand-in only (finite grid of flag sources x category subsets x a few generated templates).
"""
from __future__ import annotations

import hashlib
import itertools
import random
import re
import time
import traceback
from concurrent.futures import ThreadPoolExecutor

from bounded import standin

from ._sessions import (
    CATS,
    PYPROJECT_PLAIN,
    Deadline,
    Failures,
    Project,
    Skipped,
    check_outcomes,
    diff_trees,
    expected_outcomes,
    have_xdist,
    replay_script,
    result_for,
    same_ast,
    set_deadline,
    step_src,
    tail,
)

ALL_SUBSETS = [tuple(c for c, b in zip(CATS, bits) if b) for bits in itertools.product((0, 1), repeat=4)]

# ---------------------------------------------------------------------------- template projects

# operations of the failing comparison in each test (used for the F4 predicate)
OP_OF_TEST = {
    "test_in_fix": "in",
    "test_ge_fix": ">=",
    "test_le_fix": "<=",
}


def make_template(rng):
    """a project with pending changes in all four categories (several operations), one clean module, one xfail"""
    v = rng.randrange(5, 60)
    s = rng.choice(["a", "b c", "xyz", "q"])
    d = rng.randrange(1, 4)
    t = f'''from inline_snapshot import snapshot


def test_create():
    assert {v} == snapshot()


def test_fix():
    assert {v} == snapshot({v - d})


def test_trim():
    assert {v} <= snapshot({v + d})


def test_update():
    assert "{s}" == snapshot(\'\'\'{s}\'\'\')


def test_ok():
    assert [1, {v}] == snapshot([1, {v}])


def test_in_create():
    assert {v} in snapshot()


def test_in_fix():
    assert {v} in snapshot([{v - d}])


def test_in_trim():
    assert {v} in snapshot([{v}, {v + d}])


def test_ge_fix():
    assert {v} >= snapshot({v + d})


def test_le_fix():
    assert {v} <= snapshot({v - d})


def test_ge_trim():
    assert {v} >= snapshot({v - d})


def test_key_create():
    s = snapshot()
    assert {v} == s["k"]


def test_key_fix():
    s = snapshot({{"k": {v - d}}})
    assert {v} == s["k"]


def test_key_trim():
    s = snapshot({{"k": {v}, "j": 2}})
    assert {v} == s["k"]


def test_mixed():
    assert [{v}, "{s}", 3] == snapshot([{v + d}, \'\'\'{s}\'\'\', 3])


def test_loop_fix():
    for _ in range(2):
        assert {v} == snapshot({v + 1})


def test_second_wrong():
    assert 1 == snapshot(1)
    assert {v} == snapshot({v + 2})
'''
    clean = f'''from inline_snapshot import snapshot


def test_c():
    assert {v} == snapshot({v})
    assert {v} <= snapshot({v})
    assert {v} in snapshot([{v}])
'''
    xf = f'''import pytest
from inline_snapshot import snapshot


@pytest.mark.xfail
def test_x_create():
    assert {v} == snapshot()


@pytest.mark.xfail
def test_x_fix():
    assert {v} == snapshot({v + 1})
'''
    # xfail marks inherited from the class / the module (pytestmark): such tests are "marked xfail" as well (C04)
    xf_cls = f'''import pytest
from inline_snapshot import snapshot


@pytest.mark.xfail
class TestX:
    def test_x_cls_create(self):
        assert {v} == snapshot()

    def test_x_cls_fix(self):
        assert {v} == snapshot({v + 1})
'''
    xf_mod = f'''import pytest
from inline_snapshot import snapshot

pytestmark = pytest.mark.xfail


def test_x_mod_create():
    assert {v} == snapshot()


def test_x_mod_fix():
    assert {v} == snapshot({v + 1})
'''
    return {"test_t.py": t, "test_clean.py": clean, "test_x.py": xf, "test_x_cls.py": xf_cls, "test_x_mod.py": xf_mod,
            "pyproject.toml": PYPROJECT_PLAIN}


FAILING_TESTS = ["test_create", "test_fix", "test_in_create", "test_in_fix", "test_ge_fix", "test_le_fix",
                 "test_key_create", "test_key_fix", "test_mixed", "test_loop_fix", "test_second_wrong"]


# ---------------------------------------------------------------------------- cases


class Case(dict):
    __getattr__ = dict.__getitem__


def mk(tid, mode, F=(), args=(), env=None, stdin=b"", approved=(), pyproject=None, usage_error=False, select=None,
       review=False):
    return Case(tid=tid, mode=mode, F=tuple(F), args=list(args), env=dict(env or {}), stdin=stdin,
                approved=tuple(c for c in CATS if c in approved), pyproject=pyproject, usage_error=usage_error,
                select=select, review=review)


def fl(F, *more):
    return ",".join([*F, *more])


def toml_list(F):
    return "[" + ", ".join(f'"{f}"' for f in F) + "]"


def case_of(tid, mode, F, xdist):
    """the grid: one case for (template, mode, F)"""
    if mode == "none":
        return mk(tid, mode, F, [f"--inline-snapshot={fl(F)}"] if F else [], approved=F)
    if mode == "report":
        return mk(tid, mode, F, [f"--inline-snapshot={fl(F, 'report')}"], approved=F)
    if mode == "short-report":
        return mk(tid, mode, F, [f"--inline-snapshot={fl(F, 'short-report')}"], approved=())
    if mode == "review-answers":  # no category flag; 'y' exactly for the categories in F (prompt order = CATS)
        ans = b"".join(b"y\n" if c in F else b"n\n" for c in CATS)
        return mk(tid, mode, F, ["--inline-snapshot=review"], stdin=ans, approved=F, review=True)
    if mode == "review+F-all-n":  # flags F together with review; every prompt answered n
        return mk(tid, mode, F, [f"--inline-snapshot={fl(F, 'review')}"], stdin=b"n\n" * 4, approved=F, review=True)
    if mode == "env":
        if not F:  # "".split(",") == [""]  ->  unknown flag ''  -> usage error
            return mk(tid, mode, F, [], env={"INLINE_SNAPSHOT_DEFAULT_FLAGS": ""}, usage_error=True)
        return mk(tid, mode, F, [], env={"INLINE_SNAPSHOT_DEFAULT_FLAGS": fl(F)}, approved=F)
    if mode == "pyproject":
        return mk(tid, mode, F, [], approved=F, pyproject=PYPROJECT_PLAIN + f"default-flags = {toml_list(F)}\n")
    if mode == "ci":
        return mk(tid, mode, F, [f"--inline-snapshot={fl(F)}"], env={"CI": "true"}, approved=())
    if mode == "xdist-env":
        assert xdist
        env = {"INLINE_SNAPSHOT_DEFAULT_FLAGS": fl(F)} if F else {}
        return mk(tid, mode, F, ["-n", "2"], env=env, approved=())
    if mode == "xdist-pyproject":
        assert xdist
        return mk(tid, mode, F, ["-n", "2"], approved=(), pyproject=PYPROJECT_PLAIN + f"default-flags = {toml_list(F)}\n")
    raise ValueError(mode)


GRID_MODES = ["none", "report", "short-report", "review-answers", "review+F-all-n", "env", "pyproject", "ci"]


def extra_cases(tid, xdist, rng, quick):
    allf = CATS
    out = [
        mk(tid, "disable", (), ["--inline-snapshot=disable"]),
        mk(tid, "disable+fix (usage error)", ("fix",), ["--inline-snapshot=disable,fix"], usage_error=True),
        mk(tid, "shortcut --fix", ("create", "fix"), ["--fix"], approved=("create", "fix")),
        mk(tid, "precedence CLI>env>pyproject", ("trim",), ["--inline-snapshot=trim"],
           env={"INLINE_SNAPSHOT_DEFAULT_FLAGS": "fix"}, approved=("trim",),
           pyproject=PYPROJECT_PLAIN + 'default-flags = ["create"]\n'),
        mk(tid, "ci GITHUB_ACTIONS", allf, [f"--inline-snapshot={fl(allf)}"], env={"GITHUB_ACTIONS": "true"}),
    ]
    more = [
        mk(tid, "empty option", (), ["--inline-snapshot="]),
        mk(tid, "precedence env>pyproject", ("update",), [], env={"INLINE_SNAPSHOT_DEFAULT_FLAGS": "update"},
           approved=("update",), pyproject=PYPROJECT_PLAIN + 'default-flags = ["create"]\n'),
        mk(tid, "custom shortcut", ("trim", "update"), ["--tidy"], approved=("trim", "update"),
           pyproject=PYPROJECT_PLAIN + '[tool.inline-snapshot.shortcuts]\ntidy = ["trim", "update"]\n'),
        mk(tid, "shortcut --review all y", allf, ["--review"], stdin=b"y\n" * 4, approved=allf, review=True),
        mk(tid, "ci TEAMCITY_VERSION but PYCHARM_HOSTED", ("fix",), ["--inline-snapshot=fix"],
           env={"TEAMCITY_VERSION": "1", "PYCHARM_HOSTED": "1"}, approved=("fix",)),
        mk(tid, "ci TRAVIS + env flags", allf, [], env={"TRAVIS": "1", "INLINE_SNAPSHOT_DEFAULT_FLAGS": fl(allf)}),
        mk(tid, "ci JENKINS_URL + review all y", allf, ["--inline-snapshot=review"], stdin=b"y\n" * 4,
           env={"JENKINS_URL": "http://x"}, review=True),
        mk(tid, "unknown flag (usage error)", (), ["--inline-snapshot=fix,bogus"], usage_error=True),
        mk(tid, "tty without option (default-flags-tui = create,review), all n", ("create",), [], stdin=b"n\n" * 4,
           approved=("create",), review=True),
        mk(tid, "report+review all n", (), ["--inline-snapshot=report,review"], stdin=b"n\n" * 4, review=True),
        mk(tid, "short-report+review all y", (), ["--inline-snapshot=short-report,review"], stdin=b"y\n" * 4,
           review=True),
    ]
    if xdist:
        out.append(mk(tid, "xdist + CLI fix (usage error)", ("fix",), ["-n", "2", "--inline-snapshot=fix"],
                      usage_error=True))
        more += [
            mk(tid, "xdist -n 0 + CLI flags (xdist not running)", ("fix", "trim"), ["-n", "0", "--inline-snapshot=fix,trim"],
               approved=("fix", "trim")),
            mk(tid, "xdist + CLI disable", (), ["-n", "2", "--inline-snapshot=disable"]),
        ]
    return out if quick else out + more


def select_cases(tid, flags_list, tests, mode_tag):
    """single-test sessions (-k) so that the exit status reflects that test alone (C07)"""
    out = []
    for t in tests:
        for f in flags_list:
            stdin = b""
            args = [f"--inline-snapshot={f}", "-k", t] if f is not None else ["-k", t]
            review = f is not None and "review" in f
            if review:
                stdin = b"n\n" * 4 if mode_tag.get(f, "n") == "n" else b"y\n" * 4
            out.append(mk(tid, f"-k {t} flags={f}", tuple(x for x in (f or "").split(",") if x in CATS), args,
                          stdin=stdin, select=t, review=review))
    return out


# ---------------------------------------------------------------------------- running / checking


def project_files(template, case):
    files = dict(template)
    if case.pyproject is not None:
        files["pyproject.toml"] = case.pyproject
    return files


def run_case(template, case):
    files = project_files(template, case)
    with Project(files) as p:
        r = p.run(case.args, env=case.env, stdin=case.stdin, tty=bool(case.stdin))
    return r


def c04_violations(case, r, expected_tree):
    """compare the result of one session with 'exactly the approved categories were applied'

    expected_tree: project tree after applying case.approved one category per session (None if nothing approved)"""
    bad = []
    if not case.approved:
        for d in diff_trees(r.before, r.after):
            bad.append(f"nothing approved but: {d}")
        return bad
    got = r.after
    for k in sorted(r.before):
        # absolute oracle (independent of the expectation chain): modules whose tests are all marked xfail never change
        if k.startswith("test_x") and k in got and got[k] != r.before[k]:
            bad.append(f"{k}: modified although every test in it is marked xfail")
    for k in sorted(set(got) | set(expected_tree) | set(r.before)):
        if k not in got:
            bad.append(f"{k}: deleted")
            continue
        if k not in r.before:
            bad.append(f"{k}: new file appeared")
            continue
        if not k.endswith(".py") or k not in expected_tree:
            if got[k] != r.before[k]:
                bad.append(f"{k}: non-test file modified")
            continue
        exp = expected_tree[k]
        if exp == r.before[k]:
            if got[k] != r.before[k]:
                bad.append(f"{k}: modified although no approved change is pending there")
        elif not same_ast(got[k], exp):
            bad.append(f"{k}: differs (AST) from applying {list(case.approved)} one category per session\n"
                       f"--- got\n{got[k].decode(errors='replace')}\n--- expected\n{exp.decode(errors='replace')}")
    return bad


def effective_ignore_old(case):
    """does the session run comparisons in 'ignore the old value' mode (fix/update in update_flags)?"""
    words = set()
    for a in case.args:
        if a.startswith("--inline-snapshot="):
            words |= set(a.split("=", 1)[1].split(","))
    if case.args and case.args[0] in ("--fix",):
        words |= {"create", "fix"}
    if "INLINE_SNAPSHOT_DEFAULT_FLAGS" in case.env and not any(a.startswith("--inline-snapshot") for a in case.args):
        words |= set(case.env["INLINE_SNAPSHOT_DEFAULT_FLAGS"].split(","))
    words |= set(case.F)
    return bool(words & {"fix", "update", "review"}) or case.review


def f4_predicate(case, test, exp, obs):
    """F4: a failing `<=`/`>=`/`in` comparison against a non-empty snapshot is green when fix/update/review
    is in effect (the comparison returns True without counting the incorrect value)."""
    name = test.split("::")[-1]
    return (exp == "fail" and obs == ["passed"] and name in OP_OF_TEST and effective_ignore_old(case)
            and not case.env.keys() & {"CI", "GITHUB_ACTIONS", "TRAVIS", "JENKINS_URL"})


def xdist_n(args):
    """number of xdist workers requested on the command line (0 if none)"""
    n = 0
    for i, a in enumerate(args):
        v = None
        if a == "-n" and i + 1 < len(args):
            v = args[i + 1]
        elif a.startswith("-n") and a[2:].isdigit():
            v = a[2:]
        elif a.startswith("--numprocesses="):
            v = a.split("=", 1)[1]
        if v is not None:
            n = int(v) if v.isdigit() else 2
    return n


def f18_predicate(case, r):
    """F18: xdist run with N>0 workers, no --inline-snapshot option on the command line (category flags come from
    INLINE_SNAPSHOT_DEFAULT_FLAGS or pyproject default-flags), nothing may be written, yet a test file changed
    (workers see numprocesses=None, consider xdist not running and apply their changes)."""
    cli = any(a.startswith("--inline-snapshot") or a in ("--fix", "--review") for a in case.args)
    changed = [k for k in set(r.before) | set(r.after) if r.before.get(k) != r.after.get(k)]
    return (xdist_n(case.args) > 0 and not cli and not case.approved and bool(case.F)
            and bool(changed) and all(k.endswith(".py") for k in changed))


def replay_c04(template, case, chain_template):
    body = [
        f"FILES = {project_files(template, case)!r}",
        f"PLAIN = {chain_template!r}",
        f"APPROVED = {list(case.approved)!r}",
        "write(PROJ, FILES)",
        step_src(case.args, case.env, case.stdin),
        "print(r['out'][-3000:])",
        "if not APPROVED:",
        "    assert r['after'] == r['before'], sorted(k for k in set(r['after']) | set(r['before']) if r['after'].get(k) != r['before'].get(k))",
        "else:",
        "    P2 = os.path.join(ROOT, 'p2'); os.mkdir(P2); write(P2, PLAIN)",
        "    for c in APPROVED:",
        "        session(P2, ['--inline-snapshot=' + c])",
        "    exp = tree(P2)",
        "    assert set(r['after']) == set(r['before']), (sorted(r['after']), sorted(r['before']))",
        "    for k, v in r['after'].items():",
        "        if k.endswith('.py') and k in exp:",
        "            assert dump(v) == dump(exp[k]), (k, v.decode(), exp[k].decode())",
        "            if exp[k] == r['before'][k]: assert v == r['before'][k], k",
        "        else:",
        "            assert v == r['before'][k], k",
    ]
    return replay_script("\n".join(body))


def replay_c07(template, case, expected, start_files=None):
    files = start_files if start_files is not None else project_files(template, case)
    body = [
        f"FILES = {files!r}",
        f"EXPECT = {expected!r}   # oracle: snapshot(x) means x, snapshot() is missing",
        "write(PROJ, FILES)",
        step_src(case.args, case.env, case.stdin),
        "print(r['out'][-3000:])",
        "assert r['outcomes'] is not None, r['err']",
        "for t, e in EXPECT.items():",
        "    o = r['outcomes'].get(t)",
        "    if e == 'fail': assert o and o & {'failed', 'error'}, (t, 'must fail', o)",
        "    if e == 'pass': assert o == {'passed'}, (t, 'must pass', o)",
        "if 'fail' in EXPECT.values(): assert r['rc'] != 0, 'green exit status'",
        "else: assert r['rc'] == 0, r['rc']",
    ]
    return replay_script("\n".join(body))


def restrict(expected, select):
    if select is None:
        return expected
    return {k: v for k, v in expected.items() if k.split("::")[-1] == select}


def check_case(template, case, r, chain_trees, fails, chain_template, skipped_any=False):
    """-> number of violations recorded"""
    n = 0
    desc = dict(template=case.tid, mode=case.mode, F=list(case.F), args=case.args, env=case.env,
                stdin=case.stdin.decode(), approved=list(case.approved))
    if case.usage_error:
        bad = [f"usage error expected: {d}" for d in diff_trees(r.before, r.after)]
        if r.rc != 4:
            bad.append(f"expected pytest usage error (exit 4), got {r.rc}")
        if bad:
            n += 1
            fails.add(None, desc, "C04: " + "\n".join(bad) + "\n" + tail(r.out + r.err, 15),
                      replay_c04(template, case, chain_template))
        return n
    # ---- C04
    if case.select is None:
        exp_tree = chain_trees.get((case.tid, case.approved)) if case.approved else None
        if case.approved and exp_tree is None:
            if not skipped_any:
                fails.add(None, desc, "C04: expectation (chain of single-category sessions) unavailable", "")
                n += 1
        else:
            bad = c04_violations(case, r, exp_tree)
            if bad:
                n += 1
                fails.add("F18" if f18_predicate(case, r) else None, desc, "C04: " + "\n".join(bad) + "\n--- session output (tail)\n" + tail(r.out + r.err, 25),
                          replay_c04(template, case, chain_template))
    # ---- C07
    expected = restrict(expected_outcomes(project_files(template, case)), case.select)
    bad = check_outcomes(expected, r)
    tests_bad = [(t, e, o) for t, e, o in bad if not t.startswith("<")]
    for t, e, o in tests_bad:
        n += 1
        finding = "F4" if f4_predicate(case, t, e, o) else None
        fails.add(finding, dict(desc, test=t), f"C07: {t}: expected {e}, reported {o} (exit status {r.rc})\n"
                  + tail(r.out + r.err, 25), replay_c07(template, case, {t: e}))
    for t, e, o in bad:
        if t.startswith("<"):
            n += 1
            green = [(t2, e2, o2) for t2, e2, o2 in tests_bad if e2 == "fail"]
            exp_fail = [k for k, v in expected.items() if v == "fail"]
            finding = None
            if t == "<exit status>" and e == "non-zero" and green and len(green) == len(exp_fail) and all(
                    f4_predicate(case, *g) for g in green):
                finding = "F4"
            fails.add(finding, desc, f"C07: {t}: expected {e}, got {o}\n" + tail(r.out + r.err, 25),
                      replay_c07(template, case, expected))
    return n


# ---------------------------------------------------------------------------- C13 histories


def sha(b):
    return hashlib.sha256(b).hexdigest()


class _Abort(Exception):
    pass


class Hist:
    """a project with a recorded (replayable) history of edits and sessions"""

    def __init__(self, files, src=None):
        self.p = Project(files)
        self.src = list(src) if src is not None else [f"write(PROJ, {dict(files)!r})"]
        self.sessions = 0

    def write(self, files):
        self.p.write(files)
        self.src.append(f"write(PROJ, {dict(files)!r})")

    def run(self, args=(), env=None, stdin=b""):
        self.sessions += 1
        r = self.p.run(args, env=env, stdin=stdin, tty=bool(stdin))
        self.src.append(step_src(args, env, stdin))
        return r

    def fork(self):
        h = Hist(self.p.tree(), src=self.src)
        return h

    def replay(self, check_src):
        return replay_script("\n".join(self.src + ["print(r['out'][-2500:])", check_src]))

    def close(self):
        self.p.close()


def ext_test_src(data, suffix_arg, extra=""):
    sa = f", suffix={suffix_arg!r}" if suffix_arg else ""
    return f'''from inline_snapshot import outsource, snapshot


def test_ext():
    assert outsource({data!r}{sa}) == snapshot()
{extra}'''


def c13_history(variant, fails, samples):
    """variant: dict(datas=[d1,d2,d3] (str or bytes), suffix_arg, hash_length, storage_dir)
    returns number of sessions run"""
    datas = variant["datas"]
    suffix = variant["suffix_arg"] or (".txt" if isinstance(datas[0], str) else ".bin")
    hl = variant["hash_length"]
    sd = variant["storage_dir"]
    pyproject = PYPROJECT_PLAIN
    if hl is not None:
        pyproject += f"hash-length = {hl}\n"
    if sd is not None:
        pyproject += f'storage-dir = "{sd}"\n'
    store = (sd or ".inline-snapshot") + "/external/"
    raw = [d.encode() if isinstance(d, str) else d for d in datas]
    h = [sha(b) for b in raw]
    hlen = hl if hl is not None else 12

    def ref(i):
        return f'external("{h[i]}{suffix}")' if hlen >= 64 else f'external("{h[i][:hlen]}*{suffix}")'

    def stored(tree):
        return {k[len(store):]: v for k, v in tree.items() if k.startswith(store) and not k.endswith(".gitignore")}

    EXT = f"ext = lambda t: {{k[{len(store)}:]: v for k, v in t.items() if k.startswith({store!r}) and not k.endswith('.gitignore')}}"
    nsess = 0
    hist = Hist({"test_e.py": ext_test_src(datas[0], variant["suffix_arg"]), "pyproject.toml": pyproject})
    forks = []
    desc0 = dict(variant, datas=[repr(d) for d in datas])

    def fail(finding, step, detail, check_src, hh=None):
        hh = hh or hist
        prefix = "" if re.match(r"C\d\d[:/]", detail) else "C13: "
        fails.add(finding, dict(desc0, step=step), prefix + detail, hh.replay(EXT + "\n" + check_src))

    try:
        # S1 create
        r = hist.run(["--inline-snapshot=create"])
        st = stored(r.after)
        src1 = r.after.get("test_e.py", b"").decode()
        if set(st) != {h[0] + suffix} or st.get(h[0] + suffix) != raw[0]:
            # F20: hash-length >= 64 configured, the approved create wrote the full-hash reference external("<64hex><suffix>")
            # (no '*'), and the storage holds only "<64hex>-new<suffix>": persist() looked up the exact name, found nothing and
            # swallowed the HashError.  (Only the git-ignored -new file exists, pruned/re-created every session; the test is green anyway.)
            f20 = (hlen >= 64 and f'external("{h[0]}{suffix}")' in src1 and set(st) == {h[0] + "-new" + suffix})
            detail = f"storage after create = {sorted(st)}; expected exactly {h[0] + suffix} holding the data\n" + tail(r.out, 12)
            check = f"assert set(ext(r['after'])) == {{{(h[0] + suffix)!r}}} and ext(r['after'])[{(h[0] + suffix)!r}] == {raw[0]!r}, sorted(ext(r['after']))"
            if f20:
                hh = hist.fork()
                forks.append(hh)
                r2 = hh.run([])
                nsess += 1
                detail += (f"\n--- following session without flags: exit status {r2.rc}, outcomes {r2.outcomes}, "
                           f"storage now {sorted(stored(r2.after))} (never persisted: at best the git-ignored -new file that "
                           f"outsource() re-creates in each session)")
            fail("F20" if f20 else None, "S1 create", detail, check)
            raise _Abort()  # the rest of the history depends on a persisted first external
        if ref(0) not in src1 or not same_ast_import(src1):
            fail(None, "S1 create", f"test file does not reference {ref(0)} / import external:\n{src1}",
                 f"assert {ref(0)!r} in r['after']['test_e.py'].decode(), r['after']['test_e.py'].decode()")
        if r.rc == 0:
            fail(None, "S1 create", "C07: empty snapshot but exit status 0", "assert r['rc'] != 0")
        # S2 nothing pending
        r = hist.run([])
        if r.before != r.after or r.rc != 0:
            fail(None, "S2 rerun", f"rerun: rc={r.rc} diff={diff_trees(r.before, r.after)}\n" + tail(r.out, 20),
                 "assert r['before'] == r['after'] and r['rc'] == 0, r['rc']")
        # S3 edit data, no approval
        src = hist.p.tree()["test_e.py"].decode()
        assert repr(datas[0]) in src, src
        hist.write({"test_e.py": src.replace(repr(datas[0]), repr(datas[1]))})
        r = hist.run(["--inline-snapshot=report"])
        st = stored(r.after)
        if st.get(h[0] + suffix) != raw[0] or r.after["test_e.py"] != r.before["test_e.py"] or any(
                "-new" not in k and k != h[0] + suffix for k in st):
            fail(None, "S3 edit+report", f"unapproved session changed persisted state: {diff_trees(r.before, r.after)}",
                 f"assert ext(r['after']).get({(h[0] + suffix)!r}) == {raw[0]!r} and r['after']['test_e.py'] == r['before']['test_e.py'] and all('-new' in k or k == {(h[0] + suffix)!r} for k in ext(r['after'])), sorted(ext(r['after']))")
        if r.rc == 0:
            fail(None, "S3 edit+report", "C07: failing external comparison but exit status 0", "assert r['rc'] != 0")
        # S4 edit again, unapproved: the -new file of S3 must not survive the start of this session
        hist.write({"test_e.py": src.replace(repr(datas[0]), repr(datas[2]))})
        r = hist.run(["--inline-snapshot=short-report"] if variant.get("s4") != "none" else [])
        st = stored(r.after)
        stale = [k for k in st if "-new" in k and not k.startswith(h[2])]
        if stale or st.get(h[0] + suffix) != raw[0] or r.after["test_e.py"] != r.before["test_e.py"]:
            fail(None, "S4 edit+unapproved", f"stale -new files {stale}; storage={sorted(st)}; diff={diff_trees(r.before, r.after)}",
                 f"assert not [k for k in ext(r['after']) if '-new' in k and not k.startswith({h[2]!r})] and ext(r['after']).get({(h[0] + suffix)!r}) == {raw[0]!r}, sorted(ext(r['after']))")
        # S5 fix (trim not approved): old persisted file stays, new one persisted, no -new left
        r = hist.run(["--inline-snapshot=fix"])
        st = stored(r.after)
        src5 = r.after["test_e.py"].decode()
        want = {h[0] + suffix: raw[0], h[2] + suffix: raw[2]}
        if st != want:
            fail(None, "S5 fix", f"storage after fix = {sorted(st)}; expected exactly {sorted(want)} (old file kept: trim not approved)\n" + tail(r.out, 20),
                 f"assert ext(r['after']) == {want!r}, sorted(ext(r['after']))")
        if ref(2) not in src5:
            fail(None, "S5 fix", f"test file does not reference {ref(2)}:\n{src5}",
                 f"assert {ref(2)!r} in r['after']['test_e.py'].decode()")
        # probes on copies of the state after S5: sessions that approve no trim must keep the unused persisted file
        probes = [
            ("review, no prompt appears", ["--inline-snapshot=review"], {}, b"n\n", None),
            ("review, pending trim answered n", ["--inline-snapshot=review"], {}, b"n\n" * 4,
             "\n\ndef test_t():\n    assert 5 <= snapshot(8)\n"),
            ("report", ["--inline-snapshot=report"], {}, b"", None),
        ]
        if not variant.get("quick"):
            probes += [
                ("review, pending create answered n", ["--inline-snapshot=review"], {}, b"n\n" * 4,
                 "\n\ndef test_c():\n    assert 5 == snapshot()\n"),
                ("trim,short-report", ["--inline-snapshot=trim,short-report"], {}, b"", None),
                ("trim under CI", ["--inline-snapshot=trim"], {"CI": "1"}, b"", None),
                ("create,fix,update", ["--inline-snapshot=create,fix,update"], {}, b"", None),
                ("no option", [], {}, b"", None),
                ("disable", ["--inline-snapshot=disable"], {}, b"", None),
            ]
        for tag, args, env, stdin, extra in probes:
            f = hist.fork()
            forks.append(f)
            if extra:
                f.write({"test_e.py": src5 + extra})
            r = f.run(args, env=env, stdin=stdin)
            nsess += 1
            diffs = diff_trees(r.before, r.after)
            if diffs:
                removed = [d for d in diffs if d.startswith("- ")]
                only_unused_persisted_removed = (diffs == [f"- {store}{h[0]}{suffix} (deleted)"])
                words = set(",".join(a.split("=", 1)[1] for a in args if a.startswith("--inline-snapshot=")).split(","))
                # F10: review in flags, trim neither given as flag nor answered 'y', and the ONLY effect of the
                # session is the deletion of the unreferenced persisted external
                finding = "F10" if ("review" in words and "trim" not in words and b"y" not in stdin
                                    and only_unused_persisted_removed and not env) else None
                fail(finding, f"S5 probe: {tag}", f"C13/C04: session {args} env={env} stdin={stdin!r} approved no trim but: {diffs}\n" + tail(r.out, 12),
                     "assert r['after'] == r['before'], sorted(k for k in set(r['after']) | set(r['before']) if r['after'].get(k) != r['before'].get(k))", f)
        # S6 trim: now the unused file goes, the referenced one stays
        r = hist.run(["--inline-snapshot=trim"])
        st = stored(r.after)
        if st != {h[2] + suffix: raw[2]} or r.after["test_e.py"] != r.before["test_e.py"]:
            fail(None, "S6 trim", f"storage after trim = {sorted(st)}; expected exactly {h[2] + suffix}\n" + tail(r.out, 20),
                 f"assert ext(r['after']) == {({h[2] + suffix: raw[2]})!r}, sorted(ext(r['after']))")
        # S7 fixed point
        r = hist.run(["--inline-snapshot=create,fix,trim,update"])
        if r.before != r.after or r.rc != 0:
            fail(None, "S7 rerun all flags", f"rc={r.rc} diff={diff_trees(r.before, r.after)}\n" + tail(r.out, 20),
                 "assert r['before'] == r['after'] and r['rc'] == 0, r['rc']")
        # S8 the configured hash-length changes after the reference was written (longer, then shorter): the reference in the test file
        # keeps its old length and still protects its file from an approved trim
        if hlen < 58:
            for new_hl in (hlen + 6, max(hlen - 4, 4)):
                cur = hist.p.tree()["pyproject.toml"].decode()
                cur = re.sub(r"hash-length = \d+\n", "", cur) + f"hash-length = {new_hl}\n"
                hist.write({"pyproject.toml": cur})
                r = hist.run(["--inline-snapshot=trim"])
                st = stored(r.after)
                if st != {h[2] + suffix: raw[2]} or r.after["test_e.py"] != r.before["test_e.py"]:
                    fail(None, f"S8 trim after hash-length {hlen} -> {new_hl}", f"storage = {sorted(st)}; expected exactly {h[2] + suffix} (still referenced by {ref(2)})\n" + tail(r.out, 20),
                         f"assert ext(r['after']) == {({h[2] + suffix: raw[2]})!r}, sorted(ext(r['after']))")
        samples.append(f"C13 history {desc0}: create -> rerun -> edit+report -> edit+short-report -> fix -> "
                       f"{len(probes)} no-trim probes -> trim -> rerun")
    except (_Abort, Skipped):
        pass
    except BaseException:
        fails.add(None, dict(desc0, step="exception"), "C13 harness exception:\n" + traceback.format_exc(), "")
    finally:
        nsess += hist.sessions
        hist.close()
        for f in forks:
            f.close()
    return nsess


def same_ast_import(src):
    import ast

    try:
        tree = ast.parse(src)
    except SyntaxError:
        return False
    return any(isinstance(n, ast.ImportFrom) and n.module == "inline_snapshot" and any(a.name == "external" for a in n.names)
               for n in tree.body)


def c13_variants(tier, rng):
    base = dict(suffix_arg=None, hash_length=None, storage_dir=None)
    n = rng.randrange(1000)
    v1 = dict(base, datas=[f"text one {n}", f"text two {n}", f"text three {n}"], quick=(tier == "quick"))
    v2 = dict(base, datas=[b"\x00\x01" + bytes([n % 256]), b"\x00\x02", b"\xff\x03"], suffix_arg=".png", quick=(tier == "quick"),
              s4="none")
    # the shortest suffix the API accepts: a lone dot (pathlib reports no suffix for "<hash>-new.")
    v3 = dict(base, datas=[f"dot one {n}", f"dot two {n}", f"dot three {n}"], suffix_arg=".", quick=True, s4="none")
    if tier == "quick":
        return [v1, v2, v3]
    return [
        v1, v2, v3,
        dict(base, datas=["a", "b", "c"], hash_length=64),
        dict(base, datas=["long " * 50, "x\ny\n", "äö unicode"], hash_length=8, storage_dir="snaps"),
        dict(base, datas=[b"bin1", b"bin2", b"bin3"], storage_dir="deep/store"),
        dict(base, datas=["t1", "t2", "t3"], suffix_arg=".json", hash_length=20, s4="none"),
    ]


# ---------------------------------------------------------------------------- driver


def build_quick_cases(tid, rng, xdist):
    nonempty = [F for F in ALL_SUBSETS if F]
    proper = [F for F in nonempty if len(F) < 4]
    cases = [
        case_of(tid, "none", (), xdist),
        case_of(tid, "none", CATS, xdist),
        case_of(tid, "none", rng.choice([F for F in proper if len(F) == 2]), xdist),
        case_of(tid, "none", rng.choice([F for F in proper if len(F) == 3]), xdist),
        case_of(tid, "report", (), xdist),
        case_of(tid, "report", rng.choice(proper), xdist),
        case_of(tid, "short-report", CATS, xdist),
        case_of(tid, "short-report", ("fix",), xdist),
        case_of(tid, "short-report", ("create", "trim"), xdist),
        case_of(tid, "review-answers", (), xdist),
        case_of(tid, "review-answers", CATS, xdist),
        case_of(tid, "review-answers", rng.choice(proper), xdist),
        case_of(tid, "review+F-all-n", rng.choice(proper), xdist),
        case_of(tid, "env", rng.choice(nonempty), xdist),
        case_of(tid, "env", (), xdist),
        case_of(tid, "pyproject", rng.choice(nonempty), xdist),
        case_of(tid, "pyproject", CATS, xdist),
        case_of(tid, "ci", CATS, xdist),
    ]
    if xdist:
        cases.append(case_of(tid, "xdist-env", rng.choice(nonempty), xdist))
        cases.append(case_of(tid, "xdist-env", (), xdist))
    cases += extra_cases(tid, xdist, rng, quick=True)
    cases += select_cases(tid, ["fix"], ["test_le_fix", "test_ge_fix", "test_in_fix", "test_key_fix"], {})
    cases += select_cases(tid, ["update"], ["test_in_fix"], {})
    cases += select_cases(tid, ["review"], ["test_le_fix"], {"review": "n"})
    return cases


def build_thorough_cases(tid, rng, xdist):
    cases = []
    modes = GRID_MODES + (["xdist-env", "xdist-pyproject"] if xdist else [])
    for mode in modes:
        for F in ALL_SUBSETS:
            cases.append(case_of(tid, mode, F, xdist))
    cases += extra_cases(tid, xdist, rng, quick=False)
    flags = ["fix", "update", "create", "create,fix", "trim", "create,fix,trim,update", "review", "fix,short-report",
             "report", None]
    cases += select_cases(tid, flags, FAILING_TESTS, {"review": "n"})
    cases += select_cases(tid, ["review"], ["test_le_fix", "test_in_fix", "test_fix", "test_create"], {"review": "y"})
    cases += select_cases(tid, ["fix", "create,fix,trim,update", "review", None], ["test_trim", "test_ok", "test_in_trim", "test_update"],
                          {"review": "n"})
    return cases


def chain_nodes():
    """all non-empty subsets in topological (prefix-first) order"""
    return sorted([F for F in ALL_SUBSETS if F], key=lambda F: (len(F), [CATS.index(c) for c in F]))


@standin("B-sess", props=["C04", "C07", "C13"],
         bound="real pytest subprocess sessions on 1 (quick) / 3 (thorough) generated 4-category template projects: "
               "16 category subsets x {flags, +report, +short-report, review answers, review+flags, env var, pyproject, CI, xdist} "
               "(quick: ~35 of these) + single-test (-k) sessions per failing operation; external-storage histories of 7 steps "
               "+ no-trim probes for 2 (quick) / 6 (thorough) data/suffix/hash-length/storage-dir variants")
def run(tier, seed):
    return _run(tier, seed)


def run_for(pid, tier, seed):
    """only the parts that serve property `pid`, and only the failures attributed to it"""
    return result_for(pid, _run(tier, seed, only=pid))


run.run_for = run_for


def _run(tier, seed, only=None):
    t0 = time.time()
    rng = random.Random(seed)
    fails = Failures()
    samples, cross = [], []
    evaluated = 0
    distinct = set()
    deadline = set_deadline(Deadline(tier))
    want_grid = only in (None, "C04", "C07")
    want_hist = only in (None, "C04", "C13")  # F10 (unapproved removal of a persisted external) also concerns C04
    try:
        xdist = have_xdist()
        cross.append("xdist installed: -n 2 cases included" if xdist else "pytest-xdist not installed: xdist cases SKIPPED")
        ntemplates = 1 if tier == "quick" else 3
        templates = {f"T{i}": make_template(random.Random(seed * 1000 + i)) for i in range(ntemplates)}
        cases = []
        for tid in templates:
            cases += build_quick_cases(tid, rng, xdist) if tier == "quick" else build_thorough_cases(tid, rng, xdist)
        variants = c13_variants(tier, rng)
        if not want_grid:
            cases, templates_for_chains = [], {}
        else:
            templates_for_chains = templates
        if not want_hist:
            variants = []

        chain_trees = {}
        chain_results = {}
        with ThreadPoolExecutor(max_workers=8) as ex:
            # 1. expectation chains: state after applying F one category per session (prefix first => no deadlock)
            futs = {}

            def chain_job(tid, F):
                parent = templates[tid] if len(F) == 1 else futs[(tid, F[:-1])].result()[0]
                with Project(parent) as p:
                    r = p.run([f"--inline-snapshot={F[-1]}"])
                return {k: v for k, v in r.after.items()}, r

            for tid in templates_for_chains:
                for F in chain_nodes():
                    futs[(tid, F)] = ex.submit(chain_job, tid, F)
            # 2. C13 histories (long sequential jobs, start early)
            c13_samples = []
            c13_futs = [ex.submit(c13_history, v, fails, c13_samples) for v in variants]
            # 3. the grid
            case_futs = [(c, ex.submit(run_case, templates[c.tid], c)) for c in cases]

            for (tid, F), f in futs.items():
                try:
                    tree, r = f.result()
                    chain_trees[(tid, F)] = tree
                    chain_results[(tid, F)] = r
                except Skipped:
                    pass
                except BaseException:
                    fails.add(None, dict(template=tid, chain=list(F)), "chain session raised:\n" + traceback.format_exc(), "")
            # chain sessions are themselves sessions with a single approved category on a partially updated project
            for (tid, F), r in chain_results.items():
                evaluated += 1
                start = {k: v for k, v in r.before.items()}
                case = mk(tid, f"chain step {'+'.join(F[:-1]) or 'template'} -> {F[-1]}", (F[-1],),
                          [f"--inline-snapshot={F[-1]}"])
                expected = expected_outcomes(start)
                for t, e, o in check_outcomes(expected, r):
                    finding = "F4" if (not t.startswith("<") and f4_predicate(case, t, e, o)) else None
                    fails.add(finding, dict(template=tid, mode=case.mode, test=t),
                              f"C07: {t}: expected {e}, reported {o} (exit status {r.rc})\n" + tail(r.out, 20),
                              replay_c07(None, case, {t: e} if not t.startswith("<") else expected, start_files=start))
                # untouched modules stay byte-identical
                for k in ("test_clean.py", "test_x.py", "pyproject.toml"):
                    if r.after.get(k) != r.before.get(k):
                        fails.add(None, dict(template=tid, mode=case.mode), f"C04: {k} modified by {case.args}", "")
            for c, f in case_futs:
                try:
                    r = f.result()
                    evaluated += 1
                    distinct.add((c.tid, c.mode, c.F, c.select))
                    check_case(templates[c.tid], c, r, chain_trees, fails, templates[c.tid], deadline.skipped > 0)
                    if len(samples) < 4 and c.mode in ("review-answers", "short-report", "pyproject", "ci"):
                        samples.append(dict(template=c.tid, mode=c.mode, F=list(c.F), args=c.args, env=c.env,
                                            stdin=c.stdin.decode(), exit=r.rc,
                                            changed=diff_trees(r.before, r.after)))
                except Skipped:
                    pass
                except BaseException:
                    fails.add(None, dict(template=c.tid, mode=c.mode, F=list(c.F), args=c.args),
                              "harness exception:\n" + traceback.format_exc(), "")
            for f in c13_futs:
                try:
                    evaluated += f.result()
                except BaseException:
                    fails.add(None, "C13 history", "harness exception:\n" + traceback.format_exc(), "")
            distinct |= {("C13", i) for i in range(len(c13_futs))}
            samples += c13_samples[:2]
        # sanity of the template itself: all four categories really pending (measured, not assumed)
        for tid, tpl in templates_for_chains.items():
            for c in CATS:
                tr = chain_trees.get((tid, (c,)))
                if tr is not None and tr.get("test_t.py") == tpl["test_t.py"].encode():
                    fails.add(None, dict(template=tid), f"template has no pending {c} change (harness assumption broken)", "")
        cross += [
            "X: pytest.fail in autouse fixture teardown -> junit <error> + non-zero exit (observed in every session with a wrong snapshot)",
            "X: junit xml (--junitxml) lists every executed test; xfail-marked tests are reported as skipped",
            "X: rich Confirm.ask reads answers from stdin when FORCE_COLOR=true; prompt order create,fix,trim,update",
            "X: xdist/remote.py sets config.option.numprocesses=None in workers (xdist_running() is False inside workers)",
            "X: pytest exit status 4 for pytest.UsageError raised in pytest_configure",
        ]
    except BaseException:
        fails.add(None, "B-sess driver", "driver exception:\n" + traceback.format_exc(), "")
    finally:
        set_deadline(None)
    if deadline.skipped:
        cross.append(f"BUDGET: {deadline.skipped} sessions skipped because the {tier} wall-clock budget was used up")
    return dict(skipped=deadline.skipped, evaluated=evaluated, distinct=len(distinct), failures=fails.items, samples=samples[:5],
                cross_checks=cross, seconds=round(time.time() - t0, 1), dropped=dict(fails.dropped) and {str(k): v for k, v in fails.dropped.items()})
