"""Replay file written by /verif/check.py
{
 "property": "C14",
 "failed_obligation": "_snapshot.generic_value.GenericValue._re_eval.re_eval#unmanaged/post:unmanaged-part-is-rebound-to-the-fresh-value",
 "path": 2,
 "function": "inline_snapshot._snapshot.generic_value.GenericValue._re_eval.re_eval#unmanaged",
 "verdict": "refuted",
 "backend": "z3-5.1",
 "solver_model": "None_Val = Val!val!0\nisinst_Snapshot = [Val!val!1 -> True, else -> False]\nold_value.value!4 = Val!val!2\nvalue!6 = Val!val!1",
 "where": ""
}
"""

print('no native failing input was found for this obligation; see the header for the solver output')
