"""Bounded stand-ins (never counted as proved) and native replay helpers.

A stand-in is registered as  STANDINS[name] = dict(name=..., props=[...], fn=callable(tier, seed) -> dict)
and returns  dict(name, bound, evaluated, distinct, passed, failures=[{finding?, input, detail, replay_code}], samples=[...]).
"""
from __future__ import annotations

import importlib
import pkgutil

STANDINS: dict = {}


def standin(name, props, bound):
    def deco(fn):
        STANDINS[name] = dict(name=name, props=list(props), bound=bound, fn=fn)
        return fn

    return deco


_loaded = False


def _load():
    global _loaded
    if _loaded:
        return
    _loaded = True
    import bounded as pkg

    for m in pkgutil.iter_modules(pkg.__path__):
        if m.name.startswith("b_"):
            importlib.import_module(f"bounded.{m.name}")


def enabled():
    """Stand-ins take part in checks only once they are listed in bounded/enabled.txt (reviewed, quiet on the unchanged tree)."""
    from pathlib import Path

    p = Path(__file__).with_name("enabled.txt")
    if not p.exists():
        return set()
    return {l.strip() for l in p.read_text().splitlines() if l.strip() and not l.startswith("#")}


def standins_for(pid):
    _load()
    en = enabled()
    return [dict(name=s["name"], bound=s["bound"]) for s in STANDINS.values() if pid in s["props"] and s["name"] in en]


def _is_harness_problem(f):
    d = str(f.get("detail", ""))
    return ("harness exception" in d or "chain session raised" in d or "subprocess.TimeoutExpired" in d or "TimeoutExpired:" in d)


def run_standin(name, pid, tier, seed):
    _load()
    s = STANDINS[name]
    fn = s["fn"]
    r = fn.run_for(pid, tier, seed) if hasattr(fn, "run_for") else fn(tier, seed)
    for f in r.get("failures", []):
        if f.get("finding") is None and f.get("label"):
            for lab, fid in LABEL_TO_FINDING.items():
                if str(f["label"]).startswith(lab):
                    f["finding"] = fid
    # A problem of the harness itself (a pytest subprocess that hit the wall-clock safety net on a loaded machine, an exception in the
    # driver code) is not a statement about the property: it is reported as a checker fault (exit 3), never as a failing input / VIOLATION.
    harness = [f for f in r.get("failures", []) if _is_harness_problem(f)]
    if harness:
        r["failures"] = [f for f in r["failures"] if not _is_harness_problem(f)]
        first = str(harness[0].get("detail", ""))
        r["error"] = (r.get("error") or "") + f"{len(harness)} harness problem(s), not property violations; first: " + " | ".join(first.strip().splitlines()[-2:])[:400]
    r.setdefault("name", name)
    r.setdefault("bound", s["bound"])
    r.setdefault("failures", [])
    return r


# failure classes found by the stand-ins themselves (precise predicates live in the stand-in modules)
LABEL_TO_FINDING = {"new:paren-element": "F21", "new:inf-repr": "F22"}

NATIVE_WITNESS: dict = {}  # function qualname -> callable(obligation dict) -> replay code (str) or None


def native_witness(target, obligation):
    """Look for a concrete input on which the real function violates the clause of the failed obligation."""
    _load()
    f = NATIVE_WITNESS.get(target)
    if f is None:
        return None
    return f(obligation)
