"""GenericCallAdapter.assign: constructor calls (dataclass / attrs / pydantic / namedtuple ...) inside snapshot().

Clauses (from the property statements):
  C10  a call holding a star-expression (`*args`, `**kw`) is never altered; a child is handed the node of its own argument
  C11  kept arguments keep their nodes (positional by position, keywords by name)
  C09  a new keyword argument is inserted directly behind an old keyword that is kept (so the place does not depend on which other
       category removed or kept other keywords before) - or in front of everything when no kept keyword precedes it
  C05  category labels of the changes the call itself produces (Delete: update iff the removed argument equals the new value's, else fix;
       CallArg: fix)

`arguments()` (introspection of dataclasses / attrs / pydantic), `argument()`, `check_type()`, `context.eval()` are abstract (PS2); the
keyword table of the new value is an abstract map with pairwise different keys (PS5), like the dict model of DictAdapter.assign."""
import ast

import z3

from pyvc.contract import Loop, Shape, contract
from pyvc.core import fresh_value, pack, unpack, zint
from pyvc.defaults import DEFAULT_POLICIES, SHAPES
from pyvc.specs import SPEC_NS, abstract_assign, val_term
from pyvc.types import BOOL, INT, STR, Abs, ListT, Obj, Opaque, SV, declare_record, parse_ty, sort_of

GC = "inline_snapshot._adapter.generic_call_adapter"
VAL, NODE, KW, KWMAP, KWNODES = Abs("Val"), Abs("Node"), Abs("Kw"), Abs("KwMap"), Abs("KwNodes")
declare_record("Arg", {"value": VAL, "is_default": BOOL})
ARG = parse_ty("Arg")
NONE_NODE = lambda I: I.V.none_const(NODE)  # noqa: E731


def f_kw_arg():
    return z3.Function("Kw_arg", sort_of(KW), sort_of(parse_ty("Opt[Str]")))


def f_kw_value():
    return z3.Function("Kw_value", sort_of(KW), sort_of(NODE))


def f_kwmap_keys():
    return z3.Function("KwMap_keys", sort_of(KWMAP), sort_of(parse_ty("List[Str]")))


def f_kwmap_get():
    return z3.Function("KwMap_get", sort_of(KWMAP), z3.StringSort(), sort_of(ARG))


def f_arg_pos():
    return z3.Function("argument_pos", sort_of(VAL), z3.IntSort(), sort_of(VAL))


def f_arg_kw():
    return z3.Function("argument_kw", sort_of(VAL), z3.StringSort(), sort_of(VAL))


def _some(s):
    """Opt[Str] value holding the z3 string s"""
    o = sort_of(parse_ty("Opt[Str]"))
    return o.constructor(1)(s)


def _is_none(o_t):
    o = sort_of(parse_ty("Opt[Str]"))
    return o.recognizer(0)(o_t)


def _keys(I, m):
    l = unpack(I.ctx, f_kwmap_keys()(m.t), parse_ty("List[Str]"))
    i, j = z3.Int(I.ctx.fresh_name("ki")), z3.Int(I.ctx.fresh_name("kj"))
    I.ctx.define("distinct-kw-" + str(m.t), lambda: z3.ForAll([i, j], z3.Implies(z3.And(0 <= i, i < j, j < l.nz()), z3.Select(l.arr, i) != z3.Select(l.arr, j)),
                                                                    patterns=[z3.MultiPattern(z3.Select(l.arr, i), z3.Select(l.arr, j))]))
    return l


def _strkey(I, key, node=None):
    """keyword names are Opt[Str] in the ast (None for `**mapping`); the code only uses them after the `**` check"""
    return pack(I.ctx, I.unwrap_opt(key, node, "keyword-name-is-not-None"), STR)


OPT = lambda: sort_of(parse_ty("Opt[Str]"))  # noqa: E731


def f_kwmap_has():
    return z3.Function("KwMap_has", sort_of(KWMAP), z3.StringSort(), z3.BoolSort())


def _kwmap_axioms(I, m):
    """membership in the keyword table of the new value: has(s) <-> s is one of the (pairwise different) keys"""
    l = _keys(I, m)
    has = f_kwmap_has()
    idx = z3.Function("KwMap_idx", sort_of(KWMAP), z3.StringSort(), z3.IntSort())
    j = z3.Int(I.ctx.fresh_name("hj"))
    s_ = z3.String(I.ctx.fresh_name("hs"))
    I.ctx.define("kwmap-has-" + str(m.t), lambda: z3.And(
        z3.ForAll([j], z3.Implies(z3.And(0 <= j, j < l.nz()), z3.And(has(m.t, z3.Select(l.arr, j)), idx(m.t, z3.Select(l.arr, j)) == j)), patterns=[z3.Select(l.arr, j)]),
        z3.ForAll([s_], z3.Implies(has(m.t, s_), z3.And(0 <= idx(m.t, s_), idx(m.t, s_) < l.nz(), z3.Select(l.arr, idx(m.t, s_)) == s_)), patterns=[has(m.t, s_)])))


def kwmap_contains(I, m, key):
    _kwmap_axioms(I, m)
    return SV(f_kwmap_has()(m.t, _strkey(I, key)), BOOL)


def kwmap_index(I, m, key, node):
    I.implicit("KeyError", kwmap_contains(I, m, key).t, "keyword-present", node)
    return unpack(I.ctx, f_kwmap_get()(m.t, _strkey(I, key, node)), ARG)


def kwmap_items(I, args, kwargs, node):
    m = args[0]
    _kwmap_axioms(I, m)
    l = _keys(I, m)
    pair = parse_ty("Tuple[Str,Arg]")
    items = fresh_value(I.ctx, ListT(pair), "kw_items")
    mk = sort_of(pair).constructor(0)
    i = z3.Int(I.ctx.fresh_name("ii"))
    I.ctx.assume(items.nz() == l.nz())
    I.ctx.assume(z3.ForAll([i], z3.Implies(z3.And(0 <= i, i < l.nz()), z3.Select(items.arr, i) == mk(z3.Select(l.arr, i), f_kwmap_get()(m.t, z3.Select(l.arr, i)))),
                           patterns=[z3.Select(items.arr, i)]), tag="kw-items")
    I.ghost["kw_items"] = items
    return items


def _kwlist(I):
    return I.getattr(I.param_env.lookup("old_node"), "keywords")


def f_old_has():
    return z3.Function("OldKw_has", sort_of(NODE), z3.StringSort(), z3.BoolSort())


def f_old_idx():
    return z3.Function("OldKw_idx", sort_of(NODE), z3.StringSort(), z3.IntSort())


def _old_axioms(I):
    """keyword names of the call in the source: has(s) <-> some keyword is named s; names are pairwise different (a repeated
    keyword is a SyntaxError), idx(s) is its position among the keywords"""
    on = I.param_env.lookup("old_node")
    kws = _kwlist(I)
    has, idx = f_old_has(), f_old_idx()
    j = z3.Int(I.ctx.fresh_name("oj"))
    s_ = z3.String(I.ctx.fresh_name("os"))
    arg = lambda t: f_kw_arg()(t)  # noqa: E731
    val = OPT().accessor(1, 0)
    I.ctx.define("oldkw-has-" + str(on.t), lambda: z3.And(
        z3.ForAll([j], z3.Implies(z3.And(0 <= j, j < kws.nz(), z3.Not(_is_none(arg(z3.Select(kws.arr, j))))),
                                  z3.And(has(on.t, val(arg(z3.Select(kws.arr, j)))), idx(on.t, val(arg(z3.Select(kws.arr, j)))) == j)), patterns=[z3.Select(kws.arr, j)]),
        z3.ForAll([s_], z3.Implies(has(on.t, s_), z3.And(0 <= idx(on.t, s_), idx(on.t, s_) < kws.nz(), arg(z3.Select(kws.arr, idx(on.t, s_))) == _some(s_))),
                  patterns=[has(on.t, s_)])))
    return on, kws


def kwnodes_contains(I, m, key):
    """key in {kw.arg: ... for kw in old_node.keywords}"""
    on, _ = _old_axioms(I)
    return SV(f_old_has()(on.t, _strkey(I, key)), BOOL)


def kwnodes_index(I, m, key, node):
    """the value node of the keyword named key"""
    I.implicit("KeyError", kwnodes_contains(I, m, key).t, "keyword-node-present", node)
    on, kws = _old_axioms(I)
    return SV(f_kw_value()(z3.Select(kws.arr, f_old_idx()(on.t, _strkey(I, key, node)))), NODE)


SPEC_NS.setdefault("abs_ops", {})["KwMap"] = {"contains": kwmap_contains, "index": kwmap_index}
SPEC_NS.setdefault("abs_ops", {})["KwNodes"] = {"contains": kwnodes_contains, "index": kwnodes_index}
DEFAULT_POLICIES["attrs"].update({"KwMap.items": kwmap_items, "Node.args": "List[Node]", "Node.keywords": "List[Kw]", "Node.func": "Node",
                                  "Kw.arg": "Opt[Str]", "Kw.value": "Node"})


def pat_old_node_kwargs(I, n, env):
    return fresh_value(I.ctx, KWNODES, "old_node_kwargs")


def pat_old_node_kwargs_pos(I, n, env):
    """{kw.arg: len(old_node.args) + pos for pos, kw in enumerate(old_node.keywords)}: position of a keyword among all arguments"""
    return fresh_value(I.ctx, Abs("KwPos"), "old_node_kwargs_pos")


def kwpos_index(I, m, key, node):
    I.implicit("KeyError", kwnodes_contains(I, m, key).t, "keyword-position-present", node)
    on, kws = _old_axioms(I)
    nargs = I.getattr(on, "args").nz()
    return SV(nargs + f_old_idx()(on.t, _strkey(I, key, node)), INT)


SPEC_NS.setdefault("abs_ops", {})["KwPos"] = {"contains": kwnodes_contains, "index": kwpos_index}


def pat_extra_old_args(I, n, env):
    """list(enumerate(old_node.args))[len(new_args):] : the (position, node) pairs of the positional arguments beyond the new ones"""
    args = I.getattr(env.lookup("old_node"), "args")
    na = env.lookup("new_args").nz()
    pair = parse_ty("Tuple[Int,Node]")
    out = fresh_value(I.ctx, ListT(pair), "extra_old_args")
    mk = sort_of(pair).constructor(0)
    i = z3.Int(I.ctx.fresh_name("ei"))
    I.ctx.assume(out.nz() == z3.If(args.nz() > na, args.nz() - na, 0))
    I.ctx.assume(z3.ForAll([i], z3.Implies(z3.And(0 <= i, i < out.nz()), z3.Select(out.arr, i) == mk(na + i, z3.Select(args.arr, na + i))), patterns=[z3.Select(out.arr, i)]))
    return out


def pat_extra_new_args(I, n, env):
    """list(enumerate(new_args))[len(old_node.args):]"""
    args = I.getattr(env.lookup("old_node"), "args")
    new_args = env.lookup("new_args")
    pair = parse_ty("Tuple[Int,Arg]")
    out = fresh_value(I.ctx, ListT(pair), "extra_new_args")
    mk = sort_of(pair).constructor(0)
    i = z3.Int(I.ctx.fresh_name("ni"))
    I.ctx.assume(out.nz() == z3.If(new_args.nz() > args.nz(), new_args.nz() - args.nz(), 0))
    I.ctx.assume(z3.ForAll([i], z3.Implies(z3.And(0 <= i, i < out.nz()), z3.Select(out.arr, i) == mk(args.nz() + i, z3.Select(new_args.arr, args.nz() + i))),
                           patterns=[z3.Select(out.arr, i)]))
    return out


def p_arguments(I, args, kwargs, node):
    na = fresh_value(I.ctx, ListT(ARG), "new_args")
    nk = fresh_value(I.ctx, KWMAP, "new_kwargs")
    I.ghost["new_args"], I.ghost["new_kwargs"] = na, nk
    return (na, nk)


def p_argument(I, args, kwargs, node):
    v, k = args[-2], args[-1]
    if isinstance(k, int) or (isinstance(k, SV) and k.ty == INT):
        return SV(f_arg_pos()(val_term(I, v), zint(k)), VAL)
    return SV(f_arg_kw()(val_term(I, v), _strkey(I, k, node)), VAL)


def p_check_type(I, args, kwargs, node):
    r = SV(z3.Bool(I.ctx.fresh_name("is_handled_type")), BOOL)
    I.ghost["is_handled_call"] = r
    return r


def s_has_old_keyword(I, name):
    return kwnodes_contains(I, None, name)


def _kept(I, kw_t):
    """the keyword of the source call is kept: the new value has an argument of that name which is not at its default"""
    new_kwargs = I.ghost["new_kwargs"]
    _kwmap_axioms(I, new_kwargs)
    a = f_kw_arg()(kw_t)
    name = OPT().accessor(1, 0)(a)
    A = sort_of(ARG)
    return z3.And(z3.Not(_is_none(a)), f_kwmap_has()(new_kwargs.t, name), z3.Not(A.accessor(0, 1)(f_kwmap_get()(new_kwargs.t, name))))


def _behind_kept(I, pos):
    old_node = I.param_env.lookup("old_node")
    pargs, kws = I.getattr(old_node, "args"), I.getattr(old_node, "keywords")
    return z3.And(pargs.nz() < pos, pos <= pargs.nz() + kws.nz(), _kept(I, z3.Select(kws.arr, pos - pargs.nz() - 1)))


def s_behind_kept_keyword(I, pos):
    return SV(_behind_kept(I, zint(pos)), BOOL)


SPEC_NS.update({"has_old_keyword": s_has_old_keyword, "behind_kept_keyword": s_behind_kept_keyword})


def p_ctx_eval(I, expr):
    return Opaque("call_type")


def p_get_adapter(I, args, kwargs, node):
    return Obj("inline_snapshot._adapter.adapter.Adapter", {"context": None})


def p_child_assign(I, args, kwargs, node):
    """child call: the argument handed down is paired with the node of *that* argument: positional by position, keyword by name"""
    o, nd, n = args[-3], args[-2], args[-1]
    env = I.param_env
    old_value, old_node = env.lookup("old_value"), env.lookup("old_node")
    new_args, new_kwargs = I.ghost["new_args"], I.ghost["new_kwargs"]
    pargs, kws = I.getattr(old_node, "args"), I.getattr(old_node, "keywords")
    nt = nd.t if isinstance(nd, SV) and nd.ty == NODE else (NONE_NODE(I) if nd is None else z3.Const(I.ctx.fresh_name("unknown_node"), sort_of(NODE)))
    q = z3.Int(I.ctx.fresh_name("q"))
    A = sort_of(ARG)
    aval = A.accessor(0, 0)
    ot, ntv = val_term(I, o), val_term(I, n)
    positional = z3.Exists([q], z3.And(0 <= q, q < pargs.nz(), q < new_args.nz(), nt == z3.Select(pargs.arr, q), ot == f_arg_pos()(val_term(I, old_value), q),
                                       ntv == aval(z3.Select(new_args.arr, q))))
    kname = z3.String(I.ctx.fresh_name("kname"))
    _kwmap_axioms(I, new_kwargs)
    keyword = z3.Exists([q, kname], z3.And(0 <= q, q < kws.nz(), f_kw_arg()(z3.Select(kws.arr, q)) == _some(kname), nt == f_kw_value()(z3.Select(kws.arr, q)),
                                          ot == f_arg_kw()(val_term(I, old_value), kname), ntv == aval(f_kwmap_get()(new_kwargs.t, kname)),
                                          f_kwmap_has()(new_kwargs.t, kname)))
    I.oblige("call-pre", f"child-gets-the-node-of-its-own-argument@{getattr(node, 'lineno', '?')} [C10,C11,C03,C02]", z3.Or(positional, keyword))
    return abstract_assign(I, args, kwargs, node)


def pat_rebuild(I, n, env):
    """type(old_value)(*result_args, **result_kwargs): the value rebuilt from the results of the children (PS2)"""
    I.ghost["rebuilt"] = True
    return SV(z3.Const(I.ctx.fresh_name("rebuilt_value"), sort_of(VAL)), VAL)


def ca_yield_check(I, v, node, env):
    """own yields of GenericCallAdapter.assign"""
    if not (isinstance(v, Obj) and v.rec is None):
        return
    kind = v.cls.rsplit(".", 1)[-1]
    old_node = env.lookup("old_node")
    pargs, kws = I.getattr(old_node, "args"), I.getattr(old_node, "keywords")
    if kind == "CallArg":
        I.oblige("post", "inserted-arguments-are-fixes [C05,C04]", z3.BoolVal(v.fields["flag"] == "fix"))
        pos = zint(v.fields["arg_pos"])
        name = v.fields["arg_name"]
        if name is None:
            I.oblige("post", "new-positional-argument-goes-behind-the-old-ones [C11,C03]", pos >= pargs.nz())
        else:
            # C09/C11: directly behind an old keyword that is kept (present in the new value and not at its default), or in front of
            # everything when no kept keyword precedes it -- never at a place that depends on keywords another category removes
            I.oblige("post", "new-keyword-goes-directly-behind-a-kept-keyword [C09,C11]", z3.Or(pos == 0, _behind_kept(I, pos)))
            I.oblige("post", "new-keyword-is-not-an-old-one [C03,C18]", z3.Not(kwnodes_contains(I, None, name).t))
    elif kind == "Delete":
        I.oblige("post", "deleted-argument-category [C05,C04]", z3.BoolVal(v.fields["flag"] in ("fix", "update")))


SHAPES.update({"CAdapter": Shape(GC + ".GenericCallAdapter", {"context": "@CContext"}),
               "CContext": Shape("inline_snapshot._adapter.adapter.AdapterContext", {"file": "@SourceFileW", "frame": "Opaque", "eval": p_ctx_eval})})

STAR = ("(any(isinstance_node(old_node.args[j], 'Starred') for j in range(0, len(old_node.args)))"
        " or any(old_node.keywords[j].arg is None for j in range(0, len(old_node.keywords))))")

contract(
    GC + ".GenericCallAdapter.assign",
    params={"self": "@CAdapter", "old_value": "Val", "old_node": "Node", "new_value": "Val"},
    callees={"GenericCallAdapter.arguments": p_arguments, "GenericCallAdapter.argument": p_argument, "GenericCallAdapter.check_type": p_check_type,
             "Adapter.get_adapter": p_get_adapter, "Adapter.assign": p_child_assign, "Adapter.value_assign": "inline", "ValueAdapter": "inline",
             "warnings.warn_explicit": "havoc"},
    extern_patterns={
        "{kw.arg: kw.value for kw in old_node.keywords}": pat_old_node_kwargs,
        "{kw.arg: len(old_node.args) + pos for (pos, kw) in enumerate(old_node.keywords)}": pat_old_node_kwargs_pos,
        "list(enumerate(old_node.args))[len(new_args):]": pat_extra_old_args,
        "list(enumerate(new_args))[len(old_node.args):]": pat_extra_new_args,
        "type(old_value)(*result_args, **result_kwargs)": pat_rebuild,
    },
    returns=None,
    result_name="ret",
    uses=["val"],
    loops={
        0: Loop(index="k0", ghost_modifies=[], inv={"no-star-so-far": "all(not isinstance_node(old_node.args[j], 'Starred') for j in range(0, k0))", "nothing-yet": "len(trace) == 0"}),
        1: Loop(index="k1", ghost_modifies=[], inv={"no-double-star-so-far": "all(old_node.keywords[j].arg is not None for j in range(0, k1))", "nothing-yet": "len(trace) == 0"}),
        2: Loop(index="k2", ghost_modifies=[], inv={"one-result-per-pair": "len(result_args) == k2"}),
        3: Loop(index="k3", ghost_modifies=[], inv={"trivial": "True"}),
        4: Loop(index="k4", ghost_modifies=[], inv={"trivial": "True"}),
        5: Loop(index="k5", ghost_modifies=[], inv={"trivial": "True"}),
        6: Loop(index="k6", ghost_modifies=[], inv={
            "insert-pos-is-behind-a-kept-keyword": "insert_pos == 0 or behind_kept_keyword(insert_pos)",
            "pending-are-new-keywords": "all(not has_old_keyword(to_insert[i][0]) for i in range(0, len(to_insert)))",
        }),
        7: Loop(index="k7", ghost_modifies=[], inv={"trivial": "True"}),
        8: Loop(index="k8", ghost_modifies=[], inv={"trivial": "True"}),
    },
    ensures={
        # C10: "containers holding star-expressions are never altered by any category"
        "star-call-is-frozen [C10]": "implies(old_node is not None and isinstance_node(old_node, 'Call') and is_handled_call and " + STAR + ", same(ret, old_value) and len(trace) == 0)",
    },
    ghost={"vars": {"new_args": "=None", "new_kwargs": "=None", "rebuilt": "=False", "kw_items": "=None", "is_handled_call": "=False"},
           "locals": {"to_insert": "List[Tuple[Str,Val]]", "result_args": "List[Val]"}, "assoc_dict_ty": "Tuple[Str,Val]",
           "yield_check": ca_yield_check, "untracked": ["new_code"], "props": ["C10", "C11", "C09", "C03", "C05"], "light_feasibility": True},
    safety_props=["C18"],
    assumes=["PS2", "PS5", "E1"],
)

# ---------------------------------------------------------------------------------------------- DefaultDictAdapter.argument


def p_plain_dict(I, args, kwargs, node):
    return SV(z3.Function("plain_dict_of", sort_of(VAL), sort_of(VAL))(val_term(I, args[0])), VAL)


def s_plain_dict(I, v):
    return SV(z3.Function("plain_dict_of", sort_of(VAL), sort_of(VAL))(val_term(I, v)), VAL)


def s_default_factory(I, v):
    return SV(z3.Function("Val_default_factory", sort_of(VAL), sort_of(VAL))(val_term(I, v)), VAL)


SPEC_NS.update({"plain_dict": s_plain_dict, "default_factory_of": s_default_factory})

contract(
    GC + ".DefaultDictAdapter.argument",
    params={"self": "Opaque", "value": "Val", "pos_or_name": "Int"},
    callees={"dict": p_plain_dict},
    attrs={"Val.default_factory": "Val"},
    requires={"one-of-the-two-arguments": "pos_or_name == 0 or pos_or_name == 1"},
    returns=None,
    result_name="ret",
    ensures={
        # C11: the entries of `defaultdict(factory, {...})` are matched by key only if the old second argument is a plain dict like the
        # new one (arguments() hands out dict(value)); a defaultdict there makes the adapters differ and the whole display is replaced
        "second-argument-is-a-plain-dict-copy [C11,C02]": "implies(pos_or_name == 1, same(ret, plain_dict(value)))",
        "first-argument-is-the-factory [C11,C02]": "implies(pos_or_name == 0, same(ret, default_factory_of(value)))",
    },
    frame=[],
    safety_props=["C18"],
)
