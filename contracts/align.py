"""Sidecar contracts for src/inline_snapshot/_align.py (Layer A).

Notation: co(s) = cnt(s,"mxd") = elements of the old sequence consumed by script s,
          cn(s) = cnt(s,"mxi") = elements of the new sequence consumed.
"""
from pyvc.contract import Loop, contract

VALID_CELL = (
    "({c}[1] == 'e' or {c}[1] == 'i' or {c}[1] == 'd' or {c}[1] == 'm')"
    " and (({c}[1] == 'e') == ({p} == 0 and {q} == 0))"
    " and implies({c}[1] == 'i', {q} > 0) and implies({c}[1] == 'd', {p} > 0)"
    " and implies({c}[1] == 'm', {p} > 0 and {q} > 0 and T(eq(seq_a[{p} - 1], seq_b[{q} - 1])))"
)

# scores: every cell holds the LCS length of the two prefixes, and its letter says where that score came from
SCORE_CELL = (
    "({c}[1] == 'e' or {c}[1] == 'i' or {c}[1] == 'd' or {c}[1] == 'm')"
    " and (({c}[1] == 'e') == ({p} == 0 and {q} == 0))"
    " and implies({c}[1] == 'i', {q} > 0) and implies({c}[1] == 'd', {p} > 0) and implies({c}[1] == 'm', {p} > 0 and {q} > 0)"
    " and {c}[0] == lcs(seq_a, seq_b, {p}, {q})"
    " and implies({c}[1] == 'm', {c}[0] == lcs(seq_a, seq_b, {p} - 1, {q} - 1) + 1)"
    " and implies({c}[1] == 'i', {c}[0] == lcs(seq_a, seq_b, {p}, {q} - 1))"
    " and implies({c}[1] == 'd', {c}[0] == lcs(seq_a, seq_b, {p} - 1, {q}))"
)

contract(
    "inline_snapshot._align.nw_align",
    params={"seq_a": "List[Val]", "seq_b": "List[Val]"},
    returns="Text",
    uses=["cnt"],
    ensures={
        "letters [C11,C02,C18]": "all_in(result, 'mid')",
        "consumes-old [C11,C02,C18]": "cnt(result, 'md') == len(seq_a)",
        "consumes-new [C11,C02,C18]": "cnt(result, 'mi') == len(seq_b)",
        "match-implies-equal [C11,C02]": "all(implies(result[t] == 'm', T(eq(seq_a[cnt(result, 'md', t)], seq_b[cnt(result, 'mi', t)]))) for t in range(0, len(result)))",
    },
    ghost={"locals": {"matrix": "List[List[Tuple[Int,Char]]]", "new_line": "List[Tuple[Int,Char]]", "track": "Text"}},
    loops={
        0: Loop(
            index="r",
            inv={
                "rows": "len(matrix) == r + 1",
                "row-length": "all(len(matrix[p]) == len(seq_b) + 1 for p in range(0, r + 1))",
                "cells-valid": "all(all(" + VALID_CELL.format(c="matrix[p][q]", p="p", q="q") + " for q in range(0, len(seq_b) + 1)) for p in range(0, r + 1))",
            },
        ),
        1: Loop(
            index="k",
            inv={
                "line-length": "len(new_line) == k + 1",
                "line-valid": "all(" + VALID_CELL.format(c="new_line[q]", p="(r + 1)", q="q") + " for q in range(0, k + 1))",
            },
        ),
        2: Loop(
            inv={
                "ai-range": "0 <= ai and ai <= len(seq_a)",
                "bi-range": "0 <= bi and bi <= len(seq_b)",
                "letters": "all_in(track, 'mid')",
                "count-old": "cnt(track, 'md') == len(seq_a) - ai",
                "count-new": "cnt(track, 'mi') == len(seq_b) - bi",
                "done": "implies(d == 'e', ai == 0 and bi == 0)",
                "d-letter": "d == '' or d == 'e' or d == 'i' or d == 'd' or d == 'm'",
                "pairing": "all(implies(track[t] == 'm', T(eq(seq_a[len(seq_a) - cnt(track, 'md', t) - 1], seq_b[len(seq_b) - cnt(track, 'mi', t) - 1]))) for t in range(0, len(track)))",
            },
            decreases="ai + bi + ite(d == 'e', 0, 1)",
        ),
    },
)

contract(
    "inline_snapshot._align.align",
    params={"seq_a": "List[Val]", "seq_b": "List[Val]"},
    returns="Text",
    uses=["cnt"],
    ensures={
        "letters [C11,C02,C18]": "all_in(result, 'mid')",
        "consumes-old [C11,C02,C18]": "cnt(result, 'md') == len(seq_a)",
        "consumes-new [C11,C02,C18]": "cnt(result, 'mi') == len(seq_b)",
        # C11: "at least the equal common prefix ... of a sequence survive verbatim"
        "common-prefix-kept [C11]": "all(implies(all(T(eq(seq_a[i], seq_b[i])) for i in range(0, j + 1)), result[j] == 'm') for j in range(0, min(len(seq_a), len(seq_b))))",
        # ... and the equal common suffix of what the prefix leaves over
        "common-suffix-kept [C11]": "ifdef(['start', 'end'], all(implies(all(T(eq(seq_a[i], seq_b[i - len(seq_a) + len(seq_b)])) for i in range(len(seq_a) - 1 - j, len(seq_a))), result[len(result) - 1 - j] == 'm') for j in range(0, min(len(seq_a), len(seq_b)) - start)))",
        # helper clauses (proved first, then available to the clause below): the three segments of the script
        "seg-prefix [C11,C02]": "ifdef(['diff'], all(cnt(result, 'md', t) == t and cnt(result, 'mi', t) == t for t in range(0, start + 1)))",
        "seg-middle [C11,C02]": "ifdef(['diff'], all(cnt(result, 'md', t) == start + cnt(diff, 'md', t - start) and cnt(result, 'mi', t) == start + cnt(diff, 'mi', t - start) and result[t] == diff[t - start] for t in range(start, start + len(diff))))",
        "seg-suffix [C11,C02]": "ifdef(['diff'], all(cnt(result, 'md', t) == len(seq_a) - end + (t - start - len(diff)) and cnt(result, 'mi', t) == len(seq_b) - end + (t - start - len(diff)) for t in range(start + len(diff), len(result))))",
        "seg-early [C11,C02]": "ifndef('diff', all(cnt(result, 'md', t) == t and cnt(result, 'mi', t) == t for t in range(0, start + 1)))",
        "eq-prefix [C11,C02]": "ifdef(['diff'], all(T(eq(seq_a[t], seq_b[t])) for t in range(0, start)))",
        "eq-middle [C11,C02]": "ifdef(['diff'], all(implies(diff[u] == 'm', T(eq(seq_a[start + cnt(diff, 'md', u)], seq_b[start + cnt(diff, 'mi', u)]))) for u in range(0, len(diff))))",
        "eq-suffix [C11,C02]": "ifdef(['diff'], all(T(eq(seq_a[i], seq_b[i - len(seq_a) + len(seq_b)])) for i in range(len(seq_a) - end, len(seq_a))))",
        "match-implies-equal {using: seg-prefix, seg-middle, seg-suffix, eq-prefix, eq-middle, eq-suffix, seg-early, prefix-equal, start} [C11,C02]": "all(implies(result[t] == 'm', T(eq(seq_a[cnt(result, 'md', t)], seq_b[cnt(result, 'mi', t)]))) for t in range(0, len(result)))",
    },
    loops={
        0: Loop(index="k", inv={"start": "start == k", "prefix-equal": "all(T(eq(seq_a[j], seq_b[j])) for j in range(0, k))"}),
        1: Loop(index="k2", inv={"end": "end == k2", "suffix-equal": "all(T(eq(seq_a[i], seq_b[i - len(seq_a) + len(seq_b)])) for i in range(len(seq_a) - k2, len(seq_a)))"}),
    },
)

from pyvc.specs import x9_groupby_runs

contract(
    "inline_snapshot._align.add_x",
    params={"track": "Text"},
    returns="Text",
    uses=["cnt", "gsum"],
    requires={"letters": "all_in(track, 'mid')"},
    ensures={
        "letters [C11,C02,C18]": "all_in(result, 'midx')",
        # x stands for one deletion and one insertion: consumption of both sequences is unchanged
        "consumes-old [C11,C02,C18]": "cnt(result, 'mxd') == cnt(track, 'md')",
        "consumes-new [C11,C02,C18]": "cnt(result, 'mxi') == cnt(track, 'mi')",
    },
    extern_patterns={"[(c, len(list(v))) for (c, v) in groupby(_)]": x9_groupby_runs},
    ghost={"locals": {"result": "Text"}},
    loops={
        0: Loop(
            inv={
                "i-range": "0 <= i and i <= len(groups)",
                "letters": "all_in(result, 'midx')",
                "old-sum": "cnt(result, 'mxd') == gsum(groups, 'md', i)",
                "new-sum": "cnt(result, 'mxi') == gsum(groups, 'mi', i)",
            },
            decreases="len(groups) - i",
        ),
    },
)


# second contract on the same function: optimality of the alignment (kept apart because the recursive lcs axioms slow
# the other obligations down)
contract(
    "inline_snapshot._align.nw_align",
    name="inline_snapshot._align.nw_align#lcs",
    params={"seq_a": "List[Val]", "seq_b": "List[Val]"},
    returns="Text",
    uses=["cnt", "lcs", "val"],
    ensures={
        # C11: "sequence elements [are matched] by a longest-common-subsequence alignment": the number of kept elements is maximal
        "keeps-a-longest-common-subsequence [C11]": "cnt(result, 'm') == lcs(seq_a, seq_b, len(seq_a), len(seq_b))",
    },
    ghost={"locals": {"matrix": "List[List[Tuple[Int,Char]]]", "new_line": "List[Tuple[Int,Char]]", "track": "Text"}},
    loops={
        0: Loop(index="r", inv={
            "rows": "len(matrix) == r + 1",
            "row-length": "all(len(matrix[p]) == len(seq_b) + 1 for p in range(0, r + 1))",
            "cells-score": "all(all(" + SCORE_CELL.format(c="matrix[p][q]", p="p", q="q") + " for q in range(0, len(seq_b) + 1)) for p in range(0, r + 1))",
        }),
        1: Loop(index="k", inv={
            "line-length": "len(new_line) == k + 1",
            "line-score": "all(" + SCORE_CELL.format(c="new_line[q]", p="(r + 1)", q="q") + " for q in range(0, k + 1))",
        }),
        2: Loop(inv={
            "ai-range": "0 <= ai and ai <= len(seq_a)",
            "bi-range": "0 <= bi and bi <= len(seq_b)",
            "done": "implies(d == 'e', ai == 0 and bi == 0)",
            "d-letter": "d == '' or d == 'e' or d == 'i' or d == 'd' or d == 'm'",
            "optimal-so-far": "cnt(track, 'm') + lcs(seq_a, seq_b, ai, bi) == lcs(seq_a, seq_b, len(seq_a), len(seq_b))",
        }),
    },
    safety_props=["C18"],
)
