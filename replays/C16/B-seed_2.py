"""Replay file written by /verif/check.py
{
 "property": "C16",
 "standin": "B-seed",
 "bound": "fixed list of 39 (quick) / 48 (thorough) set / frozenset / dict / Enum values, each rendered by code_repr and _value_to_code in separate interpreters with PYTHONHASHSEED 0..3 (quick) / 0..7 (thorough) x {black, black import blocked, format_command=cat}; 6 extra construction orders per top-level set; dict insertion order (F15) not varied",
 "input": "frozenset({frozenset({\"x\", \"y\"}), frozenset({\"z\"}), frozenset({\"y\", \"z\"})})",
 "detail": "[incomparable elements without TypeError: frozenset / frozenset] code_repr text differs between hash seeds: PYTHONHASHSEED=[0, 1, 2]: \"frozenset({frozenset({'z'}), frozenset({'y', 'z'}), frozenset({'x', 'y'})})\"; PYTHONHASHSEED=[3]: \"frozenset({frozenset({'x', 'y'}), frozenset({'z'}), frozenset({'y', 'z'})})\""
}
"""

# run with: /verif/.venv/bin/python <this file>      (inline_snapshot is the editable install of /repo)
import os, subprocess, sys
EXPR = 'frozenset({frozenset({"x", "y"}), frozenset({"z"}), frozenset({"y", "z"})})'
CHILD = 'from enum import Enum, Flag, IntEnum\nclass Color(Enum):\n    RED = "r"\n    GREEN = "g"\n    BLUE = "b"\nclass Size(IntEnum):\n    S = 1\n    M = 2\n    L = 3\nclass Perm(Flag):\n    R = 4\n    W = 2\n    X = 1\n' + """
import sys
from inline_snapshot._code_repr import code_repr
sys.stdout.write(code_repr(eval(sys.argv[1])))
"""
texts = {}
for seed in [0, 1, 2, 3]:
    env = dict(os.environ, PYTHONHASHSEED=str(seed))
    texts[seed] = subprocess.run([sys.executable, "-c", CHILD, EXPR], env=env, capture_output=True, text=True, check=True).stdout
    print(seed, texts[seed])
assert len(set(texts.values())) == 1, "code_repr text differs between hash seeds"

