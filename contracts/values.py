"""Sidecar contracts for the snapshot value objects (Layer B):
   generic_value.clone / GenericValue._return, MinMaxValue._generic_cmp / _get_changes."""
from pyvc.contract import Loop, Shape, contract
from pyvc.specs import s_deepcopy, ord_may_raise as _ord_may_raise
from pyvc.types import Opaque

GV = "inline_snapshot._snapshot.generic_value"
MM = "inline_snapshot._snapshot.min_max_value"

IGNORE = "(state.update_flags.fix or state.update_flags.create or state.update_flags.update or self._old_value is undefined)"
NOFLAGS = "(not state.update_flags.fix and not state.update_flags.create and not state.update_flags.update and not state.update_flags.trim)"

contract(
    GV + ".GenericValue._return",
    params={"self": "@Value", "result": "Val", "new_result": "Val"},
    returns="Val",
    result_name="ret",
    uses=["val"],
    frame=["state.incorrect_values"],
    ensures={
        # C07: "a wrong snapshot never yields a green run" -- every falsy comparison result is counted
        "incorrect-counted [C07]": "state.incorrect_values == old(state.incorrect_values) + ite(T(result), 0, 1)",
        # C02/C07: with create/fix/update (or an empty snapshot) the comparison is made to succeed with the new value
        "returns-new-result-when-ignoring-old [C02,C07,C05]": "implies(" + IGNORE + ", same(ret, new_result))",
        # C06: "returns exactly what the same comparison against the plain value returns" (the result object itself)
        "returns-plain-result [C06]": "implies(not " + IGNORE + ", same(ret, result))",
    },
    safety_props=["C18", "C14"],
    ghost={"frame_props": ["C14", "C07"]},
)


def x14_deepcopy(I, args, kwargs, node):
    return s_deepcopy(I, args[0])


contract(
    GV + ".clone",
    params={"obj": "Val"},
    returns="Val",
    result_name="ret",
    callees={"copy.deepcopy": x14_deepcopy, "inline_snapshot._code_repr.code_repr": "havoc"},
    assumes=["X14"],
    pure=True,
    frame=[],
    ensures={
        "is-deep-copy [C17,C02,C05,C08,C01]": "same(ret, deepcopy(obj))",
        "copy-equals-original [C17]": "T(eq(obj, ret))",
    },
    raises={"UsageError": {"only-when-copy-differs [C17]": "not T(eq(obj, deepcopy(obj)))"}},
    safety_props=["C18", "C17"],
)

# --------------------------------------------------------------------------------------------
# MinMaxValue._generic_cmp, instantiated for MinValue (cmp = a <= b) and MaxValue (cmp = a >= b)

for cls, cmpname in (("MinValue", "le"), ("MaxValue", "ge")):
    CMP = cmpname + "({a}, {b})"

    def cmp(a, b, _c=CMP):
        return _c.format(a=a, b=b)

    common = dict(
        params={"self": "@Value", "other": "Val"},
        returns="Val",
        result_name="ret",
        self_cls=f"{MM}.{cls}",
        callees={
            "MinMaxValue.cmp": "inline", f"{cls}.cmp": "inline", "GenericValue._visible_value": "inline",
            "GenericValue._ignore_old": "inline", "inline_snapshot._snapshot.generic_value.ignore_old_value": "inline",
        },
        frame=["self._new_value", "state.incorrect_values", "state.missing_values"],
        requires={"compared-value-is-not-the-sentinel": "other is not undefined"},
        raises={"UsageError": {"only-from-clone [C17]": "not T(eq(other, deepcopy(other)))"}},
        assumes=["PS6", "PS7", "X14"],
    )
    # variant 1: no order axioms -- return value (C06), counters (C07), ownership (C17), frame (C14)
    contract(
        MM + ".MinMaxValue._generic_cmp",
        name=f"{MM}.MinMaxValue._generic_cmp#{cls}",
        uses=["val"],
        ensures={
            "missing-counted [C07]": "state.missing_values == old(state.missing_values) + ite(self._old_value is undefined, 1, 0)",
            # C07: a failing comparison against the value in the source is counted in every flag mode
            "failing-comparison-counted [C07]": "implies(self._old_value is not undefined and not T(" + cmp("self._old_value", "other") + "),"
                                                " state.incorrect_values > old(state.incorrect_values))",
            # C06: without approval the comparison returns exactly what the plain comparison returns
            "plain-result-without-flags [C06]": "implies(" + NOFLAGS + " and self._old_value is not undefined, same(ret, " + cmp("self._old_value", "other") + "))",
            # C17: what is stored is a deep copy made at comparison time
            "stores-only-copies [C17,C14,C08,C01]": "same(self._new_value, old(self._new_value)) or same(self._new_value, deepcopy(other))",
            "records-something [C01,C05]": "self._new_value is not undefined",
            "old-value-untouched [C14,C05]": "same(self._old_value, old(self._old_value))",
        },
        ghost={"frame_props": ["C14"], "callee_default": True},
        safety_props=["C18"],
        **common,
    )
    # variant 2: E2 (totally ordered values) -- the aggregation invariant: _new_value is the extreme of everything observed
    contract(
        MM + ".MinMaxValue._generic_cmp",
        name=f"{MM}.MinMaxValue._generic_cmp#{cls}/E2",
        uses=["val", "E2"],
        params={"self": "@Value", "other": "Val", "obs": "Set[Val]"},
        **{k: v for k, v in common.items() if k not in ("params", "requires")},
        requires={
            "compared-value-is-not-the-sentinel": "other is not undefined",
            "Inv-bound": "implies(self._new_value is not undefined, all_obs(obs, lambda x: T(" + cmp("self._new_value", "x") + ")))",
            "Inv-empty": "implies(self._new_value is undefined, all_obs(obs, lambda x: False))",
        },
        ensures={
            # C05/C14/C01: repeated evaluation aggregates into the extreme bound, for every observation sequence (by induction)
            "Inv-bound-preserved [C05,C14,C01]": "all_obs(obs, lambda x: T(" + cmp("self._new_value", "x") + ")) and T(" + cmp("self._new_value", "other") + ")",
            # C07 converse (scope: copyable, totally ordered values): a holding snapshot is never failed by inline-snapshot
            "holding-comparison-not-counted [C07]": "implies(self._old_value is not undefined and T(" + cmp("self._old_value", "other") + "),"
                                                    " state.incorrect_values == old(state.incorrect_values))",
            # C02/C09: with create/fix/update approved (or an empty snapshot) the comparison is made to succeed
            "made-to-succeed-when-approved [C02,C09]": "implies(" + IGNORE + ", T(ret))",
            "Inv-member [C05,C14,C01]": "same(self._new_value, old(self._new_value)) or same(self._new_value, deepcopy(other))",
        },
        safety_props=["C18"],
        ghost={"extra_params": ["obs"]},
    )

    # variant 3: comparisons that raise (C18 "comparisons that raise"; PS11): whatever exit is taken, the recorded value stays
    # comparable with the value in the source -- MinMaxValue._get_changes compares the two at the end of the session
    COMPARABLE = "(self._old_value is undefined or self._new_value is undefined or not cmp_raises(self._old_value, self._new_value))"
    contract(
        MM + ".MinMaxValue._generic_cmp",
        name=f"{MM}.MinMaxValue._generic_cmp#{cls}/raising",
        uses=["val", "PS11"],
        **{k: v for k, v in common.items() if k not in ("requires", "raises", "assumes")},
        requires={"compared-value-is-not-the-sentinel": "other is not undefined", "Inv-comparable": COMPARABLE},
        ensures={"recorded-value-stays-comparable [C18]": COMPARABLE},
        raises={"UsageError": {"recorded-value-stays-comparable [C18]": COMPARABLE},
                "CmpError": {"recorded-value-stays-comparable-when-the-comparison-raises [C18,C06]": COMPARABLE}},
        ghost={"cmp_may_raise": _ord_may_raise, "frame_props": ["C14"]},
        safety_props=["C18"],
        assumes=["PS6", "PS11", "X14"],
    )

# --------------------------------------------------------------------------------------------
# CollectionValue.__contains__  (`x in snapshot([...])`)

CV = "inline_snapshot._snapshot.collection_value"
IN_NEW = "any(same(self._new_value[i], {x}) or T(eq(self._new_value[i], {x})) for i in range(0, len(self._new_value)))"

for variant, newty in (("first", "=Ellipsis"), ("later", "List[Val]")):
    shapes = {"CValue": Shape(CV + ".CollectionValue", {"_old_value": "Val", "_new_value": newty, "_ast_node": "Node", "_context": "@Context"})}
    oldnew = "old(self._new_value)"
    ens = {
        "missing-counted [C07]": "state.missing_values == old(state.missing_values) + ite(self._old_value is undefined, 1, 0)",
        # C07: a failing membership test against the list in the source is counted in every flag mode
        "failing-membership-counted [C07]": "implies(self._old_value is not undefined and not T(contains(self._old_value, item)),"
                                            " state.incorrect_values > old(state.incorrect_values))",
        "plain-result-without-flags [C06]": "implies(" + NOFLAGS + " and self._old_value is not undefined, same(ret, contains(self._old_value, item)))",
        # C02/C09: with create/fix/update approved (or an empty snapshot) the comparison is made to succeed so that the test continues
        "made-to-succeed-when-approved [C02,C09]": "implies(" + IGNORE + ", T(ret))",
        "old-value-untouched [C14,C05]": "same(self._old_value, old(self._old_value))",
    }
    if variant == "first":
        ens["records-a-copy [C17,C01,C05]"] = "len(self._new_value) == 1 and same(self._new_value[0], deepcopy(item))"
    else:
        ens["members-kept [C14,C05]"] = "len(self._new_value) >= len(old(self._new_value)) and all(same(self._new_value[i], old(self._new_value)[i]) for i in range(0, len(old(self._new_value))))"
        ens["appends-only-a-copy [C17,C14,C08,C01]"] = ("len(self._new_value) == len(old(self._new_value)) or (len(self._new_value) == len(old(self._new_value)) + 1"
                                                " and same(self._new_value[len(old(self._new_value))], deepcopy(item)))")
        ens["no-duplicate-added [C05]"] = "implies(" + IN_NEW.replace("self._new_value", "old(self._new_value)").format(x="item") + ", len(self._new_value) == len(old(self._new_value)))"
    contract(
        CV + ".CollectionValue.__contains__",
        name=f"{CV}.CollectionValue.__contains__#{variant}",
        params={"self": "@CValue", "item": "Val"},
        shapes=shapes,
        returns="Val",
        result_name="ret",
        uses=["val"],
        callees={"inline_snapshot._snapshot.generic_value.ignore_old_value": "inline"},
        frame=["self._new_value", "state.incorrect_values", "state.missing_values"],
        requires={"compared-value-is-not-the-sentinel": "item is not undefined"},
        raises={"UsageError": {"only-from-clone [C17]": "not T(eq(item, deepcopy(item)))"}},
        ensures=ens,
        assumes=["PS6", "PS7", "X14"],
        safety_props=["C18"],
        ghost={"frame_props": ["C14"], "callee_default": variant == "first", "frame_types": {"self._new_value": "List[Val]"}},
    )
    # E1 variant: after the operation the tested value is a member of what is recorded (C01/C05: "a container holding every tested value")
    contract(
        CV + ".CollectionValue.__contains__",
        name=f"{CV}.CollectionValue.__contains__#{variant}/E1",
        params={"self": "@CValue", "item": "Val"},
        shapes=shapes,
        returns="Val",
        result_name="ret",
        uses=["val", "E1"],
        callees={"inline_snapshot._snapshot.generic_value.ignore_old_value": "inline"},
        requires={"compared-value-is-not-the-sentinel": "item is not undefined"},
        raises={"UsageError": {"only-from-clone [C17]": "not T(eq(item, deepcopy(item)))"}},
        ensures={"tested-value-is-member [C01,C05,C14]": IN_NEW.format(x="item")},
        assumes=["PS6", "PS7", "X14", "E1"],
        safety_props=["C18"],
    )

# --------------------------------------------------------------------------------------------
# EqValue.__eq__ / _get_changes

from pyvc.specs import abstract_assign
from pyvc.types import Obj as _Obj

EQ = "inline_snapshot._snapshot.eq_value"


def _get_adapter(I, args, kwargs, node):
    return _Obj("inline_snapshot._adapter.adapter.Adapter", {"context": args[0].fields.get("context")})


for variant, newreq, chg in (("uncommitted", "self._new_value is undefined", "unbound"), ("committed", "self._new_value is not undefined", "List[Chg]")):
    contract(
        EQ + ".EqValue.__eq__",
        name=f"{EQ}.EqValue.__eq__#{variant}",
        params={"self": "@EValue", "other": "Val"},
        shapes={"EValue": Shape(EQ + ".EqValue", {"_old_value": "Val", "_new_value": "Val", "_ast_node": "Node", "_context": "@Context", "_changes": chg})},
        returns="Val",
        result_name="ret",
        uses=["val"],
        callees={"Adapter.get_adapter": _get_adapter, "Adapter.assign": abstract_assign},
        frame=["self._new_value", "self._changes", "state.incorrect_values", "state.missing_values"],
        requires={"state": newreq, "compared-value-is-not-the-sentinel": "other is not undefined"},
        raises={"UsageError": {"only-from-clone [C17]": "not T(eq(other, deepcopy(other)))"}},
        ensures={
            "missing-counted [C07]": "state.missing_values == old(state.missing_values) + ite(self._old_value is undefined, 1, 0)",
            # C07: the comparison with the value in the source is always reported through _return
            "failing-comparison-counted [C07]": "implies(not T(eq(self._old_value, other)), state.incorrect_values > old(state.incorrect_values))",
            "holding-comparison-not-counted [C07]": "implies(T(eq(self._old_value, other)), state.incorrect_values == old(state.incorrect_values))",
            "plain-result-without-flags [C06]": "implies(" + NOFLAGS + " and self._old_value is not undefined, same(ret, eq(self._old_value, other)))",
            # C02: with create/fix the comparison is made against what the adapter recorded, so the test can continue
            "new-result-when-approved [C02]": "implies(" + IGNORE + ", same(ret, eq(self._new_value, other)))",
            # C14/C17: the first committed comparison records assign(old, node, deep copy of other); later ones change nothing
            "first-comparison-commits [C17,C02,C14]": "implies(old(self._new_value) is undefined and not cmp_only,"
                " same(self._new_value, assign_result(self._old_value, self._ast_node, deepcopy(other)))"
                " and len(self._changes) == len(assign_trace(self._old_value, self._ast_node, deepcopy(other))))",
            "later-comparisons-keep-state [C14]": "implies(old(self._new_value) is not undefined, same(self._new_value, old(self._new_value)))",
            # C11: comparisons made only for alignment (compare_context) commit nothing
            "compare-only-commits-nothing [C11,C14]": "implies(cmp_only, same(self._new_value, old(self._new_value)))",
            "old-value-untouched [C14,C05]": "same(self._old_value, old(self._old_value))",
        },
        assumes=["PS6", "PS7", "X14"],
        safety_props=["C18"],
        ghost={"frame_props": ["C14"], "callee_default": variant == "uncommitted"},
    )

for variant, newreq, chg in (("uncommitted", "self._new_value is undefined", "unbound"), ("committed", "self._new_value is not undefined", "List[Chg]")):
    contract(
        EQ + ".EqValue._get_changes",
        name=f"{EQ}.EqValue._get_changes#{variant}",
        params={"self": "@EValue"},
        shapes={"EValue": Shape(EQ + ".EqValue", {"_old_value": "Val", "_new_value": "Val", "_ast_node": "Node", "_context": "@Context", "_changes": chg})},
        requires={"state (class invariant established by EqValue.__eq__: _changes is assigned iff a comparison was committed)": newreq},
        ensures={},
        frame=[],
        # C18: "nested snapshots ... which are reached only while aligning a list" must not break end-of-session processing
        safety_props=["C18"],
        ghost={"frame_props": ["C14"]},
    )

# --------------------------------------------------------------------------------------------
# UndecidedValue._get_changes (inner recursive generator `handle`) -- a snapshot that was never compared

import z3 as _z3

from pyvc.core import fresh_value as _fresh
from pyvc.types import BOOL as _BOOL, SV as _SV, Abs as _Abs, parse_ty as _pt, sort_of as _so
from pyvc.specs import val_term as _vt

UV = "inline_snapshot._snapshot.undecided_value"


def _items(I, obj, node):
    """X (adapter.items): the sub-values of a container value paired with their nodes."""
    l = _fresh(I.ctx, _pt("List[Item]"), "items")
    return l


def _get_adapter_type(I, args, kwargs, node):
    """get_adapter_type(obj): container adapters (list/tuple/dict/constructor calls) have `items`, ValueAdapter has not."""
    isc = _z3.Function("is_container", _so(_Abs("Val")), _z3.BoolSort())(_vt(I, args[0]))
    if I.ctx.branch(isc):
        return _Obj("ContainerAdapterType", {"items": _items})
    return _Obj("ValueAdapterType", {})


def _is_unmanaged_inst(I, sv, name, qual):
    from pyvc.interp import _MISSING

    return _MISSING


contract(
    UV + ".UndecidedValue._get_changes.handle",
    params={"self": "@Value", "node": "Node", "obj": "Val"},
    self_cls=UV + ".UndecidedValue",
    callees={"inline_snapshot._adapter.adapter.get_adapter_type": _get_adapter_type},
    returns=None,
    frame=[],
    ensures={
        # C05: "An update never changes the value the argument evaluates to" -- each update replaces exactly one
        # leaf by the code of that same leaf value
        "only-updates [C05,C08]": "all(trace[j].flag == 'update' and trace[j].kind == 'Replace' for j in range(0, len(trace)))",
        "update-keeps-value [C05,C08]": "all(same(trace[j].new_value, trace[j].old_value) for j in range(0, len(trace)))",
        "code-is-code-of-the-replaced-value [C05,C18,C03]": "all(trace[j].code == code_of(trace[j].new_value) for j in range(0, len(trace)))",
        "leaf-replaced-at-its-own-node [C05,C18,C03]": "implies(not is_container(obj), all(same(trace[j].node, node) and same(trace[j].new_value, obj) for j in range(0, len(trace))))",
        # C10: Is(...) / dirty-equals / nested snapshots (wrapped as Unmanaged by map_unmanaged) and f-strings are "never altered
        # by any category" -- also not by the update of a snapshot that was never compared
        "user-controlled-leaf-is-never-replaced [C10]": "implies(not is_container(obj) and (isinstance_of(obj, 'Unmanaged') or (node is not None and isinstance_node(node, 'JoinedStr'))), len(trace) == 0)",
    },
    loops={0: Loop(index="k", inv={
        "only-updates": "all(trace[j].flag == 'update' and trace[j].kind == 'Replace' for j in range(0, len(trace)))",
        "update-keeps-value": "all(same(trace[j].new_value, trace[j].old_value) for j in range(0, len(trace)))",
        "code-of-value": "all(trace[j].code == code_of(trace[j].new_value) for j in range(0, len(trace)))",
    })},
    safety_props=["C18"],
    ghost={"frame_props": ["C14"]},
    assumes=["PS7", "X2", "X10"],
)

# --------------------------------------------------------------------------------------------
# MinMaxValue._get_changes: what is pending for `<=` / `>=` snapshots (C05 category algebra)

for cls, cmpname in (("MinValue", "le"), ("MaxValue", "ge")):
    def cmp2(a, b, _c=cmpname):
        return f"{_c}({a}, {b})"

    ONE = "(len(trace) == 1)"
    contract(
        MM + ".MinMaxValue._get_changes",
        name=f"{MM}.MinMaxValue._get_changes#{cls}",
        params={"self": "@Value"},
        self_cls=f"{MM}.{cls}",
        uses=["val", "PS11"],
        callees={"MinMaxValue.cmp": "inline", f"{cls}.cmp": "inline"},
        # class invariant established by _generic_cmp (variant /raising): a recorded value is comparable with the value in the source;
        # nothing may be recorded at all when the only comparison raised
        requires={"has-an-argument": "self._old_value is not undefined",
                  "Inv-comparable": "self._new_value is undefined or not cmp_raises(self._old_value, self._new_value)"},
        frame=[],
        raises={},
        ensures={
            # C18: "comparisons that raise": collecting the changes finishes (no exceptional exit is declared), and a snapshot whose
            # only comparison raised has nothing pending
            "nothing-recorded-nothing-pending [C18,C05]": "implies(self._new_value is undefined, len(trace) == 0)",
            "at-most-one-change [C05,C18]": "len(trace) <= 1",
            # C05: "fix is reported exactly when some comparison against the current value fails" -- with the class
            # invariant (new is the extreme of the observations) cmp(old, new) fails iff cmp(old, x) fails for some x
            "fix-iff-bound-violated [C05,C07,C04]": "implies(self._new_value is not undefined, (" + ONE + " and trace[0].flag == 'fix') == (not T(" + cmp2("self._old_value", "self._new_value") + ")))",
            # C05: "trim only removes slack - a bound that is satisfied but not tight"
            "trim-iff-slack [C05,C04]": "implies(self._new_value is not undefined, (" + ONE + " and trace[0].flag == 'trim') == (T(" + cmp2("self._old_value", "self._new_value") + ") and not T(" + cmp2("self._new_value", "self._old_value") + ")))",
            # C05/C08: "An update never changes the value": only when both directions hold and the tokens differ
            "update-only-for-equal-value [C05,C08]": "implies(self._new_value is not undefined, (" + ONE + " and trace[0].flag == 'update') == (T(" + cmp2("self._old_value", "self._new_value") + ") and T(" + cmp2("self._new_value", "self._old_value") + ")"
                                                     " and self._ast_node is not None and tokens_differ(self._ast_node, self._new_value)))",
            "only-known-flags [C05]": "implies(" + ONE + ", trace[0].flag == 'fix' or trace[0].flag == 'trim' or trace[0].flag == 'update')",
            # C05 "yields the tightest value" / C01: the replacement is the recorded extreme, written at the snapshot argument
            "writes-the-extreme [C05,C01,C03]": "implies(" + ONE + ", same(trace[0].new_value, self._new_value) and same(trace[0].node, self._ast_node)"
                                                " and trace[0].code == code_of(self._new_value) and trace[0].kind == 'Replace')",
        },
        safety_props=["C18"],
        ghost={"frame_props": ["C14"], "cmp_may_raise": _ord_may_raise},
        assumes=["PS7", "PS11", "X2", "X10"],
    )

# --------------------------------------------------------------------------------------------
# UndecidedValue: _get_changes (outer) and the five dispatchers

contract(
    UV + ".UndecidedValue._get_changes",
    params={"self": "@Value"},
    self_cls=UV + ".UndecidedValue",
    frame=[],
    ensures={
        "only-updates [C05,C08]": "all(trace[j].flag == 'update' and trace[j].kind == 'Replace' for j in range(0, len(trace)))",
        "update-keeps-value [C05,C08]": "all(same(trace[j].new_value, trace[j].old_value) for j in range(0, len(trace)))",
        "code-is-code-of-the-replaced-value [C05,C18,C03]": "all(trace[j].code == code_of(trace[j].new_value) for j in range(0, len(trace)))",
    },
    safety_props=["C18"],
    ghost={"frame_props": ["C14"]},
)


def _cls_is(I, obj, name):
    return isinstance(obj, _Obj) and obj.cls.rsplit(".", 1)[-1] == name


from pyvc.specs import SPEC_NS as _NS

_NS["cls_is"] = _cls_is

for op, target_cls, arg in (("__eq__", "EqValue", "other"), ("__le__", "MinValue", "other"), ("__ge__", "MaxValue", "other"),
                            ("__contains__", "CollectionValue", "other")):
    cmpx = {"__eq__": "eq(self._old_value, other)", "__le__": "le(self._old_value, other)", "__ge__": "ge(self._old_value, other)",
            "__contains__": "contains(self._old_value, other)"}[op]
    contract(
        UV + ".UndecidedValue." + op,
        params={"self": "@UValue", arg: "Val"},
        shapes={"UValue": Shape(UV + ".UndecidedValue", {"_old_value": "Val", "_new_value": "=Ellipsis", "_ast_node": "Node", "_context": "@Context", "_changes": "unbound"})},
        returns="Val",
        result_name="ret",
        uses=["val"],
        callees={"UndecidedValue._change": "inline"},
        requires={"compared-value-is-not-the-sentinel": "other is not undefined"},
        raises={"UsageError": {"only-from-clone [C17]": "not T(eq(other, deepcopy(other)))"}},
        ensures={
            # C06/C14: the first operation decides the kind of the snapshot, then behaves like that kind
            "decides-the-kind [C06,C14]": f"cls_is(self, '{target_cls}')",
            "plain-result-without-flags [C06]": "implies(" + NOFLAGS + " and self._old_value is not undefined, same(ret, " + cmpx + "))",
            "missing-counted [C07]": "state.missing_values == old(state.missing_values) + ite(self._old_value is undefined, 1, 0)",
            "failing-comparison-counted [C07]": "implies(self._old_value is not undefined and not T(" + cmpx + "), state.incorrect_values > old(state.incorrect_values))",
        },
        safety_props=["C18"],
        assumes=["PS6", "PS7"],
    )

# --------------------------------------------------------------------------------------------
# C06: "Using one snapshot with two different operations raises TypeError" -- method resolution table

from pyvc.contract import static_check

OPS = ["__eq__", "__le__", "__ge__", "__contains__", "__getitem__"]
KINDS = {
    EQ + ".EqValue": "__eq__", MM + ".MinValue": "__le__", MM + ".MaxValue": "__ge__",
    CV + ".CollectionValue": "__contains__", "inline_snapshot._snapshot.dict_value.DictValue": "__getitem__",
}


@static_check("value-kinds-reject-other-operators", props=["C06"])
def _mro_table():
    import ast

    from pyvc.defaults import DEFAULT_POLICIES, SHAPES
    from pyvc.specs import AXIOM_SETS, SPEC_NS
    from pyvc.verify import Verifier
    from pyvc.contract import Contract

    V = Verifier(Contract(target="x"), SPEC_NS, AXIOM_SETS, DEFAULT_POLICIES, SHAPES)
    rows = []
    for cls, own in KINDS.items():
        for op in OPS:
            r = V.find_method(cls, op)
            where = f"{r[1][1].qual}.{r[1][0].name}" if r and r[0] == "method" else str(r)
            if op == own:
                ok = r is not None and r[0] == "method" and not where.startswith(GV + ".GenericValue.")
                detail = f"{cls}.{op} resolves to {where} (its own operation)"
            else:
                # must resolve to GenericValue.<op>, whose whole body is `self._type_error(...)`
                ok = where == f"{GV}.GenericValue.{op}"
                if ok:
                    fn = r[1][0]
                    body = [st for st in fn.body if not (isinstance(st, ast.Assign) and ast.unparse(st.targets[0]) == "__tracebackhide__")]
                    ok = len(body) == 1 and ast.unparse(body[0]).startswith("self._type_error(")
                detail = f"{cls}.{op} resolves to {where}"
            rows.append(dict(id=f"static/mro:{cls.rsplit('.', 1)[-1]}.{op}", ok=bool(ok), detail=detail))
    return rows


contract(
    GV + ".GenericValue._type_error",
    params={"self": "@Value", "op": "Opaque"},
    raises={"TypeError": {"raises-TypeError [C06]": "True"}},
    ensures={"never-returns-normally [C06]": "False"},
    safety_props=["C06"],
)

# --------------------------------------------------------------------------------------------
# DictValue._get_changes  (`snapshot({...})[key]` sub-snapshots)

from pyvc.core import fresh_value as _fv
from pyvc.specs import SPEC_NS as _SNS
from pyvc.types import parse_ty as _pty

DV = "inline_snapshot._snapshot.dict_value"
from .adapters import _keys as _dkeys_of, _dget as _dget_of, dict_contains as _dict_contains  # noqa: E402  (DictV model)

CHILDMAP, CHILD = _Abs("ChildMap"), _Abs("Child")


def _accessed(I, cm, key):
    return _z3.Function("ChildMap_has", _so(CHILDMAP), _so(_Abs("Val")), _z3.BoolSort())(cm.t, _vt(I, key))


def cm_contains(I, cm, item):
    return _SV(_accessed(I, cm, item), _BOOL)


def cm_index(I, cm, key, node):
    I.implicit("KeyError", _accessed(I, cm, key), "key-present", node)
    return _SV(_z3.Function("ChildMap_get", _so(CHILDMAP), _so(_Abs("Val")), _so(CHILD))(cm.t, _vt(I, key)), CHILD)


def cm_items(I, args, kwargs, node):
    cm = args[0]
    pair = _pty("Tuple[Val,Child]")
    items = _fv(I.ctx, _pty("List[Tuple[Val,Child]]"), "new_items")
    acc = sort_of_pair = _so(pair)
    i = _z3.Int(I.ctx.fresh_name("ci"))
    k0, c1 = acc.accessor(0, 0), acc.accessor(0, 1)
    get = _z3.Function("ChildMap_get", _so(CHILDMAP), _so(_Abs("Val")), _so(CHILD))
    has = _z3.Function("ChildMap_has", _so(CHILDMAP), _so(_Abs("Val")), _z3.BoolSort())
    I.ctx.assume(_z3.ForAll([i], _z3.Implies(_z3.And(0 <= i, i < items.nz()),
                 _z3.And(has(cm.t, k0(_z3.Select(items.arr, i))), c1(_z3.Select(items.arr, i)) == get(cm.t, k0(_z3.Select(items.arr, i))))),
                 patterns=[_z3.Select(items.arr, i)]), tag="items")
    return items


def child_get_changes(I, args, kwargs, node):
    c = args[0]
    tr = _z3.Function("child_changes", _so(CHILD), _so(_pty("List[Chg]")))
    from pyvc.core import unpack as _unpack

    return _Obj("generator", {"trace": _unpack(I.ctx, tr(c.t), _pty("List[Chg]")), "value": None})


def child_new_code(I, args, kwargs, node):
    return _SV(_z3.Function("child_code", _so(CHILD), _so(_Abs("Code")))(args[0].t), _Abs("Code"))


_SNS.setdefault("abs_ops", {})["ChildMap"] = {"contains": cm_contains, "index": cm_index}
from pyvc.defaults import DEFAULT_POLICIES as _DP

_DP["attrs"].update({"ChildMap.items": cm_items, "Child._get_changes": child_get_changes, "Child._new_code": child_new_code})


def dv_yield_check(I, v, node, env):
    """own yields of DictValue._get_changes: Delete(trim) only for a key that was never accessed (C05: "trim only removes
    ... keys that were never accessed"); DictInsert(create) at the end of the old entries."""
    if not (isinstance(v, _Obj) and v.rec is None):
        return
    kind = v.cls.rsplit(".", 1)[-1]
    self_ = env.lookup("self")
    if kind == "Delete":
        key = env.lookup("key")
        I.oblige("post", "trims-only-keys-that-were-never-accessed [C05,C14]",
                 _z3.And(_z3.Not(_accessed(I, self_.fields["_new_value"], key)), _z3.BoolVal(v.fields["flag"] == "trim")))
    elif kind == "DictInsert":
        from pyvc.core import zint as _zint

        I.oblige("post", "creates-new-keys-behind-the-old-entries [C05,C01]",
                 _z3.And(_z3.BoolVal(v.fields["flag"] == "create"), _zint(v.fields["position"]) == _zint(I.call_function(I.lookup("len", env), [self_.fields["_old_value"]], {}))))


contract(
    DV + ".DictValue._get_changes",
    params={"self": "@DValue"},
    shapes={"DValue": Shape(DV + ".DictValue", {"_old_value": "DictV", "_new_value": "ChildMap", "_ast_node": "Node", "_context": "@Context"})},
    requires={
        # class invariant: a DictValue with an argument was created from a dict display (UndecidedValue.__getitem__ on snapshot({...}))
        "old-defined": "self._old_value is not undefined",
        "denotes": "implies(self._ast_node is not None, isinstance_node(self._ast_node, 'Dict') and len(self._ast_node.values) == len(dkeys(self._old_value)))",
    },
    loops={
        0: Loop(index="k", inv={"trivial": "True"}),
        1: Loop(index="k1", inv={"pending-are-new-keys": "all(not dhas(self._old_value, to_insert[i][0]) for i in range(0, len(to_insert)))"}),
    },
    ensures={"terminates-normally [C18]": "True"},
    frame=[],
    ghost={"yield_check": dv_yield_check, "none_list_ty": "Node", "locals": {"to_insert": "List[Tuple[Val,Code]]"}, "untracked": ["new_code"],
           "props": ["C05", "C14", "C01"], "frame_props": ["C14"], "light_feasibility": True},
    safety_props=["C18"],
    assumes=["PS5"],
)

# --------------------------------------------------------------------------------------------
# CollectionValue._get_changes

def cv_yield_check(I, v, node, env):
    """own yields of CollectionValue._get_changes: at most one change per old element (C18: edits never overlap),
    Delete(trim) only for elements that were never tested, Replace(update) keeps the value."""
    if not (isinstance(v, _Obj) and v.rec is None):
        return
    kind = v.cls.rsplit(".", 1)[-1]
    if kind in ("Delete", "Replace"):
        k = env.lookup("k")
        last = I.ghost["last_changed"]
        from pyvc.core import zint as _zint

        I.oblige("post", "one-change-per-element [C18,C05]", _zint(last) < _zint(k))
        I.ghost["last_changed"] = k
        if kind == "Delete":
            I.oblige("post", "trims-only-untested-members [C05]", _z3.BoolVal(v.fields["flag"] == "trim"))
        else:
            I.oblige("post", "update-keeps-the-member [C05,C08]", _z3.And(_z3.BoolVal(v.fields["flag"] == "update"), I.zbool(I.identical(v.fields["new_value"], v.fields["old_value"]))))
            # C10: a member that hands control back to the user (Is(...), f-string) is never rewritten by update
            ov, on = v.fields["old_value"], v.fields["node"]
            unm = _z3.Function("isinst_Unmanaged", _so(_Abs("Val")), _z3.BoolSort())(_vt(I, ov))
            js = _z3.Function("isinst_JoinedStr", _so(_Abs("Node")), _z3.BoolSort())(on.t) if isinstance(on, _SV) else _z3.BoolVal(False)
            I.oblige("post", "user-controlled-member-is-never-updated [C10]", _z3.And(_z3.Not(unm), _z3.Not(js)))
    elif kind == "ListInsert":
        from pyvc.core import zint as _zint

        I.oblige("post", "fix-appends-behind-the-old-members [C05,C18]", _z3.And(_z3.BoolVal(v.fields["flag"] == "fix"),
                 _zint(v.fields["position"]) == _zint(I.call_function(I.lookup("len", env), [env.lookup("self").fields["_old_value"]], {}))))


def _cv_new_values(I, n, env):
    from pyvc.types import Opaque as _Op

    r = _z3.Bool(I.ctx.fresh_name("has_new_members"))
    return _Obj("newvalues", {"__len__": _SV(_z3.If(r, _z3.IntVal(1), _z3.IntVal(0)), _pty("Int"))})


contract(
    CV + ".CollectionValue._get_changes",
    params={"self": "@CGValue"},
    shapes={"CGValue": Shape(CV + ".CollectionValue", {"_old_value": "List[Val]", "_new_value": "List[Val]", "_ast_node": "Node", "_context": "@Context"})},
    requires={"denotes": "implies(self._ast_node is not None, isinstance_node(self._ast_node, 'List') and len(self._ast_node.elts) == len(self._old_value))"},
    extern_patterns={"[v for v in self._new_value if v not in self._old_value]": _cv_new_values,
                     "[self._file._value_to_code(v) for v in new_values]": lambda I, n, env: Opaque("codes")},
    loops={0: Loop(index="k", ghost_modifies=["last_changed"], inv={"last-change-is-earlier": "last_changed < k"})},
    ensures={"terminates-normally [C18]": "True"},
    frame=[],
    ghost={"vars": {"last_changed": "=-1"}, "yield_check": cv_yield_check, "none_list_ty": "Node", "props": ["C05", "C08", "C10"], "frame_props": ["C14"]},
    safety_props=["C18"],
)

# --------------------------------------------------------------------------------------------
# DictValue._re_eval (C14: repeated evaluation of the same call site)

def p_generic_re_eval(I, args, kwargs, node):
    I.ghost["parent_re_evaluated_with"] = args[1]
    return None


def child_re_eval(I, args, kwargs, node):
    """child._re_eval(part, context): the sub-snapshot must see the part of the *freshly evaluated* argument under its key
    (handing it the parent's stored old value -- whose Is()/snapshot leaves are Unmanaged wrappers -- makes a wrapper wrap itself)"""
    child, part = args[0], args[1]
    env = I.param_env
    self_, value = env.lookup("self"), env.lookup("value")
    get = _z3.Function("ChildMap_get", _so(CHILDMAP), _so(_Abs("Val")), _so(CHILD))
    q = _z3.Const(I.ctx.fresh_name("k"), _so(_Abs("Val")))
    from .adapters import _dget as _dg

    good = _z3.Exists([q], _z3.And(_accessed(I, self_.fields["_new_value"], _SV(q, _Abs("Val"))), child.t == get(self_.fields["_new_value"].t, q),
                                   _vt(I, part) == _dg(value.t, q)))
    I.oblige("call-pre", f"sub-snapshot-sees-its-part-of-the-new-argument@{getattr(node, 'lineno', '?')} [C14,C06,C10,C18]", good)
    return None


_DP["attrs"].update({"Child._re_eval": child_re_eval})

contract(
    DV + ".DictValue._re_eval",
    params={"self": "@DValue2", "value": "DictV", "context": "Opaque"},
    shapes={"DValue2": Shape(DV + ".DictValue", {"_old_value": "DictV", "_new_value": "ChildMap", "_ast_node": "Node", "_context": "@Context"})},
    callees={"GenericValue._re_eval": p_generic_re_eval},
    requires={"decided": "self._old_value is not undefined and self._new_value is not undefined",
              # GenericValue._re_eval raised UsageError otherwise: same keys as before
              "same-keys": "all(dhas(value, dkeys(self._old_value)[j]) for j in range(0, len(dkeys(self._old_value))))"},
    loops={0: Loop(index="k", ghost_modifies=[], inv={"trivial": "True"})},
    ensures={"parent-re-evaluated-first [C14]": "parent_re_evaluated_with == value"},
    ghost={"vars": {"parent_re_evaluated_with": "=None"}, "props": ["C14", "C06", "C10"], "light_feasibility": True},
    frame=None,
    safety_props=["C18"],
)

# --------------------------------------------------------------------------------------------
# GenericValue._re_eval.re_eval (inner function): what a repeated evaluation of the same snapshot() call does with the
# freshly evaluated argument (C14)

from pyvc.core import RaiseSig as _RaiseSig
from pyvc.types import Obj as _RObj


def p_re_get_adapter(I, args, kwargs, node):
    """self.get_adapter(old_value): None, an adapter without items (ValueAdapter), or a container adapter (PS2)"""
    if I.ctx.choose():
        I.ghost["is_leaf"] = True
        return None if I.ctx.choose() else _RObj("inline_snapshot._adapter.value_adapter.ValueAdapter", {})
    I.ghost["is_leaf"] = False

    def items(I2, v, nd):
        its = _fv(I2.ctx, _pty("List[Item]"), "items")
        if v is I2.param_env.lookup("old_value"):
            I2.ghost["old_items"] = its
        else:
            I2.ghost["new_items"] = its
        return its

    return _RObj("container-adapter", {"items": items})


def p_re_child(I, args, kwargs, node):
    """the recursive call (by this contract): pairs the k-th stored part with the k-th fresh part and its node; may raise UsageError"""
    o, nd, n = args
    k = I.param_env.lookup("k") if I.param_env.has("k") else None
    import ast as _ast

    I.ghost["n_child_calls"] = I.binop(_ast.Add(), I.ghost["n_child_calls"], 1)
    oi, ni = I.ghost["old_items"], I.ghost["new_items"]
    q = _z3.Int(I.ctx.fresh_name("q"))
    IT = _so(_pty("Item"))
    val, nod = IT.accessor(0, 0), IT.accessor(0, 1)
    nt = nd.t if isinstance(nd, _SV) else I.V.none_const(_Abs("Node"))
    good = _z3.Exists([q], _z3.And(0 <= q, q < oi.nz(), q < ni.nz(), _vt(I, o) == val(_z3.Select(oi.arr, q)), nt == nod(_z3.Select(oi.arr, q)),
                                   _vt(I, n) == val(_z3.Select(ni.arr, q))))
    I.oblige("call-pre", f"parts-are-paired-by-position@{getattr(node, 'lineno', '?')} [C14]", good)
    if not I.ctx.choose():
        I.ghost["child_raised"] = True
        raise _RaiseSig("UsageError", info=["re_eval"])
    return None


def p_update_allowed(I, args, kwargs, node):
    r = _SV(_z3.Bool(I.ctx.fresh_name("update_allowed")), _BOOL)
    I.ghost["ua"] = r
    return r


RG = {"is_leaf": "=None", "old_items": "=None", "new_items": "=None", "n_child_calls": "=0", "child_raised": "=False", "ua": "=None"}

contract(
    GV + ".GenericValue._re_eval.re_eval",
    name=GV + ".GenericValue._re_eval.re_eval#unmanaged",
    params={"self": "@Value", "old_value": "@UnmObj", "node": "Node", "value": "Val"},
    shapes={"UnmObj": Shape("inline_snapshot._unmanaged.Unmanaged", {"value": "Val"})},
    ghost={"vars": RG},
    ensures={
        # C14: an Is()/dirty-equals/nested-snapshot part of the stored argument always stands for what the *current* evaluation
        # produced there (a helper called from two call sites hands in two different snapshot objects)
        "unmanaged-part-is-rebound-to-the-fresh-value [C14,C06]": "same(old_value.value, value) and n_child_calls == 0",
    },
    raises={},
    safety_props=["C18"],
)

contract(
    GV + ".GenericValue._re_eval.re_eval",
    name=GV + ".GenericValue._re_eval.re_eval#managed",
    params={"self": "@Value", "old_value": "Val", "node": "Node", "value": "Val"},
    requires={"managed": "not isinstance_of(old_value, 'Unmanaged')"},
    callees={"GenericValue.get_adapter": p_re_get_adapter, "re_eval": p_re_child, "update_allowed": p_update_allowed,
             "inline_snapshot._unmanaged.update_allowed": p_update_allowed},
    loops={0: Loop(index="k", ghost_modifies=["n_child_calls"], inv={"one-call-per-pair": "n_child_calls == k"})},
    ghost={"vars": RG, "asserts_raise": True},
    uses=["val"],
    ensures={
        # C14: "changed -> usage error": a managed leaf is accepted only if it still equals the stored value
        "leaf-accepted-only-when-unchanged [C14]": "when(is_leaf, T(eq(old_value, value)))",
        "every-pair-of-parts-is-checked [C14]": "when(is_leaf == False, n_child_calls == len(old_items) and len(old_items) == len(new_items))",
    },
    raises={"UsageError": {"only-for-a-changed-leaf-or-from-a-part [C14]": "(is_leaf and not T(eq(old_value, value))) or child_raised"},
            "AssertionError": {"internal-sanity-checks [C18]": "True"}},
    safety_props=["C18"],
    assumes=["PS2"],
)


def p_re_root(I, args, kwargs, node):
    I.ghost["n_child_calls"] = I.ghost["n_child_calls"] + 1
    I.ghost["root_args"] = tuple(args)
    if not I.ctx.choose():
        raise _RaiseSig("UsageError", info=["re_eval"])
    return None


contract(
    GV + ".GenericValue._re_eval",
    params={"self": "@Value", "value": "Val", "context": "Opaque"},
    callees={"re_eval": p_re_root},
    ghost={"vars": {"n_child_calls": "=0", "root_args": "=None"}},
    ensures={
        # C14: the whole stored argument is compared with the whole fresh argument, starting at the argument's own node
        "compares-the-stored-argument-with-the-fresh-one [C14]": "n_child_calls == 1 and same(root_args[0], self._old_value) and same(root_args[1], self._ast_node) and same(root_args[2], value)",
        "adopts-the-context-of-this-evaluation [C14]": "self._context is context",
    },
    raises={"UsageError": {"from-the-comparison [C14]": "n_child_calls == 1"}},
    safety_props=["C18"],
)

# CollectionValue._get_changes when the only `in` test raised before anything was recorded (C18 "comparisons that raise"):
# UndecidedValue.__contains__ has already turned the object into a CollectionValue, _new_value is still the sentinel
contract(
    CV + ".CollectionValue._get_changes",
    name=CV + ".CollectionValue._get_changes#unrecorded",
    params={"self": "@CGValueU"},
    shapes={"CGValueU": Shape(CV + ".CollectionValue", {"_old_value": "List[Val]", "_new_value": "=Ellipsis", "_ast_node": "Node", "_context": "@Context"})},
    requires={"denotes": "implies(self._ast_node is not None, isinstance_node(self._ast_node, 'List') and len(self._ast_node.elts) == len(self._old_value))"},
    extern_patterns={"[v for v in self._new_value if v not in self._old_value]": _cv_new_values,
                     "[self._file._value_to_code(v) for v in new_values]": lambda I, n, env: Opaque("codes")},
    loops={0: Loop(index="k", ghost_modifies=["last_changed"], inv={"last-change-is-earlier": "last_changed < k"})},
    ensures={"nothing-recorded-nothing-pending [C18,C05]": "len(trace) == 0"},
    raises={},
    frame=[],
    ghost={"vars": {"last_changed": "=-1"}, "none_list_ty": "Node", "props": ["C18", "C05"]},
    safety_props=["C18"],
)

# --------------------------------------------------------------------------------------------
# DictValue.__getitem__  (`snapshot({...})[key]`: one sub-snapshot per key)

import ast as _ast

from pyvc.core import pack as _pack


def _cm_fns():
    has = _z3.Function("ChildMap_has", _so(CHILDMAP), _so(_Abs("Val")), _z3.BoolSort())
    get = _z3.Function("ChildMap_get", _so(CHILDMAP), _so(_Abs("Val")), _so(CHILD))
    return has, get


def _child_box(I, m_t):
    """self._new_value: a dict key -> sub-snapshot, as an object holding an abstract map (so that old() sees the map before)"""
    box = _Obj("dict", {"m": _SV(m_t, CHILDMAP)})
    has, get = _cm_fns()

    def contains(I2, key):
        return _SV(has(box.fields["m"].t, _vt(I2, key)), _BOOL)

    def getitem(I2, key):
        I2.implicit("KeyError", has(box.fields["m"].t, _vt(I2, key)), "key-present", None)
        return _SV(get(box.fields["m"].t, _vt(I2, key)), CHILD)

    def setitem(I2, key, v):
        old = box.fields["m"].t
        new = _z3.Const(I2.ctx.fresh_name("childmap"), _so(CHILDMAP))
        k = _z3.Const(I2.ctx.fresh_name("k"), _so(_Abs("Val")))
        kt = _vt(I2, key)
        I2.ctx.assume(_z3.ForAll([k], _z3.And(has(new, k) == _z3.Or(k == kt, has(old, k)), get(new, k) == _z3.If(k == kt, v.t, get(old, k))),
                                 patterns=[has(new, k), get(new, k)]), tag="store")
        box.fields["m"] = _SV(new, CHILDMAP)
        return None

    box.fields.update({"__contains__": contains, "__getitem__": getitem, "__setitem__": setitem})
    return box


def gi_stmt_hook(I, st, env):
    """`self._new_value = {}` (first access): an empty key -> sub-snapshot map"""
    if isinstance(st, _ast.Assign) and len(st.targets) == 1 and _ast.unparse(st.targets[0]) == "self._new_value" and isinstance(st.value, _ast.Dict) and not st.value.keys:
        has, _ = _cm_fns()
        empty = _z3.Const("empty_childmap", _so(CHILDMAP))
        k = _z3.Const(I.ctx.fresh_name("k"), _so(_Abs("Val")))
        I.ctx.define("empty-childmap", lambda: _z3.ForAll([k], _z3.Not(has(empty, k)), patterns=[has(empty, k)]))
        I.setattr(env.lookup("self"), "_new_value", _child_box(I, empty))
        return True
    return False


def p_new_child(I, args, kwargs, node):
    """UndecidedValue(part, node, context): a fresh sub-snapshot; what it was made from is recorded"""
    c = _SV(_z3.Const(I.ctx.fresh_name("child"), _so(CHILD)), CHILD)
    I.ghost["n_created"] = I.ghost["n_created"] + 1
    I.ghost["created_from"], I.ghost["created_node"], I.ghost["created_context"] = args[0], args[1], args[2]
    return c


def s_cm_has(I, box, key):
    has, _ = _cm_fns()
    return _SV(has(box.fields["m"].t, _vt(I, key)), _BOOL)


def s_cm_get(I, box, key):
    _, get = _cm_fns()
    return _SV(get(box.fields["m"].t, _vt(I, key)), CHILD)


def s_cm_same_elsewhere(I, new, old, key):
    has, get = _cm_fns()
    k = _z3.Const(I.ctx.fresh_name("k"), _so(_Abs("Val")))
    return _SV(_z3.ForAll([k], _z3.Implies(k != _vt(I, key), _z3.And(has(new.fields["m"].t, k) == has(old.fields["m"].t, k), get(new.fields["m"].t, k) == get(old.fields["m"].t, k)))), _BOOL)


_SNS.update({"cm_has": s_cm_has, "cm_get": s_cm_get, "cm_same_elsewhere": s_cm_same_elsewhere})

def _gi_setup_later(I, env):
    I.setattr(env.lookup("self"), "_new_value", _child_box(I, _z3.Const(I.ctx.fresh_name("new_value_map"), _so(CHILDMAP))))


OLD_DEF = "self._old_value is not undefined"
IN_OLD = "(" + OLD_DEF + " and dhas(self._old_value, index))"

for variant in ("first", "later"):
    HAD = "False" if variant == "first" else "cm_has(old(self._new_value), index)"
    contract(
        DV + ".DictValue.__getitem__",
        name=f"{DV}.DictValue.__getitem__#{variant}",
        params={"self": "@GIValue", "index": "Val"},
        shapes={"GIValue": Shape(DV + ".DictValue", {"_old_value": "DictV", "_new_value": "=Ellipsis", "_ast_node": "Node", "_context": "@Context"})},
        callees={"UndecidedValue": p_new_child, "inline_snapshot._snapshot.undecided_value.UndecidedValue": p_new_child},
        # class invariant: a DictValue with a source node was made from a dict display whose entries are the entries of its value
        requires={"denotes": "implies(self._ast_node is not None, " + OLD_DEF + " and isinstance_node(self._ast_node, 'Dict') and len(self._ast_node.values) == len(dkeys(self._old_value)))"},
        returns=None,
        result_name="ret",
        uses=["val"],
        ensures={
            # C01 "[key]: a mapping with every requested key" / C05 "create ... adds a missing sub-snapshot key": every key that is asked
            # for has its sub-snapshot afterwards, and that is what the subscription returns
            "returns-the-sub-snapshot-of-the-key [C01,C05,C14]": "cm_has(self._new_value, index) and same(ret, cm_get(self._new_value, index))",
            # C14: one sub-snapshot per key for the whole session
            "existing-sub-snapshot-is-reused [C14,C05]": "implies(" + HAD + ", n_created == 0" + ("" if variant == "first" else " and same(ret, cm_get(old(self._new_value), index)) and cm_same_elsewhere(self._new_value, old(self._new_value), index)") + ")",
            # C05/C11: a new sub-snapshot starts from the entry of that key in the source (value and node), or empty
            "new-sub-snapshot-starts-from-its-own-entry [C05,C11,C01,C10]": "implies(not " + HAD + ", n_created == 1 and created_context is self._context"
                " and implies(" + IN_OLD + ", same(created_from, dget(self._old_value, index)))"
                " and implies(not " + IN_OLD + ", created_from is undefined)"
                " and implies(self._ast_node is None or not " + IN_OLD + ", created_node is None))",
            "node-of-the-entry [C11,C10,C03]": "implies(not " + HAD + " and self._ast_node is not None and " + IN_OLD + ","
                " any(same(dkeys(self._old_value)[j], index) and same(created_node, self._ast_node.values[j]) for j in range(0, len(dkeys(self._old_value)))))",
            "missing-counted [C07]": "state.missing_values == old(state.missing_values) + ite(not " + HAD + " and not " + OLD_DEF + ", 1, 0)",
        },
        ghost=dict({"vars": {"n_created": "=0", "created_from": "=None", "created_node": "=None", "created_context": "=None"}, "stmt_hook": gi_stmt_hook},
                   **({"setup": _gi_setup_later} if variant == "later" else {})),
        safety_props=["C18"],
        assumes=["PS5"],
    )
