"""Replay file written by /verif/check.py
{
 "property": "C03",
 "failed_obligation": "_rewrite_code.SourceFile.rewrite/post:written-once",
 "path": 1,
 "function": "inline_snapshot._rewrite_code.SourceFile.rewrite",
 "verdict": "refuted",
 "backend": "z3-5.1",
 "solver_model": "truth_opq_in!13 = True",
 "where": ""
}
"""

print('no native failing input was found for this obligation; see the header for the solver output')
