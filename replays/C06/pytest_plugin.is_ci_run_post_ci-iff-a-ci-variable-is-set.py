"""Replay file written by /verif/check.py
{
 "property": "C06",
 "failed_obligation": "pytest_plugin.is_ci_run/post:ci-iff-a-ci-variable-is-set",
 "path": 14,
 "function": "inline_snapshot.pytest_plugin.is_ci_run",
 "verdict": "refuted",
 "backend": "z3-5.1",
 "solver_model": "env_BUILDKITE!32 = \"Z\"\nenv_BUILD_ID!22 = \"W\"\nenv_BUILD_NUMBER!27 = \"X\"\nenv_CI!12 = \"F\"\nenv_CIRCLECI!37 = \"[\"\nenv_CONTINUOUS_INTEGRATION!42 = \"\\\"\nenv_GITHUB_ACTIONS!47 = \"]\"\nenv_HUDSON_URL!52 = \"^\"\nenv_JENKINS_URL!57 = \"`\"\nenv_TEAMCITY_VERSION!62 = \"c\"\nenv_TRAVIS!67 = \"f\"\nenv_bamboo_buildKey!17 = \"Q\"\nenv_nonempty = [Concat(Unit(80),\n        Concat(Unit(89),\n               Concat(Unit(67),\n                      Concat(Unit(72),\n                             Concat(Unit(65),\n                                    Concat(Unit(82),\n                                        Concat(Unit(77),\n                                        Concat(Unit(95),\n                                        Concat(Unit(72),\n                                        Concat(Unit(79),\n                                        Concat(Unit(83),\n                                        Concat(Unit(84),\n                                        Concat(Unit(69),\n                                        Unit(68)))))))))))))) ->\n False,\n else -> True]\neq_opq!13 = False\neq_opq!14 = False\neq_opq!15 = False\neq_opq!16 = False\neq_opq!18 = False\neq_opq!19 = False\neq_opq!20 = False\neq_opq!21 = False\neq_opq!23 = False\neq_opq!24 = False\neq_opq!25 = False\neq_opq!26 = False\neq_opq!28 = False\neq_opq!29 = False\neq_opq!30 = False\neq_opq!31 = False\neq_opq!33 = False\neq_opq!34 = False\neq_opq!35 = False\neq_opq!36 = False\neq_opq!38 = False\neq_opq!39 = False\neq_opq!40 = False\neq_opq!41 = False\neq_opq!43 = False\neq_opq!44 = False\neq_opq!45 = False\neq_opq!46 = False\neq_opq!48 = False\neq_opq!49 = False\neq_opq!50 = False\neq_opq!51 = False\neq_opq!53 = False\neq_opq!54 = False\neq_opq!55 = False\neq_opq!56 = False\neq_opq!58 = False\neq_opq!59 = False\neq_opq!60 = False\neq_opq!61 = False\neq_opq!63 = False\neq_opq!64 = False\neq_opq!65 = False\neq_opq!66 = False\neq_opq!68 = False\neq_opq!69 = False\neq_opq!70 = False\neq_opq!71 = False",
 "where": ""
}
"""

print('no native failing input was found for this obligation; see the header for the solver output')
