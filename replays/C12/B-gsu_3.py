"""Replay file written by /verif/check.py
{
 "property": "C12",
 "standin": "B-gsu",
 "bound": "displays with <= 3 elements x 4 layouts x 4 kinds x delete subsets x 5 insert patterns (1500 sampled cases quick / all thorough) through the real apply_all + new_code",
 "input": "('list', 'trailing', ('f(5)', '[3,\\n  4]'), (1,), {0: ['7']})",
 "detail": "result does not parse (closing parenthesis ']' does not match opening parenthesis '('): \"x = '\u00e4\u00f6'; v =7,  [f(]  # tail\\ny = 2\\n\""
}
"""

import sys, tempfile
sys.path.insert(0, "/verif")
from bounded.b_gsu import one_case
msg = one_case(tempfile.mkdtemp(), *('list', 'trailing', ('f(5)', '[3,\n  4]'), (1,), {0: ['7']}))
print(('list', 'trailing', ('f(5)', '[3,\n  4]'), (1,), {0: ['7']}), "->", msg)
assert msg is None, msg

