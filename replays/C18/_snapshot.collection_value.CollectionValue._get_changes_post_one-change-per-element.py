"""Replay file written by /verif/check.py
{
 "property": "C18",
 "failed_obligation": "_snapshot.collection_value.CollectionValue._get_changes/post:one-change-per-element",
 "path": 5,
 "function": "inline_snapshot._snapshot.collection_value.CollectionValue._get_changes",
 "verdict": "refuted",
 "backend": "z3-5.1",
 "solver_model": "Node_elts = [else -> mk_List_Node(K(Int, Node!val!2), 7720)]\nNone_Node = Node!val!1\nNone_Val = Val!val!0\narray-ext = [else -> 21238]\neq_Val = [else -> Val!val!4]\nisinst_JoinedStr = [else -> False]\nisinst_List = [Node!val!0 -> True, else -> False]\nisinst_Unmanaged = [else -> False]\nk!17 = 7719\nlast_changed!15 = 7718\nnode_tokens = [else -> Toks!val!0]\nself._ast_node!3 = Node!val!0\nself._new_value!2 = mk_List_Val(Store(K(Int, Val!val!4), 21238, Val!val!3), 0)\nself._old_value!1 = mk_List_Val(Store(K(Int, Val!val!2), 7719, Val!val!1), 7720)\ntokens_of = [else -> Toks!val!1]\ntrace!16 = mk_List_Rec_Chg(K(Int,\n                  mk_Rec_Chg(\"\",\n                             \"\",\n                             Node!val!0,\n                             Val!val!0,\n                             Val!val!0,\n                             Code!val!0,\n                             0)),\n                0)\ntruthy_Val = [else -> False]",
 "where": ""
}
"""

print('no native failing input was found for this obligation; see the header for the solver output')
