"""Replay file written by /verif/check.py
{
 "property": "C07",
 "failed_obligation": "_snapshot.min_max_value.MinMaxValue._generic_cmp#MaxValue/post:failing-comparison-counted",
 "path": 8,
 "function": "inline_snapshot._snapshot.min_max_value.MinMaxValue._generic_cmp#MaxValue",
 "verdict": "refuted",
 "backend": "z3-5.1",
 "solver_model": "FalseVal = Val!val!1\nNoneVal = Val!val!2\nTrueVal = Val!val!0\n_snapshot.generic_value.GenericValue._return_result!18 = Val!val!0\n_snapshot.generic_value.clone_result!16 = Val!val!8\ndeepcopy_Val = [else ->\n If(And(Var(0) == Val!val!4,\n        Not(Var(0) == Val!val!8),\n        Not(Var(0) == Val!val!2),\n        Not(Var(0) == Val!val!0),\n        Not(Var(0) == Val!val!6),\n        Not(Var(0) == Val!val!10),\n        Not(Var(0) == Val!val!7),\n        Not(Var(0) == Val!val!11)),\n    Val!val!4,\n    Val!val!8)]\neq_Val = [else -> Val!val!9]\nge_Val = [(Val!val!5, Val!val!3) -> Val!val!10,\n (Val!val!8, Val!val!3) -> Val!val!11,\n else -> Val!val!7]\nother!4 = Val!val!3\nself._new_value!2 = Val!val!6\nself._old_value!1 = Val!val!5\nstate.incorrect_values!17 = 0\nstate.incorrect_values!6 = 0\nstate.update_flags.fix!8 = True\ntruthy_Val = [Val!val!0 -> True,\n Val!val!9 -> True,\n Val!val!11 -> True,\n else -> False]\nundefined_Val = Val!val!4",
 "where": ""
}
"""

print('no native failing input was found for this obligation; see the header for the solver output')
