"""Replay file written by /verif/check.py
{
 "property": "C12",
 "standin": "B-gsu",
 "bound": "displays with <= 3 elements x 4 layouts x 4 kinds x delete subsets x 5 insert patterns (1500 sampled cases quick / all thorough) through the real apply_all + new_code",
 "input": "('call', 'single', ('f(5)', \"'s'\", '\"\"\"a\\nb\"\"\"'), (0,), {3: ['8', '9']})",
 "detail": "AssertionError: (Replacement(range=SourceRange(start=SourcePosition(lineno=1, col_offset=4), end=SourcePosition(lineno=2, col_offset=4)), text=', 8, 9', change_id=32), Replacement(range=SourceRange(start=SourcePosition(lineno=1, col_offset=16), end=SourcePosition(lineno=1, col_offset=22)), text='', change_id=32))"
}
"""

import sys, tempfile
sys.path.insert(0, "/verif")
from bounded.b_gsu import one_case
msg = one_case(tempfile.mkdtemp(), *('call', 'single', ('f(5)', "'s'", '"""a\nb"""'), (0,), {3: ['8', '9']}))
print(('call', 'single', ('f(5)', "'s'", '"""a\nb"""'), (0,), {3: ['8', '9']}), "->", msg)
assert msg is None, msg

