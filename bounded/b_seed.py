"""B-seed: bounded stand-in for property C16 (text depends only on the value and the file).

The real inline_snapshot._code_repr.code_repr and SourceFile._value_to_code are run in SEPARATE interpreter
processes (sys.executable, PYTHONHASHSEED = 0..3 quick / 0..7 thorough) over a fixed list of values written as
Python source expressions.  Per value:
  1. seed independence: code_repr text and _value_to_code text are byte-identical in every process;
  2. construction order (sets / frozensets only, F15 = dict insertion order is NOT compared): the same set
     rebuilt from reversed / repr-sorted / shuffled element order gives the same text inside one process;
  3. formatter independence, per seed: black (default), black blocked (a stub `black.py` that raises ImportError
     is first on sys.path) and format_command="cat" (both the fragment that _value_to_code returns and that
     fragment piped through the real format_code -> `cat`) give texts with the same ast.dump, and every text
     evaluates (in the child, with the Enum classes in scope) to a value equal to the original.

Known defect F9: a set whose elements are only partially ordered and do not raise on `<` (sets / frozensets under
the subset order, tuples of them) is rendered in hash iteration order.  Predicate used for the tag: see _is_f9.
"""
from __future__ import annotations

import ast
import json
import os
import shutil
import subprocess
import sys
import tempfile
import time
import traceback
from concurrent.futures import ThreadPoolExecutor

from bounded import standin

VALUES = [
    # sets / frozensets of ints
    "{3, 1, 2}",
    "{10**20, -1, 0, 8, 16, 24, 32}",
    "frozenset({5, 3, 9})",
    "{True, 2, 0}",
    "{1.5, -0.5, 2}",
    # strs / bytes (hash depends on PYTHONHASHSEED)
    '{"b", "a", "c"}',
    '{"apple", "Banana", "cherry", "", " ", "\\n", "\\u00e9"}',
    'frozenset({"x", "y", "z", "w", "v", "u"})',
    'set("the quick brown fox jumps over the lazy dog".split())',
    '{b"a", b"c", b"b"}',
    # mixed, not orderable -> sorted by repr
    '{1, "a", 2, "b"}',
    '{1, "1", (1,), None}',
    'frozenset({None, 1, "a", b"a", 2.5})',
    # tuples
    "{(1, 2), (0, 5), (1, 1)}",
    '{("a", 1), ("b", 0), ("a", 0)}',
    '{(1, "a"), (1, 2), (2, "b"), (0, "c"), (3, 1), (2, "a"), (4, "x")}',
    '{("k", frozenset({"p", "q"})), ("j", frozenset({"r"}))}',
    # nested frozensets / sets of frozensets (F9 shapes)
    "frozenset({frozenset({1, 2}), frozenset({3})})",
    '{frozenset({"a"}), frozenset({"b"}), frozenset({"c"})}',
    '{frozenset({c}) for c in "abcdefgh"}',
    'frozenset({frozenset({"x", "y"}), frozenset({"z"}), frozenset({"y", "z"})})',
    '{"k": {frozenset({"m"}), frozenset({"n"}), frozenset({"o"}), frozenset({"p"})}}',
    # totally ordered chains of frozensets (subset order is total here: sorted() is enough)
    '{frozenset(), frozenset({"a"}), frozenset({"a", "b"}), frozenset({"a", "b", "c"})}',
    # a frozenset next to something it cannot be compared with -> TypeError -> sorted by repr
    '{frozenset({"a"}), 1, "s"}',
    # dicts with str keys built in one order; dicts / lists / tuples that contain sets
    '{"b": 1, "a": 2, "c": 3}',
    '{"k": {3, 1, 2}, "j": frozenset({"q", "p", "r"})}',
    '{"outer": {"z": {"b", "a"}, "y": [frozenset({"d", "c"}), {"f", "e"}]}}',
    '[{"b", "a"}, {2, 1}, set(), frozenset()]',
    '({"x", "y", "z"}, frozenset({"x"}), {"k": set("hello")})',
    # one-element tuples and other containers whose text is produced by their own repr method: what is nested in them must go through
    # the same (sorting) repr
    '({"x", "y", "z", "w"},)',
    '(frozenset({"p", "q", "r", "s"}),)',
    '[({"b", "a", "c", "d"},), ((frozenset({"f", "e", "g"}),),)]',
    '{"t": ({"m", "n", "o", "l"},)}',
    '({"x", "y", "z", "w"}, 1)',
    # Enum members (Enum.__hash__ hashes the name: seed dependent; not orderable -> sorted by repr)
    "Color.RED",
    "{Color.RED, Color.GREEN, Color.BLUE}",
    "frozenset({Color.BLUE, Size.S, Size.L})",
    "{Color.RED: 1, Color.GREEN: {Size.M, Size.L}}",
    "[Color.GREEN, Size.S, Perm.R | Perm.W, Perm.X]",
    "{Size.S, Size.L, Size.M}",
    '{"mixed": {Color.RED, "RED", 1}}',
    # empty
    "set()",
    "frozenset()",
    "{frozenset()}",
]
VALUES_THOROUGH = [
    "set(range(-20, 200, 7))",
    "{str(i) for i in range(60)}",
    "{(str(i), i % 3) for i in range(40)}",
    "{frozenset({str(i), str(i + 1)}) for i in range(12)}",
    "{frozenset(range(i)) for i in range(6)}",
    '{"a": {str(i): {str(j) for j in range(i)} for i in range(6)}}',
    "{Color.RED, Size.S, 1, 'x', None, (1, 2), 2.5}",
    "[set('abcdefghijklmnopqrstuvwxyz'), frozenset('zyxwvutsrqponmlkjihgfedcba')]",
    "{(frozenset({'a'}), 1), (frozenset({'b'}), 0)}",
]

CHILD = r'''
import ast, json, os, random, sys
mode, workdir, srcdir, shuffle_seed = sys.argv[1], sys.argv[2], sys.argv[3], int(sys.argv[4])
if srcdir:
    sys.path.insert(0, srcdir)  # the tree the parent process resolves inline_snapshot to
black_blocked = None
if mode == "noblack":
    try:
        import black  # the stub first on sys.path raises ImportError
        black_blocked = False
    except ImportError:
        black_blocked = True
from enum import Enum, Flag, IntEnum
from pathlib import Path
from executing import Source
from inline_snapshot import _config
from inline_snapshot._code_repr import code_repr
from inline_snapshot._format import format_code
from inline_snapshot._source_file import SourceFile

class Color(Enum):
    RED = "r"
    GREEN = "g"
    BLUE = "b"
class Size(IntEnum):
    S = 1
    M = 2
    L = 3
class Perm(Flag):
    R = 4
    W = 2
    X = 1
NS = dict(Color=Color, Size=Size, Perm=Perm)

p = os.path.join(workdir, "snap_%d.py" % os.getpid())
open(p, "w").write("from inline_snapshot import snapshot\n\nassert 1 == snapshot()\n")
sf = SourceFile(Source.for_filename(p))
if mode == "cat":
    _config.config.format_command = "cat"

def set_nodes(v):
    if isinstance(v, (set, frozenset)):
        yield v
    if isinstance(v, dict):
        for k, x in v.items():
            yield from set_nodes(k)
            yield from set_nodes(x)
    elif isinstance(v, (list, tuple, set, frozenset)):
        for x in v:
            yield from set_nodes(x)

def f9_shape(v):
    """Kind of the first witness, or None: some set / frozenset inside v has two distinct elements a, b with
    neither a < b nor b < a, and neither comparison raises: `<` is a partial order there, so sorted() succeeds
    without fixing the order.  (set/frozenset elements under the subset order; tuples whose first differing
    components are such sets; ...)"""
    for s in set_nodes(v):
        elems = list(s)
        for i, a in enumerate(elems):
            for b in elems[i + 1:]:
                try:
                    if a != b and not a < b and not b < a:
                        return "%s / %s" % (type(a).__name__, type(b).__name__)
                except TypeError:
                    pass
    return None

def evaluates_back(text, v):
    try:
        return bool(eval(text, dict(NS)) == v)
    except Exception as e:
        return "%s: %s" % (type(e).__name__, e)

out = {"mode": mode, "hashseed": os.environ.get("PYTHONHASHSEED"), "black_blocked": black_blocked, "values": {}}
for expr in json.load(sys.stdin):
    rec = {}
    try:
        v = eval(expr, dict(NS))
        rec["repr"] = code_repr(v)
        rec["code"] = sf._value_to_code(v)
        rec["f9_kind"] = f9_shape(v)
        rec["f9_shape"] = rec["f9_kind"] is not None
        rec["repr_evals_back"] = evaluates_back(rec["repr"], v)
        rec["code_evals_back"] = evaluates_back(rec["code"], v)
        try:
            rec["dump"] = ast.dump(ast.parse(rec["code"]))
        except SyntaxError as e:
            rec["dump"] = "SyntaxError: %s" % e
        if mode == "cat":
            piped = format_code(rec["code"], Path(p)).strip()
            rec["piped"] = piped
            rec["piped_evals_back"] = evaluates_back(piped, v)
            try:
                rec["piped_dump"] = ast.dump(ast.parse(piped))
            except SyntaxError as e:
                rec["piped_dump"] = "SyntaxError: %s" % e
        if mode == "black" and isinstance(v, (set, frozenset)) and len(v) > 1:
            elems = list(v)
            rng = random.Random(shuffle_seed)
            orders = {"reversed": elems[::-1], "repr-sorted": sorted(elems, key=repr), "repr-sorted-reversed": sorted(elems, key=repr)[::-1]}
            for i in range(3):
                sh = list(elems)
                rng.shuffle(sh)
                orders["shuffle%d" % i] = sh
            rec["orders"] = {}
            for name, order in orders.items():
                w = type(v)()
                if isinstance(v, set):
                    for e in order:
                        w.add(e)
                else:
                    w = frozenset(order)
                assert w == v
                rec["orders"][name] = code_repr(w)
    except Exception:
        import traceback
        rec["error"] = traceback.format_exc()
    out["values"][expr] = rec
from inline_snapshot import _problems
out["problems"] = len(_problems.all_problems)
json.dump(out, sys.stdout)
'''

_ENUMS = '''\
from enum import Enum, Flag, IntEnum
class Color(Enum):
    RED = "r"
    GREEN = "g"
    BLUE = "b"
class Size(IntEnum):
    S = 1
    M = 2
    L = 3
class Perm(Flag):
    R = 4
    W = 2
    X = 1
'''

_REPLAY_SEED = '''\
# run with: /verif/.venv/bin/python <this file>      (inline_snapshot is the editable install of /repo)
import os, subprocess, sys
EXPR = {expr!r}
CHILD = {enums!r} + """
import sys
from inline_snapshot._code_repr import code_repr
sys.stdout.write(code_repr(eval(sys.argv[1])))
"""
texts = {{}}
for seed in {seeds!r}:
    env = dict(os.environ, PYTHONHASHSEED=str(seed))
    texts[seed] = subprocess.run([sys.executable, "-c", CHILD, EXPR], env=env, capture_output=True, text=True, check=True).stdout
    print(seed, texts[seed])
assert len(set(texts.values())) == 1, "code_repr text differs between hash seeds"
'''

_REPLAY_ORDER = '''\
# run with: PYTHONHASHSEED={seed} /verif/.venv/bin/python <this file>
import os, subprocess, sys
if os.environ.get("PYTHONHASHSEED") != "{seed}":
    sys.exit(subprocess.run([sys.executable, __file__], env=dict(os.environ, PYTHONHASHSEED="{seed}")).returncode)
{enums}
from inline_snapshot._code_repr import code_repr
import random
v = eval({expr!r})
elems = list(v)
rng = random.Random({shuffle_seed})
orders = [elems, elems[::-1], sorted(elems, key=repr), sorted(elems, key=repr)[::-1]]
for i in range(3):
    sh = list(elems)
    rng.shuffle(sh)
    orders.append(sh)
texts = set()
for order in orders:
    if isinstance(v, frozenset):
        w = frozenset(order)
    else:
        w = set()
        for e in order:
            w.add(e)
    assert w == v
    texts.add(code_repr(w))
print(texts)
assert len(texts) == 1, "code_repr text depends on the order in which the set was built"
'''

_REPLAY_FMT = '''\
# run with: /verif/.venv/bin/python <this file>      (inline_snapshot is the editable install of /repo)
import ast, os, subprocess, sys, tempfile
EXPR = {expr!r}
d = tempfile.mkdtemp()
open(os.path.join(d, "black.py"), "w").write("raise ImportError('black is blocked')\\n")
CHILD = {enums!r} + """
import os, sys, tempfile
from pathlib import Path
from executing import Source
from inline_snapshot import _config
from inline_snapshot._format import format_code
from inline_snapshot._source_file import SourceFile
p = os.path.join(tempfile.mkdtemp(), "snap.py")
open(p, "w").write("x = 1\\\\n")
sf = SourceFile(Source.for_filename(p))
v = eval(sys.argv[2])
if sys.argv[1] == "cat":
    _config.config.format_command = "cat"
    text = format_code(sf._value_to_code(v), Path(p)).strip()
else:
    text = sf._value_to_code(v)
assert eval(text) == v, "text does not evaluate back: " + text
sys.stdout.write(text)
"""
dumps = {{}}
for mode in ("black", "noblack", "cat"):
    env = dict(os.environ, PYTHONHASHSEED="{seed}")
    if mode == "noblack":
        env["PYTHONPATH"] = d
    text = subprocess.run([sys.executable, "-c", CHILD, mode, EXPR], env=env, capture_output=True, text=True, check=True).stdout
    print(mode, repr(text))
    dumps[mode] = ast.dump(ast.parse(text))
assert len(set(dumps.values())) == 1, "the formatter variant changes the syntax tree of the written text"
'''


def _is_f9(recs):
    """F9 iff ALL of
    1. the texts of the value differ (between hash seeds, or between construction orders of the same set);
    2. the value has the F9 shape, computed on the real value in the child (f9_shape): some set / frozenset inside it
       has two distinct elements a, b with `not a < b and not b < a` and neither comparison raises (elements that are
       sets / frozensets which are not subsets of each other, or tuples that first differ in such a component);
    3. every variant text still evaluates back to the value (so ONLY the element order differs).
    """
    recs = [r for r in recs if r]
    return bool(recs) and all(r.get("f9_shape") is True and r.get("repr_evals_back") is True and r.get("code_evals_back") is True for r in recs)


def _srcdir():
    """Directory that holds the inline_snapshot package in THIS process (so the children test the same tree)."""
    try:
        import importlib.util

        spec = importlib.util.find_spec("inline_snapshot")
        return os.path.dirname(list(spec.submodule_search_locations)[0])
    except Exception:
        return ""


def _child(mode, hashseed, exprs, workdir, stubdir, shuffle_seed):
    env = dict(os.environ, PYTHONHASHSEED=str(hashseed))
    if mode == "noblack":
        env["PYTHONPATH"] = stubdir + (os.pathsep + env["PYTHONPATH"] if env.get("PYTHONPATH") else "")
    try:
        p = subprocess.run([sys.executable, "-c", CHILD, mode, workdir, _srcdir(), str(shuffle_seed)], input=json.dumps(exprs), env=env, cwd=workdir,
                           capture_output=True, text=True, timeout=600)
        if p.returncode != 0:
            return dict(error=f"child exit {p.returncode}\n{p.stderr[-3000:]}")
        return json.loads(p.stdout)
    except Exception:
        return dict(error=traceback.format_exc())


@standin("B-seed", props=["C16"],
         bound="fixed list of 39 (quick) / 48 (thorough) set / frozenset / dict / Enum values, each rendered by code_repr and _value_to_code in separate "
               "interpreters with PYTHONHASHSEED 0..3 (quick) / 0..7 (thorough) x {black, black import blocked, format_command=cat}; "
               "6 extra construction orders per top-level set; dict insertion order (F15) not varied")
def run(tier, seed):
    t0 = time.time()
    workdir = None
    try:
        workdir = tempfile.mkdtemp(prefix="bseed_")
        stubdir = os.path.join(workdir, "stub")
        os.mkdir(stubdir)
        with open(os.path.join(stubdir, "black.py"), "w") as f:
            f.write("raise ImportError('black is blocked by the B-seed stand-in')\n")
        thorough = tier == "thorough"
        exprs = VALUES + (VALUES_THOROUGH if thorough else [])
        seeds = list(range(8 if thorough else 4))
        modes = ("black", "noblack", "cat")
        jobs = [(m, s) for s in seeds for m in modes]
        with ThreadPoolExecutor(max_workers=6) as ex:
            outs = list(ex.map(lambda j: _child(j[0], j[1], exprs, workdir, stubdir, 1234 + int(seed)), jobs))
        res = dict(zip(jobs, outs))

        failures = {}  # finding -> list
        counts = {}
        evaluated = 0

        def fail(finding, expr, detail, replay, kind=None):
            counts[finding] = counts.get(finding, 0) + 1
            failures.setdefault(finding, []).append(dict(finding=finding, input=expr, detail=detail, replay_code=replay, _kind=kind))

        for (m, s), o in res.items():
            if o.get("error"):
                fail(None, f"child process mode={m} PYTHONHASHSEED={s}", "child interpreter failed:\n" + o["error"],
                     "raise AssertionError('B-seed child interpreter failed; see detail in the header')")
            elif m == "noblack" and o.get("black_blocked") is not True:
                fail(None, f"child process mode={m} PYTHONHASHSEED={s}", "harness: black was importable although the stub should block it",
                     "raise AssertionError('B-seed could not block black')")

        def rec(m, s, expr):
            o = res.get((m, s)) or {}
            return (o.get("values") or {}).get(expr)

        seen_eval = set()
        for expr in exprs:
            # ---- errors / evaluation inside each child
            for (m, s) in jobs:
                r = rec(m, s, expr)
                if r is None:
                    continue
                evaluated += 1
                if r.get("error"):
                    fail(None, expr, f"mode={m} PYTHONHASHSEED={s}: exception\n{r['error']}", _REPLAY_FMT.format(expr=expr, enums=_ENUMS, seed=s))
                    continue
                bad = [k for k in ("repr_evals_back", "code_evals_back", "piped_evals_back") if k in r and r[k] is not True]
                if bad and (expr, m, tuple(bad)) not in seen_eval:  # one entry per value and formatter variant, not one per seed
                    seen_eval.add((expr, m, tuple(bad)))
                    fail(None, expr, f"mode={m} PYTHONHASHSEED={s}: text does not evaluate back to the value ({', '.join(f'{k}={r[k]}' for k in bad)}); "
                                     f"code_repr={r.get('repr')!r} _value_to_code={r.get('code')!r} piped={r.get('piped')!r}",
                         _REPLAY_FMT.format(expr=expr, enums=_ENUMS, seed=s))
            # ---- 1. hash seed independence (default formatter = black)
            per_seed = {s: rec("black", s, expr) for s in seeds}
            ok = {s: r for s, r in per_seed.items() if r and not r.get("error")}
            for key, what in (("repr", "code_repr"), ("code", "_value_to_code")):
                texts = {s: r[key] for s, r in ok.items()}
                if len(set(texts.values())) > 1:
                    finding = "F9" if _is_f9(ok.values()) else None
                    kind = next(iter(ok.values())).get("f9_kind")
                    groups = {}
                    for s, t in texts.items():
                        groups.setdefault(t, []).append(s)
                    fail(finding, expr, (f"[incomparable elements without TypeError: {kind}] " if finding else "") + f"{what} text differs between hash seeds: " + "; ".join(f"PYTHONHASHSEED={ss}: {t!r}" for t, ss in groups.items()),
                         _REPLAY_SEED.format(expr=expr, enums=_ENUMS, seeds=seeds), kind=kind)
                    break
            # ---- 2. construction order inside one process
            for s, r in ok.items():
                orders = r.get("orders")
                if not orders:
                    continue
                evaluated += len(orders)
                diff = {n: t for n, t in orders.items() if t != r["repr"]}
                if diff:
                    finding = "F9" if _is_f9([r]) else None
                    fail(finding, expr, (f"[incomparable elements without TypeError: {r.get('f9_kind')}] " if finding else "") + f"code_repr text depends on the order the set was built in (PYTHONHASHSEED={s}): as written {r['repr']!r}; " +
                         "; ".join(f"{n}: {t!r}" for n, t in diff.items()), _REPLAY_ORDER.format(expr=expr, enums=_ENUMS, seed=s, shuffle_seed=1234 + int(seed)), kind=r.get("f9_kind"))
                    break
            # ---- 3. formatter independence, per seed
            for s in seeds:
                b, nb, c = rec("black", s, expr), rec("noblack", s, expr), rec("cat", s, expr)
                if not all(x and not x.get("error") for x in (b, nb, c)):
                    continue
                dumps = {"black": b["dump"], "black blocked": nb["dump"], "format_command=cat (fragment)": c["dump"], "format_command=cat (piped)": c.get("piped_dump")}
                evaluated += len(dumps)
                if len(set(dumps.values())) > 1 or any(str(d).startswith("SyntaxError") for d in dumps.values()):
                    texts = {"black": b["code"], "black blocked": nb["code"], "cat": c["code"], "cat piped": c.get("piped")}
                    fail(None, expr, f"formatter variants give different syntax trees (PYTHONHASHSEED={s}): " + "; ".join(f"{k}: {t!r}" for k, t in texts.items()),
                         _REPLAY_FMT.format(expr=expr, enums=_ENUMS, seed=s))
                    break

        out = []
        for finding in sorted(failures, key=lambda k: (k is None, str(k))):
            lst = failures[finding]
            # representatives: one per kind of witness first, then one per value, then the rest
            first = []
            for key in ("_kind", "input"):
                for f in lst:
                    if all(f.get(key) != g.get(key) for g in first):
                        first.append(f)
            keep = (first + [f for f in lst if f not in first])[: (5 if finding else 20)]
            if finding:
                vals = sorted({f["input"] for f in lst})
                keep[0]["detail"] = f"{finding}: {len(lst)} hits on {len(vals)} values in this run ({len(keep)} listed): {vals}. " + keep[0]["detail"]
            else:
                keep[0]["detail"] = f"{len(lst)} failures without a known finding in this run ({len(keep)} listed). " + keep[0]["detail"]
            for f in lst:
                f.pop("_kind", None)
            out.extend(keep)
        nontrivial = [e for e in exprs if e not in ("set()", "frozenset()")]
        return dict(
            evaluated=evaluated, distinct=len(nontrivial) * len(jobs), failures=out,
            samples=[exprs[6], exprs[10], exprs[18], exprs[25], exprs[30]],
            cross_checks=["X2 black / format-command keep the AST (ast.dump equal across black, blocked black, cat)", "X6 subprocess.run(shell=True) for format_command=cat",
                          "PYTHONHASHSEED fixes str/bytes hashing per interpreter"],
            finding_counts={str(k): v for k, v in counts.items()}, processes=len(jobs), seconds=round(time.time() - t0, 1),
        )
    except Exception:
        return dict(evaluated=0, distinct=0, samples=[], cross_checks=[],
                    failures=[dict(finding=None, input="harness", detail="B-seed harness crashed:\n" + traceback.format_exc(),
                                   replay_code="raise AssertionError('B-seed harness crashed; see detail')")])
    finally:
        if workdir:
            shutil.rmtree(workdir, ignore_errors=True)
