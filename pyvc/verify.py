"""The verifier: path enumeration of one real function against its sidecar contract."""
from __future__ import annotations

import ast
import time

import z3

from . import extract
from .calls import bind_args, call_value, run_function
from .contract import REGISTRY, Contract, Loop, Shape, split_label, split_using
from .core import (BreakSig, ContinueSig, Ctx, Obligation, PathEnd, RaiseSig, ReturnSig, Unsupported,
                   fresh_value, is_sym, list_get, pack, ty_of, unpack, zint)
from .interp import (_MISSING, _UNBOUND, Closure, Env, Frame, Interp, Iter, ModuleRef, PyDict, PyList)
from .types import (BOOL, CHAR, INT, STR, Abs, ClassRef, DictT, FuncRef, ListT, Obj, Opaque, OptT, RecT, SDict,
                    SetT, SList, SSet, SV, TupleT, parse_ty, sort_of)


_LOOP_PINS = None


def load_loop_pins():
    global _LOOP_PINS
    if _LOOP_PINS is None:
        import json
        import pathlib

        p = pathlib.Path(__file__).resolve().parent.parent / "contracts" / "loop_pins.json"
        _LOOP_PINS = json.loads(p.read_text()) if p.exists() else {}
    return _LOOP_PINS


class DriftedGhost:
    """Value of a ghost variable whose maintaining hook has lost its anchor in the source (see Verifier.drifted_ghost)."""

    def __init__(self, msg):
        self.msg = msg


class Verifier:
    def __init__(self, contract: Contract, spec_ns: dict, axioms: dict, default_policies: dict, shapes: dict):
        self.c = contract
        self.spec_ns = spec_ns
        self.axiom_sets = axioms
        self.default_policies = default_policies
        self.shapes = shapes
        self.obligations: list[Obligation] = []
        self.in_contract_expr = False
        self.current_target = contract.target
        self.module_consts: dict = {}
        self.paths = 0
        self.ended = 0
        self.errors: list[str] = []
        self.covers: dict = {}
        self.path_id = 0
        self.inlined: set = set()
        self.havoced: set = set()
        self.contracts_used: set = set()
        self.externals_used: set = set()
        self.pattern_filtered = False
        self.vacuity_obligations: list = []
        import os as _os

        # wall-clock guard of the path enumeration (about 20 s for the largest function on an idle core); generous, so that a busy
        # machine does not turn a complete verification into an undecided one; the per-task deadline of check.py is the outer bound
        self.max_seconds = float(_os.environ.get("PYVC_PATH_SECONDS", "600"))

    # ------------------------------------------------------------------ driver
    def run(self):
        m, fn, ci, outer = extract.find_function(self.c.target)
        self.module, self.fn, self.ci, self.outer = m, fn, ci, outer
        self.src_hash = extract.source_hash(m, fn)
        self.span = extract.span(fn)
        pending = [[]]
        t0 = time.time()
        while pending:
            dec = pending.pop()
            self.paths += 1
            if self.paths > self.c.max_paths:
                self.errors.append(f"unsupported: path budget {self.c.max_paths} exceeded (obligations of the explored paths are still decided)")
                break
            if time.time() - t0 > self.max_seconds:
                self.errors.append(f"unsupported: path enumeration stopped after {self.max_seconds} s (obligations of the explored paths are still decided)")
                break
            ctx = Ctx(dec)
            ctx.full_feasibility = not self.c.ghost.get("light_feasibility", False)
            if ctx.full_feasibility:
                for ax in self.axioms():
                    ctx.solver.add(ax)
            I = Interp(ctx, self)
            I.globals = {}
            I.ghost = {}
            self.path_id = self.paths
            try:
                self.run_path(I)
            except PathEnd:
                self.ended += 1
            except Unsupported as ex:
                self.errors.append(f"unsupported: {ex}")
                pending.extend(ctx.new_pending)
                break
            except (RaiseSig, ReturnSig, BreakSig, ContinueSig):
                raise
            except Exception as ex:  # noqa: BLE001
                if getattr(self, "drift", None):
                    # a sidecar policy that builds on the output of a modelled source pattern met something else: undecided
                    self.errors.append(f"unsupported: {self.drift[0]} (verification could not continue: {type(ex).__name__}: {ex})")
                    break
                raise
            pending.extend(ctx.new_pending)
        self.wall = time.time() - t0
        return self.obligations

    def axioms(self):
        out = []
        for name in self.c.uses:
            out.extend(self.axiom_sets[name]())
        return out

    def run_path(self, I: Interp):
        c = self.c
        fr = Frame(c.target, self.fn, self.module, self.ci)
        I.frames.append(fr)
        env = Env()
        if self.outer is not None:
            # inner function: free variables of the enclosing function come from the contract params too;
            # its own name is bound so that recursion goes through its contract
            outer_fr = Frame(c.target.rsplit(".", 1)[0], self.outer, self.module, self.ci)
            clo = Closure(self.fn, env, outer_fr)
            clo.decorators = []
            env.vars[self.fn.name] = clo
        params = {}
        for name, tystr in c.params.items():
            params[name] = self.make_value(I, tystr, name)
        env.vars.update(params)
        I.param_env = env
        # parameters of the real signature that the contract does not mention keep their defaults
        sig = [a.arg for a in self.fn.args.posonlyargs + self.fn.args.args + self.fn.args.kwonlyargs]
        outer_params = set(c.params) - set(sig)
        for p in sig:
            if p not in params:
                raise Unsupported(f"contract of {c.target} does not type parameter {p}")
        for gname, gty in c.ghost.get("vars", {}).items():
            if gty.startswith("empty:"):
                from .core import slist_of

                gv = slist_of(I.ctx, [], parse_ty(gty[6:]).elem)
            else:
                gv = self.make_value(I, gty, gname)
            I.ghost[gname] = gv
        setup = c.ghost.get("setup")
        if setup is not None:
            setup(I, env)  # sidecar-built parts of the initial state that a type string cannot describe
        for gname, msg in self.drifted_ghost().items():
            I.ghost[gname] = DriftedGhost(msg)
        for gname in self.contract_globals(c.target):
            self.global_value(I, gname)
        I.old_env, I.old_map = self.snapshot(I, env)
        for label, expr in c.requires.items():
            self.assume_clause(I, env, expr)
        self.cover(I, "requires")
        from .stmts import exec_block

        result = None
        raised = None
        try:
            exec_block(I, extract.strip_docstring(self.fn.body), env)
        except ReturnSig as r:
            result = r.value
        except RaiseSig as r:
            raised = r
        except (BreakSig, ContinueSig):
            raise Unsupported("break/continue outside loop")
        if fr.is_generator and raised is None:
            pass
        post_env = Env(env)  # locals at the exit point are visible to clauses (use ifdef for path-local names)
        post_env.vars[c.result_name] = result
        if fr.is_generator and not c.ghost.get("yield_hook"):
            post_env.vars["trace"] = self.frame_trace(I, fr)
        vo = Obligation((self.c.name or self.c.target).split("inline_snapshot.", 1)[-1], "vacuity", "exit-reachable", [], list(I.ctx.pc), z3.BoolVal(False), self.path_id)
        self.vacuity_obligations.append(vo)
        if raised is not None:
            self.cover(I, f"raise:{raised.cls}")
            spec = None
            for ex, cl in c.raises.items():
                from .interp import exc_isa

                if exc_isa(raised.cls, ex):
                    spec = cl
                    break
            if spec is None:
                self.add_obligation(I, "safety", f"no-raise({raised.cls})", z3.BoolVal(False), self.safety_props(c.target),
                                    where=str(raised.info or ""))
            else:
                for label, expr in spec.items():
                    self.check_clause(I, post_env, "raises", f"{raised.cls}.{label}", expr)
            self.check_frame(I, env, exceptional=True)
            return
        self.cover(I, "return")
        for label, expr in c.ensures.items():
            self.check_clause(I, post_env, "post", label, expr)
        self.check_frame(I, env)

    def cover(self, I, what):
        self.covers[what] = self.covers.get(what, 0) + 1

    # ------------------------------------------------------------------ values from type strings / shapes
    def make_value(self, I: Interp, tystr, hint):
        if not isinstance(tystr, str):
            return tystr
        if tystr.startswith("@"):
            return self.make_shape(I, tystr[1:], hint)
        if tystr == "=PyDict":
            return PyDict({})
        if tystr.startswith("=emptyset:"):
            ety = parse_ty(tystr[10:])
            return SSet(z3.K(sort_of(ety), z3.BoolVal(False)), ety)
        if tystr.startswith("=emptylist:"):
            from .core import slist_of

            r = slist_of(I.ctx, [], parse_ty(tystr[11:]))
            r.immutable = False
            return r
        if tystr.startswith("="):
            return eval(tystr[1:], {"Ellipsis": Ellipsis})
        if tystr == "Opaque":
            return Opaque(hint)
        if tystr == "unbound":
            return _UNBOUND
        pykind = None
        if tystr.startswith("TupleSeq["):
            tystr, pykind = "List[" + tystr[9:], "tuple"
        ty = parse_ty(tystr)
        v = fresh_value(I.ctx, ty, hint)
        if isinstance(v, SList):
            v.immutable = False
            if pykind:
                v.pykind = pykind
        return v

    def shape(self, name) -> Shape:
        if name in self.c.shapes:
            return self.c.shapes[name]
        return self.shapes[name]

    def make_shape(self, I: Interp, name, hint):
        sh = self.shape(name)
        o = Obj(sh.cls if not (hint == "self" and self.c.self_cls) else self.c.self_cls)
        for f, t in sh.fields.items():
            o.fields[f] = self.make_value(I, t, f"{hint}.{f}")
        return o

    # ------------------------------------------------------------------ snapshot for old()
    def snapshot(self, I: Interp, env: Env):
        memo = {}

        def cp(v):
            if isinstance(v, Obj):
                if id(v) in memo:
                    return memo[id(v)]
                o = Obj(v.cls, {}, v.rec)
                memo[id(v)] = o
                for k, x in v.fields.items():
                    o.fields[k] = cp(x)
                return o
            if isinstance(v, SList):
                return v.copy()
            if isinstance(v, PyList):
                return PyList([cp(x) for x in v.items])
            if isinstance(v, PyDict):
                return PyDict({k: cp(x) for k, x in v.d.items()})
            if isinstance(v, SDict):
                return SDict(v.dom, v.map, v.kty, v.vty)
            if isinstance(v, Iter):
                ni = Iter(v.kind, v.srcs, v.start, v.n)
                ni.pos = v.pos
                return ni
            return v

        e = Env()
        for k, v in env.vars.items():
            e.vars[k] = cp(v)
        e.globals_copy = {k: cp(v) for k, v in getattr(I, "globals", {}).items()}
        return e, memo

    def eval_old(self, I: Interp, expr, env):
        saved = I.globals
        I.globals = dict(saved)
        I.globals.update(I.old_env.globals_copy)
        try:
            return I.eval(expr, I.old_env)
        finally:
            I.globals = saved

    # ------------------------------------------------------------------ clauses
    def parse(self, expr: str):
        return ast.parse(expr.strip(), mode="eval").body

    def eval_clause(self, I: Interp, env: Env, expr: str):
        prev = self.in_contract_expr
        self.in_contract_expr = True
        try:
            return I.eval(self.parse(expr), env)
        finally:
            self.in_contract_expr = prev

    def clause_bool(self, I, env, expr):
        v = self.eval_clause(I, env, expr)
        t = I.truth(v)
        return z3.BoolVal(t) if isinstance(t, bool) else t

    def assume_clause(self, I, env, expr, tag=None):
        I.ctx.assume(self.clause_bool(I, env, expr), tag=tag)

    def check_clause(self, I, env, kind, label, expr):
        name, props = split_label(label)
        try:
            goal = self.clause_bool(I, env, expr)
        except Unsupported as ex:
            raise Unsupported(f"clause {label}: {ex}")
        _, using = split_using(label)
        self.add_obligation(I, kind, name, goal, props or self.safety_props(self.c.target), using=using)
        I.ctx.assume(goal, tag=name.split(".")[-1] if kind != "post" else name)

    def safety_props(self, qual):
        # an invariant / safety / call-site obligation supports every tagged clause of the contract
        from .contract import contract_props

        extra = set(self.c.ghost.get("props", []))
        return [p for p in contract_props(self.c) if p not in extra or p in self.c.safety_props]

    def add_obligation(self, I: Interp, kind, label, goal, props=None, where="", using=None):
        if isinstance(goal, bool):
            goal = z3.BoolVal(goal)
        goal = z3.simplify(goal)
        if props is None:
            props = self.safety_props(self.c.target)
        name, tagged = split_label(label)
        if tagged:
            props = list(tagged) + [x for x in self.c.ghost.get("hook_props", []) if x not in tagged]
        assumptions = list(I.ctx.pc)
        if using is not None:
            # proof hint: keep quantifier-free facts and only the named earlier clauses (dropping assumptions is sound)
            keep = []
            for idx, a in enumerate(assumptions):
                tag = I.ctx.tags.get(idx)
                if tag in using or not _has_quantifier(a):
                    keep.append(a)
            assumptions = keep
        o = Obligation((self.c.name or self.c.target).split("inline_snapshot.", 1)[-1], kind, name, props, assumptions, goal, self.path_id, where)
        o.no_axioms = using is not None and "axioms" not in using
        if z3.is_true(goal):
            o.status, o.backend = "discharged", "simplify"
        self.obligations.append(o)

    # ------------------------------------------------------------------ frame
    def check_frame(self, I: Interp, env: Env, exceptional=False):
        if self.c.frame is None:
            return
        allowed = set(self.c.frame)
        roots = {k: v for k, v in I.param_env.vars.items() if isinstance(v, Obj)}
        for k, v in getattr(I, "globals", {}).items():
            if isinstance(v, Obj):
                roots[k] = v
        seen = set()

        def walk(path, cur, old):
            if id(cur) in seen:
                return
            seen.add(id(cur))
            if cur.cls != old.cls and f"{path}.__class__" not in allowed:
                self.add_obligation(I, "frame", f"unchanged({path}.__class__)", z3.BoolVal(False), self.frame_props())
            for f, ov in old.fields.items():
                p = f"{path}.{f}"
                nv = cur.fields.get(f, _MISSING)
                if p in allowed or f"{path}.*" in allowed:
                    continue
                if isinstance(ov, Obj) and isinstance(nv, Obj) and I.old_map.get(id(nv)) is ov:
                    walk(p, nv, ov)
                    continue
                self.add_obligation(I, "frame", f"unchanged({p})", self.same(I, ov, nv), self.frame_props())

        for name, cur in roots.items():
            old = I.old_env.vars.get(name) or I.old_env.globals_copy.get(name)
            if isinstance(old, Obj):
                walk(name, cur, old)

    def frame_props(self):
        return self.c.ghost.get("frame_props", self.c.safety_props)

    def same(self, I, a, b):
        if a is b:
            return z3.BoolVal(True)
        if b is _MISSING:
            return z3.BoolVal(False)
        if isinstance(a, SV) and isinstance(b, SV) and a.ty == b.ty:
            return a.t == b.t
        if isinstance(a, SList) and isinstance(b, SList):
            return z3.And(a.arr == b.arr, a.nz() == b.nz())
        if isinstance(a, SDict) and isinstance(b, SDict):
            return z3.And(a.dom == b.dom, a.map == b.map)
        if isinstance(a, PyList) and isinstance(b, PyList) and len(a.items) == len(b.items):
            return z3.And([self.same(I, x, y) for x, y in zip(a.items, b.items)]) if a.items else z3.BoolVal(True)
        if isinstance(a, PyDict) and isinstance(b, PyDict) and list(a.d) == list(b.d):
            return z3.And([self.same(I, a.d[k], b.d[k]) for k in a.d]) if a.d else z3.BoolVal(True)
        ta, tb = ty_of(a), ty_of(b)
        if ta is not None and ta == tb:
            return pack(I.ctx, a, ta) == pack(I.ctx, b, tb)
        if isinstance(a, Opaque) and isinstance(b, Opaque):
            return z3.BoolVal(a is b)
        if not is_sym(a) and not is_sym(b) and not isinstance(a, (Obj, Opaque)) and not isinstance(b, (Obj, Opaque)):
            try:
                return z3.BoolVal(a == b)
            except Exception:
                return z3.BoolVal(False)
        return z3.BoolVal(False)

    # ------------------------------------------------------------------ loops / locals
    def loop_spec(self, qual, ordn, loops=None):
        c = self.contract_of_frame(qual)
        if c is None or ordn is None:
            return None
        if loops is None or not c.loops:
            return c.loops.get(ordn)
        return self.loop_map(c, loops).get(ordn)

    def loop_map(self, c, loops):
        """current loop ordinal -> Loop spec.  Specs are written per loop ordinal (pre-order) of the function as it was when the
        contract was written; contracts/loop_pins.json records the header (`for <iter>` / `while <test>`, n-th occurrence) each
        spec belongs to.  A spec follows its loop when other loops are inserted, removed or reordered; a loop whose header was
        edited in place keeps the spec of its ordinal.  Without a pin the ordinal decides."""
        key = (c.name or c.target, tuple(id(l) for l in loops))
        cache = self.__dict__.setdefault("_loop_maps", {})
        if key in cache:
            return cache[key]
        from .extract import loop_keys

        pins = load_loop_pins().get(c.name or c.target)
        if not pins:
            cache[key] = dict(c.loops)
            return cache[key]
        cur = loop_keys(loops)
        pinned = {int(o): tuple(k) for o, k in pins.items()}
        res = {}
        for o, spec in c.loops.items():
            k = pinned.get(o)
            if k is not None and k in cur:
                res[cur.index(k)] = spec
        for o, spec in c.loops.items():
            k = pinned.get(o)
            if k is not None and k in cur:
                continue
            if o < len(cur) and o not in res and (k is None or cur[o] not in pinned.values()):
                res[o] = spec  # header edited in place (or never pinned): the ordinal decides
            else:
                self.drift = getattr(self, "drift", []) + [f"loop spec #{o} of {c.name or c.target} has no loop to attach to"]
        cache[key] = res
        return res

    def contract_of_frame(self, qual):
        if qual == self.c.target:
            return self.c
        return REGISTRY.get(qual) if qual in self.inlined_with_loops() else REGISTRY.get(qual)

    def inlined_with_loops(self):
        return ()

    def local_type(self, qual, name):
        c = self.contract_of_frame(qual)
        if c is None:
            return None
        t = c.ghost.get("locals", {}).get(name)
        return parse_ty(t) if t else None

    def havoc_path(self, I: Interp, env: Env, path: str):
        node = ast.parse(path, mode="eval").body
        if isinstance(node, ast.Attribute):
            base = I.eval(node.value, env)
            if isinstance(base, Obj):
                cur = base.fields.get(node.attr, _UNBOUND)
                from .stmts import havoc_value

                if cur is _UNBOUND:
                    return
                base.fields[node.attr] = havoc_value(I, cur, path)
                return
            if isinstance(base, Opaque):
                return
        if isinstance(node, ast.Name):
            return
        raise Unsupported(f"cannot havoc {path}")

    def on_loop_havoc(self, I, st, env, spec):
        fr = I.frame
        if fr.qual == self.c.target:
            from .stmts import havoc_value

            for g in list(I.ghost):
                if g.startswith("_iter") or (spec.ghost_modifies is not None and g not in spec.ghost_modifies):
                    continue
                I.ghost[g] = havoc_value(I, I.ghost[g], g)
        if fr.is_generator and any(isinstance(n, (ast.Yield, ast.YieldFrom)) for n in ast.walk(st)):
            self.havoc_trace(I, fr)

    # ------------------------------------------------------------------ classes
    def class_info(self, qual):
        try:
            m, rest = extract.split_qual(qual)
        except LookupError:
            return None
        if len(rest) == 1 and rest[0] in m.classes:
            return m.classes[rest[0]]
        return None

    def mro(self, qual):
        out = []
        seen = set()

        def visit(q):
            ci = self.class_info(q)
            if ci is None or q in seen:
                return
            seen.add(q)
            out.append(ci)
            for b in ci.bases:
                bn = ast.unparse(b)
                tgt = None
                head = bn.split("[")[0]
                if head in ci.module.classes:
                    tgt = ci.module.classes[head].qual
                elif head in ci.module.imports:
                    tgt = ci.module.imports[head]
                if tgt:
                    visit(tgt)

        visit(qual)
        return out

    def find_method(self, cls_qual, name):
        for ci in self.mro(cls_qual):
            if name in ci.methods:
                return "method", (ci.methods[name], ci)
            if name in ci.attrs:
                # alias like `__le__ = MinMaxValue._generic_cmp`
                expr = ci.attrs[name]
                if isinstance(expr, ast.Attribute) and isinstance(expr.value, ast.Name):
                    tgt = self.find_method(self._resolve_class_name(ci, expr.value.id), expr.attr)
                    if tgt is not None and tgt[0] == "method":
                        return tgt
                return "attr", (expr, ci)
        return None

    def _resolve_class_name(self, ci, name):
        if name in ci.module.classes:
            return ci.module.classes[name].qual
        return ci.module.imports.get(name, name)

    def has_method(self, cls_qual, name):
        r = self.find_method(cls_qual, name)
        return r is not None and r[0] == "method"

    def obj_isinstance(self, v: Obj, name, qual):
        if v.rec is not None:
            return v.rec.name == name or name in getattr(v.rec, "isa", ())
        if v.cls == qual or v.cls.rsplit(".", 1)[-1] == name:
            return True
        for ci in self.mro(v.cls):
            if ci.name == name:
                return True
        from .interp import EXC_BASES, exc_isa

        if v.cls in EXC_BASES:
            return exc_isa(v.cls, name)
        return False

    def obj_attr_hook(self, I, base, attr, node):
        key = f"{base.cls.rsplit('.', 1)[-1]}.{attr}"
        pol = self.c.attrs.get(key) or self.default_policies.get("attrs", {}).get(key)
        if isinstance(pol, tuple) and pol[0] == "property":
            return pol[1](I, base)  # a computed attribute (e.g. Path.name == stem + suffix), not a method
        if callable(pol):
            return lambda I2, *a, **k: pol(I2, [base] + list(a), k, node)
        return _MISSING

    def on_setattr(self, I, base, attr, v, node):
        pass

    def untracked(self, qual):
        return set(self.c.ghost.get("untracked", ()))

    def tracked_calls(self, qual):
        return set(self.c.ghost.get("tracked_calls", ()))

    def on_stmt(self, I, st, env):
        """Statement-pattern hooks (DESIGN 2.2 'recognised idioms'); returns True when the hook executed the statement."""
        hook = self.c.ghost.get("stmt_hook")
        if hook is not None and hook(I, st, env):
            return True
        if isinstance(st, ast.While) and isinstance(st.test, ast.Constant) and st.test.value is True:
            return self._drain_idiom(I, st, env)
        return False

    def _drain_idiom(self, I, st, env):
        """while True: try: L.append(next(it)) except StopIteration as ex: X = ex.value; break
        == consume the generator completely: L += trace(it); X = return value(it)"""
        if len(st.body) != 1 or not isinstance(st.body[0], ast.Try):
            return False
        tr = st.body[0]
        if len(tr.body) != 1 or len(tr.handlers) != 1 or ast.unparse(tr.handlers[0].type) != "StopIteration":
            return False
        call = tr.body[0].value if isinstance(tr.body[0], ast.Expr) else None
        if not (isinstance(call, ast.Call) and isinstance(call.func, ast.Attribute) and call.func.attr == "append"
                and len(call.args) == 1 and isinstance(call.args[0], ast.Call) and ast.unparse(call.args[0].func) == "next"):
            return False
        h = tr.handlers[0]
        if not (len(h.body) == 2 and isinstance(h.body[0], ast.Assign) and isinstance(h.body[1], ast.Break)
                and ast.unparse(h.body[0].value) == f"{h.name}.value"):
            return False
        it = I.eval(call.args[0].args[0], env)
        gen = it.srcs[0] if isinstance(it, Iter) else it
        if not (isinstance(gen, Obj) and gen.cls == "generator"):
            raise Unsupported("drain idiom over a non-generator")
        lst = I.eval(call.func.value, env)
        if not (isinstance(lst, PyList) and not lst.items):
            raise Unsupported("drain idiom into a non-empty list")
        tr_list = gen.fields["trace"].copy()
        tr_list.immutable = False
        I.assign(ast.parse(ast.unparse(call.func.value), mode="eval").body, tr_list, env) if False else None
        # rebind the drained list at its owner (attribute or name)
        tgt = call.func.value
        if isinstance(tgt, ast.Attribute):
            I.setattr(I.eval(tgt.value, env), tgt.attr, tr_list, tgt)
        elif isinstance(tgt, ast.Name):
            env.set(tgt.id, tr_list)
        else:
            raise Unsupported("drain target")
        I.assign(h.body[0].targets[0], gen.fields["value"], env)
        self.idioms = getattr(self, "idioms", set()) | {"drain-generator"}
        return True

    def hasattr_(self, I, v, a, node):
        if isinstance(v, Obj):
            return (a in v.fields and v.fields[a] is not _UNBOUND) or self.find_method(v.cls, a) is not None
        if isinstance(v, ClassRef):
            return self.find_method(v.qual, a) is not None
        if isinstance(v, Opaque):
            return SV(z3.Bool(I.ctx.fresh_name(f"hasattr_{a}")), BOOL)
        if v is None:
            return False
        raise Unsupported(f"hasattr({v!r}, {a!r})")

    def construct(self, I: Interp, cref: ClassRef, args, kwargs, node):
        hook = self.c.callees.get(cref.qual) or self.c.callees.get(cref.name) or self.default_policies.get(cref.qual) or self.default_policies.get(cref.name)
        if callable(hook):
            return hook(I, args, kwargs, node)
        if hook == "havoc":
            return self.havoc_call(I, cref.qual, args, kwargs, node)
        ci = self.class_info(cref.qual)
        if ci is None:
            from .interp import EXC_BASES

            if cref.name in EXC_BASES:
                return Obj(cref.name, {"args": tuple(args)})
            if self.c.ghost.get("havoc_unknown_externals"):
                return self.havoc_call(I, cref.qual, args, kwargs, node)
            raise Unsupported(f"construction of external class {cref.qual}")
        o = Obj(ci.qual)
        init = self.find_method(ci.qual, "__init__")
        if init is not None and init[0] == "method":
            fn, owner = init[1]
            qual = f"{owner.qual}.__init__"
            pol = self.callee_policy(I, qual, default="inline")
            if pol == "contract":
                self.apply_contract(I, self.contract_for(qual), [o] + list(args), kwargs, node, fnode=fn)
            else:
                bound = bind_args(fn, [o] + list(args), kwargs, I, Env(), Frame(qual, fn, owner.module, owner))
                self.inlined.add(qual)
                run_function(I, qual, fn, owner.module, owner, bound)
            return o
        if any(c.is_dataclass() for c in self.mro(ci.qual)):
            fields = []
            defaults = {}
            for c in reversed(self.mro(ci.qual)):
                for f in c.ann_fields:
                    if f not in fields:
                        fields.append(f)
                    if f in c.attrs:
                        defaults[f] = (c.attrs[f], c)
            if len(args) > len(fields):
                raise Unsupported("too many dataclass args")
            for f, v in zip(fields, args):
                o.fields[f] = v
            for k, v in kwargs.items():
                o.fields[k] = v
            for f in fields:
                if f not in o.fields:
                    if f in defaults:
                        expr, c = defaults[f]
                        o.fields[f] = I.eval(expr, Env(), _frame_override=Frame(c.qual, None, c.module, c))
                    else:
                        raise Unsupported(f"missing dataclass field {f}")
            post = self.find_method(ci.qual, "__post_init__")
            if post is not None:
                fn, owner = post[1]
                run_function(I, f"{owner.qual}.__post_init__", fn, owner.module, owner, {"self": o})
            return o
        for k, v in kwargs.items():
            o.fields[k] = v
        return o

    def type_of(self, I, v):
        pol = self.c.callees.get("type")
        if callable(pol):
            return pol(I, v)
        if isinstance(v, SV) and isinstance(v.ty, Abs):
            f = z3.Function(f"type_of_{v.ty.key}", sort_of(v.ty), sort_of(Abs("PyType")))
            return SV(f(v.t), Abs("PyType"))
        if v is None:
            return ClassRef("NoneType", "NoneType")
        for pyt in (bool, int, float, complex, str, bytes, tuple, frozenset, list, dict, set):
            if type(v) is pyt:
                return ClassRef(pyt.__name__, pyt.__name__)
        raise Unsupported(f"type({v!r})")

    def id_of(self, I, v):
        hook = self.c.ghost.get("id_of")
        if hook is not None:
            return hook(I, v)
        raise Unsupported("id()")

    # ------------------------------------------------------------------ abstract sorts
    def undefined_const(self, ty):
        return z3.Const(f"undefined_{ty.key}", sort_of(ty))

    def none_const(self, ty):
        return z3.Const(f"None_{ty.key}", sort_of(ty))

    NULLABLE = {"Node", "Val"}

    def abs_is_none(self, I, sv):
        if sv.ty.key not in self.NULLABLE:
            return False
        return SV(z3.simplify(sv.t == self.none_const(sv.ty)), BOOL)

    def abs_attr(self, I, sv, attr, node):
        key = f"{sv.ty.key}.{attr}"
        tstr = self.c.attrs.get(key) or self.default_policies.get("attrs", {}).get(key)
        if tstr is None:
            dflt = self.c.ghost.get("abs_attr_default")
            if callable(dflt):
                return dflt(I, sv, attr)  # any other attribute of an abstract value: the sidecar's generic model (e.g. attr_of(value, name))
            raise Unsupported(f"attribute {key} of abstract sort is not declared")
        if callable(tstr):
            return lambda I2, *a, **k: tstr(I2, [sv] + list(a), k, node)
        if tstr == "Opaque":
            return Opaque(key)
        ty = parse_ty(tstr)
        f = z3.Function(f"{sv.ty.key}_{attr}", sort_of(sv.ty), sort_of(ty))
        return unpack(I.ctx, f(sv.t), ty)

    def abs_isinstance(self, I, sv, name, qual):
        hook = self.spec_ns.get("isinstance_hook")
        if hook is not None:
            r = hook(I, sv, name, qual)
            if r is not _MISSING:
                return r
        f = z3.Function(f"isinst_{name}", sort_of(sv.ty), z3.BoolSort())
        if sv.ty.key in self.NULLABLE:
            # None is an instance of no class
            I.ctx.define(f"none-not-{name}-{sv.ty.key}", lambda: z3.Not(f(self.none_const(sv.ty))))
        return SV(f(sv.t), BOOL)

    def abs_len(self, I, sv):
        ops = self.abs_ops().get(sv.ty.key, {})
        if "len" in ops:
            return ops["len"](I, sv)
        f = z3.Function(f"len_{sv.ty.key}", sort_of(sv.ty), z3.IntSort())
        I.ctx.assume(f(sv.t) >= 0)
        return SV(f(sv.t), INT)

    def abs_ops(self):
        return self.spec_ns.get("abs_ops", {})

    def abs_index(self, I, base, idx, node):
        raise Unsupported(f"subscript of abstract {base.ty}")

    def user_cmp(self, I, opname, a, b, node):
        hook = self.spec_ns.get("user_cmp_hook")
        return hook(I, opname, a, b, node)

    def user_contains(self, I, lst, item, node):
        hook = self.spec_ns.get("user_contains_hook")
        return hook(I, lst, item, node)

    # ------------------------------------------------------------------ globals
    def contract_globals(self, qual):
        d = dict(self.default_policies.get("globals", {}))
        d.update(self.c.globals_)
        return d

    def global_value(self, I: Interp, name):
        if name not in I.globals:
            spec = self.c.globals_.get(name)
            if spec is None:
                spec = self.default_policies.get("globals", {}).get(name)
            if spec is None:
                raise Unsupported(f"global {name} is not declared in the contract of {self.c.target}")
            I.globals[name] = self.make_value(I, spec, name)
        return I.globals[name]

    def set_global(self, I, name, v):
        if name not in self.c.globals_ and name not in self.default_policies.get("globals", {}):
            raise Unsupported(f"assignment to undeclared global {name}")
        I.globals[name] = v

    def declare_global_name(self, I, n, env):
        pass

    # ------------------------------------------------------------------ calls
    def contract_for(self, qual, receiver=None):
        c = REGISTRY.get(qual)
        if c is not None:
            return c
        cands = [c for c in REGISTRY.values() if c.target == qual and c.ghost.get("callee_default")]
        if receiver is not None:
            for c in cands:
                if c.self_cls == receiver.cls:
                    return c
        for c in cands:
            if c.self_cls is None or receiver is None:
                return c
        return cands[0] if cands else None

    def callee_policy(self, I, qual, default=None):
        short = qual.rsplit(".", 1)[-1]
        two = ".".join(qual.split(".")[-2:])
        for k in (qual, qual.split("inline_snapshot.", 1)[-1], two, short):
            if k in self.c.callees:
                return self.c.callees[k]
        if self.contract_for(qual) is not None and qual != self.c.target:
            return "contract"
        if qual == self.c.target:
            return "contract"  # recursion uses the function's own contract
        for k in (qual, qual.split("inline_snapshot.", 1)[-1], two):
            if k in self.default_policies:
                return self.default_policies[k]
        if default is None:
            # a helper in the module of the verified function that no contract mentions (e.g. extracted by a refactoring):
            # executing its real body is always sound
            try:
                m1, _ = extract.split_qual(qual)
                m2, _ = extract.split_qual(self.c.target)
                if m1 is m2:
                    return "inline"
            except Exception:
                pass
        return default

    def closure_policy(self, I, fn, decorators):
        name = getattr(fn, "name", "<lambda>")
        pol = self.c.callees.get(name)
        if pol is not None:
            return pol
        if any("call_once" in d for d in decorators):
            return "havoc"
        return "inline"

    def external_call(self, I, qual, args, kwargs, node):
        short = qual.rsplit(".", 1)[-1]
        for k in (qual, short):
            pol = self.c.callees.get(k)
            if pol is None:
                pol = self.default_policies.get(k)
            if pol is not None:
                if callable(pol):
                    self.externals_used.add(qual)
                    return pol(I, args, kwargs, node)
                if pol == "havoc":
                    return self.havoc_call(I, qual, args, kwargs, node)
        if self.c.ghost.get("havoc_unknown_externals"):
            return self.havoc_call(I, qual, args, kwargs, node)
        raise Unsupported(f"external call {qual} has no assumed contract (in {I.frame.qual})")

    def may_raise(self, I, what):
        if self.c.ghost.get("may_raise") and not self.in_contract_expr:
            key = (getattr(I, "epoch", 0), tuple(id(h) for fr in I.frames for h in fr.handlers), len(I.frames))
            if getattr(I, "raise_forked", None) != key:
                I.raise_forked = key
                if not I.ctx.choose():
                    raise RaiseSig("UnknownError", info=[f"raised by {what}"])

    def havoc_call(self, I, what, args, kwargs, node):
        self.havoced.add(what)
        hook0 = self.c.ghost.get("havoc_hook")
        if hook0 is not None and not self.in_contract_expr:
            r0 = hook0(I, what, args, kwargs, node)
            if r0 is not _MISSING:
                return r0
        if False and self.c.ghost.get("may_raise") and not self.in_contract_expr:
            # an uninterpreted call may raise.  Raising anywhere between two tracked events / try boundaries gives the
            # same tracked behaviour, so one fork per such segment is complete for the event-order obligations.
            key = (getattr(I, "epoch", 0), tuple(id(h) for fr in I.frames for h in fr.handlers), len(I.frames))
            if getattr(I, "raise_forked", None) != key:
                I.raise_forked = key
                if not I.ctx.choose():
                    raise RaiseSig("UnknownError", info=[f"raised by {what}"])
        self.may_raise(I, what)
        hook = self.spec_ns.get("havoc_hook")
        if hook is not None:
            r = hook(I, what, args, kwargs, node)
            if r is not _MISSING:
                return r
        return Opaque(what)

    def method_hook(self, I, base, name, args, kwargs, node):
        hook = self.spec_ns.get("method_hook")
        if hook is not None:
            return hook(I, base, name, args, kwargs, node)
        return _MISSING

    def join_hook(self, I, sep, arg, node):
        hook = self.spec_ns.get("join_hook")
        if hook is None:
            return Opaque("join")
        return hook(I, sep, arg, node)

    def sort_hook(self, I, lst, node):
        hook = self.spec_ns.get("sort_hook")
        if hook is None:
            raise Unsupported("sort of symbolic list")
        return hook(I, lst, node)

    def fstring(self, I, n, env):
        hook = self.spec_ns.get("fstring_hook")
        if hook is None:
            return Opaque("fstring")
        return hook(I, n, env)

    def drifted_ghost(self):
        """A contract that models an expression of the function by its source pattern cannot say anything about the ghost
        state that pattern's hook maintains once the pattern is gone (the function was restructured).  Returns
        {ghost name: message} for the ghost variables assigned by the hooks of patterns that no longer occur; a clause that reads
        one of them is undecided (contract drift), everything else is still verified."""
        if not self.c.extern_patterns:
            return {}
        import inspect
        import re

        nodes = [n for n in ast.walk(self.fn) if isinstance(n, ast.expr)]
        out = {}
        for pat, hook in self.c.extern_patterns.items():
            if any(_match_pattern(pat, n) for n in nodes):
                continue
            if getattr(hook, "accepts_filter", False) and any(_match_pattern(pat, n, allow_added_filter=True) for n in nodes):
                continue
            try:
                src = inspect.getsource(hook)
            except (OSError, TypeError):
                src = ""
            names = set(re.findall(r"ghost\[[\"']([A-Za-z_]\w*)[\"']\]\s*=[^=]", src))
            msg = f"contract drift: the modelled source pattern `{pat[:60]}` no longer occurs in {self.c.target}"
            self.drift = getattr(self, "drift", []) + [msg]
            for nm in names:
                out[nm] = msg
        return out

    def extern_pattern(self, I, n, env):
        src = ast.unparse(n)
        for pat, fn in self.c.extern_patterns.items():
            if _match_pattern(pat, n):
                self.externals_used.add(pat)
                self.pattern_filtered = False
                return fn(I, n, env)
        for pat, fn in self.c.extern_patterns.items():
            # the modelled comprehension with an added `if` filter: hooks that say so are told (fewer elements than the model)
            if getattr(fn, "accepts_filter", False) and _match_pattern(pat, n, allow_added_filter=True):
                self.externals_used.add(pat)
                self.pattern_filtered = True
                try:
                    return fn(I, n, env)
                finally:
                    self.pattern_filtered = False
        return _MISSING

    def import_ok(self, I, base, st):
        hook = self.c.ghost.get("import_ok")
        if hook is not None:
            return hook(I, base, st)
        return True

    def with_enter(self, I, m, item, env):
        hook = self.c.ghost.get("with_hook") or self.spec_ns.get("with_hook")
        if hook is not None:
            return hook(I, m, "enter", None, env)
        return Opaque("with")

    def with_exit(self, I, m, sig, env):
        hook = self.c.ghost.get("with_hook") or self.spec_ns.get("with_hook")
        if hook is not None:
            return hook(I, m, "exit", sig, env)

    def trace_ty(self, c=None):
        t = (c or self.c).ghost.get("trace_ty") or self.default_policies.get("trace_ty")
        return parse_ty(t) if t else None

    def frame_trace(self, I, fr):
        """The list of yielded events of a generator frame (symbolic list of encoded events)."""
        if getattr(fr, "trace_sym", None) is None:
            from .core import slist_of

            ty = self.trace_ty(self.contract_of_frame(fr.qual) or self.c)
            if ty is None:
                raise Unsupported(f"generator {fr.qual} needs ghost trace_ty")
            fr.trace_sym = slist_of(I.ctx, [], ty)
        return fr.trace_sym

    def encode_event(self, I, v):
        enc = self.c.ghost.get("encode_event") or self.default_policies.get("encode_event")
        return enc(I, v) if enc else v

    def on_yield(self, I, v, node, env=None):
        from .core import list_append

        yc = self.c.ghost.get("yield_check")
        if yc is not None and I.frame.qual == self.c.target:
            yc(I, v, node, env)

        yh = self.c.ghost.get("yield_hook")
        if yh is not None and I.frame.qual == self.c.target:
            return yh(I, v, node)

        fr = I.frame
        tr = self.frame_trace(I, fr)
        list_append(I.ctx, tr, self.encode_event(I, v))

    def on_yield_from(self, I, n, env):
        from .core import list_concat

        g = I.eval(n.value, env)
        if isinstance(g, Iter):
            g = g.srcs[0]
        if isinstance(g, Opaque):
            # an unknown generator: it may yield any events and return anything
            tty = self.trace_ty(self.contract_of_frame(I.frame.qual) or self.c)
            if tty is None:
                raise Unsupported("yield from an unknown generator without trace type")
            g = Obj("generator", {"trace": fresh_value(I.ctx, ListT(tty), "unknown_generator_trace"), "value": Opaque("generator result")})
        if not (isinstance(g, Obj) and g.cls == "generator"):
            raise Unsupported(f"yield from {g!r}")
        fr = I.frame
        tr = self.frame_trace(I, fr)
        cat = list_concat(I.ctx, tr, g.fields["trace"])
        tr.arr, tr.n = cat.arr, cat.n
        return g.fields["value"]

    def havoc_trace(self, I, fr):
        from .stmts import havoc_value

        tr = self.frame_trace(I, fr)
        nv = havoc_value(I, tr, "trace")
        tr.arr, tr.n = nv.arr, nv.n

    # ------------------------------------------------------------------ contract application at a call site
    def apply_contract(self, I: Interp, c: Contract, args, kwargs, node, fnode=None, closure=None):
        self.contracts_used.add(c.target)
        if fnode is None:
            _, fnode, _, _ = extract.find_function(c.target)
        bound = bind_args(fnode, args, kwargs, I, Env(), I.frame)
        for pn, pt in c.params.items():
            if pn in bound and isinstance(pt, str) and pt == "Val":
                from .specs import val_term

                if not (isinstance(bound[pn], SV) and bound[pn].ty == Abs("Val")) and not isinstance(bound[pn], Opaque):
                    bound[pn] = SV(val_term(I, bound[pn]), Abs("Val"))
        env = Env()
        env.vars.update(bound)
        callee = c.target.split("inline_snapshot.", 1)[-1]
        line = getattr(node, "lineno", "?")
        # preconditions are obligations of the caller
        for label, expr in c.requires.items():
            name, props = split_label(label)
            sub = _SubVerifier(self, c)
            goal = sub.clause_bool(I, env, expr)
            self.add_obligation(I, "call-pre", f"{callee}.{name}@{line}", goal, props or self.safety_props(self.c.target))
            I.ctx.assume(goal)
        saved_old = (getattr(I, "old_env", None), getattr(I, "old_map", None))
        I.old_env, I.old_map = self.snapshot(I, env)
        try:
            # frame: havoc what the callee may modify
            for path in c.frame or []:
                self._havoc_frame_path(I, env, path, c)
            if c.returns is None:
                result = None
            else:
                result = self.make_value(I, c.returns, f"{callee}_result")
            raises = c.raises
            if raises:
                excs = list(raises)
                # one nondeterministic choice per declared exception
                for ex in excs:
                    if I.ctx.choose():
                        continue
                    sub = _SubVerifier(self, c)
                    for label, expr in raises[ex].items():
                        I.ctx.assume(sub.clause_bool(I, env, expr))
                    raise RaiseSig(ex, info=[f"from contract of {callee}"])
            env.vars[c.result_name] = result
            is_gen = fnode is not None and any(isinstance(x, (ast.Yield, ast.YieldFrom)) for x in _walk_own_fn(fnode))
            gen_trace = None
            if is_gen:
                tty = self.trace_ty(c)
                if tty is None:
                    raise Unsupported(f"generator contract {c.target} needs ghost trace_ty")
                gen_trace = fresh_value(I.ctx, parse_ty("List[" + tty.key + "]") if False else ListT(tty), f"{callee}_trace")
                env.vars["trace"] = gen_trace
            sub = _SubVerifier(self, c)
            for label, expr in c.ensures.items():
                try:
                    I.ctx.assume(sub.clause_bool(I, env, expr))
                except Unsupported:
                    # a helper clause over the callee's locals (ifdef/ifndef): not visible at a call site; assuming less is sound
                    continue
            if is_gen:
                return Obj("generator", {"trace": gen_trace, "value": result})
            return result
        finally:
            I.old_env, I.old_map = saved_old

    def _declared_type(self, c, path):
        ft = c.ghost.get("frame_types", {})
        if path in ft:
            return ft[path]
        parts = path.split(".")
        spec = c.params.get(parts[0]) or self.contract_globals(c.target).get(parts[0])
        for f in parts[1:]:
            if not (isinstance(spec, str) and spec.startswith("@")):
                return None
            sh = c.shapes.get(spec[1:]) or self.shapes.get(spec[1:])
            if sh is None:
                return None
            spec = sh.fields.get(f)
        return spec

    def _havoc_frame_path(self, I, env, path, c):
        root = path.split(".", 1)[0]
        decl = self._declared_type(c, path)
        if isinstance(decl, str) and not decl.startswith(("@", "=")) and decl not in ("Opaque", "unbound"):
            node = ast.parse(path, mode="eval").body
            e2 = env
            if not env.has(root):
                e2 = Env(env)
                e2.vars[root] = self.global_value(I, root)
            base = I.eval(node.value, e2)
            if isinstance(base, Obj):
                nv = self.make_value(I, decl, path)
                base.fields[node.attr] = nv
                return
        if not env.has(root):
            # a global root
            g = self.global_value(I, root)
            e2 = Env(env)
            e2.vars[root] = g
            self.havoc_path(I, e2, path)
            return
        self.havoc_path(I, env, path)


def _has_quantifier(e):
    seen = set()
    stack = [e]
    while stack:
        x = stack.pop()
        if x.get_id() in seen:
            continue
        seen.add(x.get_id())
        if z3.is_quantifier(x):
            return True
        stack.extend(x.children())
    return False


def _walk_own_fn(fn):
    from .interp import _walk_own

    return _walk_own(fn)


class _SubVerifier:
    """Evaluates clauses of a *callee's* contract inside the caller's path (shares ctx and globals)."""

    def __init__(self, parent: Verifier, c: Contract):
        self.p = parent
        self.c = c

    def clause_bool(self, I, env, expr):
        saved = self.p.c
        # callee clauses may mention the callee's own attrs / globals declarations
        self.p.c = _merged(self.c, saved)
        try:
            fr = Frame(self.c.target, None, extract.split_qual(self.c.target)[0])
            I.frames.append(fr)
            try:
                return self.p.clause_bool(I, env, expr)
            finally:
                I.frames.pop()
        finally:
            self.p.c = saved


def _merged(callee: Contract, caller: Contract) -> Contract:
    import copy

    m = copy.copy(caller)
    m.attrs = {**callee.attrs, **caller.attrs}
    m.globals_ = {**callee.globals_, **caller.globals_}
    m.shapes = {**callee.shapes, **caller.shapes}
    return m


def _match_pattern(pat: str, n: ast.AST, allow_added_filter=False) -> bool:
    """Pattern = python source with `_` wildcards for sub-expressions.  allow_added_filter: a comprehension of the pattern that
    has no `if` also matches the same comprehension with `if` clauses."""
    p = ast.parse(pat, mode="eval").body

    def eq(a, b):
        if isinstance(a, ast.Name) and a.id == "_":
            return True
        if type(a) is not type(b):
            return False
        for f in a._fields:
            x, y = getattr(a, f, None), getattr(b, f, None)
            if allow_added_filter and isinstance(a, ast.comprehension) and f == "ifs" and not x:
                continue
            if isinstance(x, list):
                if not isinstance(y, list) or len(x) != len(y) or not all(eq(i, j) if isinstance(i, ast.AST) else i == j for i, j in zip(x, y)):
                    return False
            elif isinstance(x, ast.AST):
                if not isinstance(y, ast.AST) or not eq(x, y):
                    return False
            elif f in ("ctx", "lineno", "col_offset", "end_lineno", "end_col_offset", "kind", "type_comment"):
                continue
            elif x != y:
                return False
        return True

    return eq(p, n)
