"""Replay file written by /verif/check.py
{
 "property": "C06",
 "failed_obligation": "_adapter.dict_adapter.DictAdapter.items/post:one-item-per-entry-in-order",
 "path": 2,
 "function": "inline_snapshot._adapter.dict_adapter.DictAdapter.items",
 "verdict": "refuted",
 "backend": "z3-5.1",
 "solver_model": "DictV_keys = [else -> mk_List_Val(K(Int, Val!val!0), 1)]\nNode_keys = [else -> mk_List_Node(K(Int, Node!val!3), 21238)]\nNode_values = [else -> mk_List_Node(K(Int, Node!val!2), 0)]\nNone_Node = Node!val!1\narray-ext = [else -> 2]\nisinst_Dict = [else -> False]\nnode!2 = Node!val!0\nvalue!1 = DictV!val!0",
 "where": ""
}
"""

print('no native failing input was found for this obligation; see the header for the solver output')
