"""Replay file written by /verif/check.py
{
 "property": "C19",
 "standin": "B-drivers",
 "bound": "6 (quick) / 8 (thorough) small projects without externals x 3 (quick) / 16 (thorough) category subsets: Example.run_inline vs Example.run_pytest vs raw pytest subprocess (changed files as text) and run_inline's reported categories vs the headers of a `--inline-snapshot=<F>,report` session",
 "input": {
  "project": "nested containers",
  "flags": [],
  "driver": "inline"
 },
 "detail": "C19: run_inline reported categories ['fix'] but the report session lists ['create', 'fix']\n__________________________________ test_dict ___________________________________\n\n    def test_dict():\n>       assert {\"a\": 1, \"c\": [29, 2]} == snapshot({\"a\": 2, \"b\": 3})\nE       AssertionError: assert {'a': 1, 'c': [29, 2]} == {'a': 2, 'b': 3}\nE         \nE         Differing items:\nE         {'a': 1} != {'a': 2}\nE         Left contains 1 more item:\nE         {'c': [29, 2]}\nE         Right contains 1 more item:\nE         {'b': 3}\nE         Use -v to get more diff\n\ntest_something.py:9: AssertionError\n==================================== PASSES ====================================\n------------ generated xml file: /tmp/bsess-out-_louh2fo/junit.xml -------------\n=========================== short test summary info ============================\nPASSED test_something.py::test_tuple\nERROR test_something.py::test_list - Failed: some snapshots in this test have...\nERROR test_something.py::test_dict - Failed: some snapshots in this test have...\nERROR test_something.py::test_tuple - Failed: your snapshot is missing one va...\nFAILED test_something.py::test_list - assert [1, 2, 3, 29] == [1, 3, 5]\nFAILED test_something.py::test_dict - AssertionError: assert {'a': 1, 'c': [2...\n==================== 2 failed, 1 passed, 3 errors in 2.23s ====================="
}
"""


# stand-alone replay: runs real pytest sessions of the plugin installed for this interpreter
# (run with /verif/.venv/bin/python, which sees the editable install of /repo).
import ast, os, shutil, subprocess, sys, tempfile
import xml.etree.ElementTree as ET
from pathlib import Path

CI_VARS = ('CI', 'bamboo.buildKey', 'BUILD_ID', 'BUILD_NUMBER', 'BUILDKITE', 'CIRCLECI', 'CONTINUOUS_INTEGRATION', 'GITHUB_ACTIONS', 'HUDSON_URL', 'JENKINS_URL', 'TEAMCITY_VERSION', 'TRAVIS', 'PYCHARM_HOSTED')
OTHER = ('INLINE_SNAPSHOT_DEFAULT_FLAGS', 'FORCE_COLOR', 'NO_COLOR', 'PYTEST_ADDOPTS', 'PYTEST_PLUGINS', 'PYTHONHASHSEED')
BASE_ARGS = ('-p', 'no:cacheprovider', '-p', 'no:benchmark', '-rA')


def _env(extra, tty):
    env = dict(os.environ)
    for v in CI_VARS + OTHER:
        env.pop(v, None)
    env.update(TERM="unknown", COLUMNS="80", PYTHONDONTWRITEBYTECODE="1")
    if tty:
        env["FORCE_COLOR"] = "true"
    env.update(extra or {})
    return env


def tree(root):
    return {p.relative_to(root).as_posix(): p.read_bytes() for p in sorted(Path(root).rglob("*"))
            if p.is_file() and "__pycache__" not in p.parts}


def write(root, files):
    for n, c in files.items():
        p = Path(root) / n
        p.parent.mkdir(parents=True, exist_ok=True)
        p.write_bytes(c if isinstance(c, bytes) else c.encode())


def outcomes(path):
    out = {}
    try:
        r = ET.parse(path).getroot()
    except Exception:
        return None
    for tc in r.iter("testcase"):
        k = out.setdefault(tc.get("classname") + "::" + tc.get("name"), set())
        kinds = {"failed" if c.tag == "failure" else c.tag for c in tc if c.tag in ("failure", "error", "skipped")}
        k.update(kinds or {"passed"})
    return out


def session(proj, args=(), env=None, stdin=b"", tty=None):
    out = tempfile.mkdtemp()
    try:
        before = tree(proj)
        p = subprocess.run([sys.executable, "-m", "pytest", *BASE_ARGS, "--junitxml=" + out + "/j.xml", *args],
                           cwd=proj, env=_env(env, bool(stdin) if tty is None else tty), input=stdin,
                           capture_output=True)
        return dict(rc=p.returncode, out=p.stdout.decode("utf-8", "replace"), err=p.stderr.decode("utf-8", "replace"),
                    outcomes=outcomes(out + "/j.xml"), before=before, after=tree(proj))
    finally:
        shutil.rmtree(out, ignore_errors=True)


def dump(src):
    return ast.dump(ast.parse(src.decode() if isinstance(src, bytes) else src))


ROOT = tempfile.mkdtemp()
PROJ = os.path.join(ROOT, "proj")
os.mkdir(PROJ)
try:
    FILES = {'test_something.py': 'from inline_snapshot import snapshot\n\n\ndef test_list():\n    assert [1, 2, 3, 29] == snapshot([1, 3, 5])\n\n\ndef test_dict():\n    assert {"a": 1, "c": [29, 2]} == snapshot({"a": 2, "b": 3})\n\n\ndef test_tuple():\n    assert (1, "hello") == snapshot()\n', 'pyproject.toml': '[tool.inline-snapshot]\n'}
    FLAGS = []
    write(PROJ, FILES)
    r = session(PROJ, FLAGS)
    raw = {k: v.decode() for k, v in r['after'].items() if FILES.get(k) != v.decode()}
    sys.path.insert(0, '/repo/src')
    from inline_snapshot.testing import Example
    class Cap:
        value = None
        __hash__ = None
        def __eq__(self, o):
            self.value = o
            return True
    ci, cc, cr = Cap(), Cap(), Cap()
    Example(dict(FILES)).run_inline(FLAGS, changed_files=ci, reported_categories=cc, raises=cr)
    cp, rc = Cap(), Cap()
    Example(dict(FILES)).run_pytest(['-p', 'no:cacheprovider', '-p', 'no:benchmark'] + FLAGS, changed_files=cp, returncode=rc)
    print('raw   ', raw); print('inline', ci.value); print('pytest', cp.value)
    assert cp.value == raw, 'run_pytest differs from raw session'
    assert ci.value == raw, 'run_inline differs from raw session'
    P2 = os.path.join(ROOT, 'p2'); os.mkdir(P2); write(P2, FILES)
    rep = session(P2, ['--inline-snapshot=' + ','.join(['report'])])
    listed = sorted(c for c, h in {'create': 'Create snapshots', 'fix': 'Fix snapshots', 'trim': 'Trim snapshots', 'update': 'Update snapshots'}.items() if h in rep['out'])
    assert cc.value == listed, (cc.value, listed)
finally:
    shutil.rmtree(ROOT, ignore_errors=True)
print("replay: no violation observed")

