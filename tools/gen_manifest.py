#!/verif/.venv/bin/python
"""Regenerates MANIFEST.json from the table below (kept in one place so it always validates)."""
import json
from pathlib import Path

HERE = Path(__file__).resolve().parent.parent
props = [json.loads(l) for l in (HERE / "properties.jsonl").read_text().splitlines() if l.strip()]

TECH = "contract-based deductive verification: VCs generated from the real function ASTs against sidecar contracts, discharged by z3/cvc5"

STD_NOTE = ("Trusted: the Python semantics assumptions PS1-PS9 and, where a clause says so, E1/E2 (DESIGN section 3); assumed contracts on "
            "dependencies X1-X15 (DESIGN section 7) as listed per run in the evidence file; pyvc itself (VC generator) and z3/cvc5. "
            "Functions not under contract are listed in DESIGN section 12.")

CLAIMED = {
    "C05": dict(text="Category algebra as postconditions of the real value classes: MinMaxValue._get_changes (fix iff bound violated, trim iff slack, update only for equal value, "
                     "writes the recorded extreme), the aggregation invariants of _generic_cmp / __contains__ (preserved by every operation, hence for every observation sequence), "
                     "UndecidedValue._get_changes (updates keep the value).", note=STD_NOTE, ref="6 (C05), 12"),
    "C06": dict(text="Return-value clauses of _return, EqValue.__eq__, MinMaxValue._generic_cmp, CollectionValue.__contains__ and the UndecidedValue dispatchers (without flags the result "
                     "object of the plain comparison is returned), plus the complete method-resolution table (every other operator raises TypeError).", note=STD_NOTE, ref="6 (C06), 12"),
    "C07": dict(text="Counter clauses of the four operations and _return in every flag mode (missing / failing comparisons are counted, holding ones are not), proved for all values and flag sets.",
                note=STD_NOTE, ref="6 (C07), 12"),
    "C14": dict(text="Frame conditions (nothing outside self._new_value/_changes and the two counters is assigned), commit-once and aggregation invariants of the value classes.", note=STD_NOTE, ref="6 (C14), 12"),
    "C17": dict(text="clone() returns deepcopy(obj) and raises UsageError iff the copy is unequal; every store of an observed value in the value classes is such a copy.", note=STD_NOTE, ref="6 (C17), 12"),
    "C18": dict(text="All safety obligations (index in range, attribute defined, next() not exhausted, asserts, no undeclared exception) and termination measures of the functions under contract on the "
                     "collect/apply path; emitted replacement ranges of generic_sequence_update are well-formed, ordered and disjoint.", note=STD_NOTE, ref="6 (C18), 12"),
    "C11": dict(
        text="Proof obligations over the real alignment kernels (align, nw_align, add_x): script validity, every 'm' pairs equal elements, "
             "equal common prefix/suffix kept, consumption counts; all loops by inductive invariants (unbounded), termination by decreasing measures.",
        note="Assumes PS1/PS2/PS7/PS8 (DESIGN section 3) and X9 (groupby = run-length encoding). The adapter layer that turns the script into edits is "
             "covered by the contracts tagged C11 in contracts/; what is not yet under contract is listed in DESIGN section 12.",
        ref="6 (C11), 12",
    ),
}

NA_REASON = "check not built yet in this session (engine under construction); see DESIGN.md section 6"

m = {
    "version": 1,
    "setup_cmd": "./tools/setup.sh",
    "hooks": {
        "guard": "INLINE_SNAPSHOT_VERIF",
        "enable": "no hook in /repo: contracts are sidecars under /verif/contracts; extraction re-reads /repo/src on every run",
        "baseline_off_cmd": "cd /repo && /venv/bin/python -m pytest -ra -q -p no:cacheprovider --timeout=900 --continue-on-collection-errors",
        "source_commits": [],
        "add_only": True,
    },
    "engines": [
        {"name": "pyvc", "path": "pyvc/", "serves_properties": sorted(CLAIMED),
         "kind_free_text": "VC generator: symbolic execution of the real function ASTs (re-extracted from /repo on every run) against sidecar contracts; "
                           "loops cut by invariants; callee = contract; discharged by z3 5.1 / cvc5 1.0.3 / z3 4.8.12; inductive lemmas for spec functions"},
    ],
    "checks": [],
    "not_applicable": [],
}
for p in props:
    pid = p["id"]
    if pid in CLAIMED:
        c = CLAIMED[pid]
        m["checks"].append({
            "property_id": pid,
            "quick_cmd": f"./check.py {pid} --tier quick",
            "thorough_cmd": f"./check.py {pid} --tier thorough",
            "evidence_file": f"evidence/{pid}.json",
            "replay_cmd_template": "/verif/.venv/bin/python {path}",
            "engine": "pyvc",
            "level_claimed": {"category": "proof", "text": c["text"], "design_ref": c["ref"]},
            "level_note": c["note"],
            "technique": TECH,
        })
    else:
        m["not_applicable"].append({"property_id": pid, "reason": NA_REASON})
(HERE / "MANIFEST.json").write_text(json.dumps(m, indent=1))
import jsonschema

jsonschema.validate(m, json.load(open("/root/.vp/MANIFEST.schema.json")))
print("MANIFEST.json valid;", len(m["checks"]), "checks,", len(m["not_applicable"]), "not applicable")
