"""B-rt: bounded stand-in for C01 (create reads back) and C02 (create+fix repairs every reached snapshot).

Every case is a generated test module pushed through the real pipeline
(inline_snapshot.testing.Example.run_inline) in a worker process; the oracle is the re-execution of the
rewritten module with `snapshot` := identity.  Nothing of the rewriting is re-implemented here.

Known defects are tagged by the predicates `_is_f1` / `_is_f11` below; everything else is finding=None.
"""
from __future__ import annotations

import random
import time
import traceback

from bounded import standin
from bounded import _rl_driver as D

MAIN = "test_something.py"

try:  # pydantic is optional
    import pydantic  # noqa: F401

    HAVE_PYDANTIC = True
except Exception:  # pragma: no cover
    HAVE_PYDANTIC = False

try:
    import attrs  # noqa: F401

    HAVE_ATTRS = True
except Exception:  # pragma: no cover
    HAVE_ATTRS = False


# --------------------------------------------------------------------------------------------------
# module template: every class a value may need, at module level
# --------------------------------------------------------------------------------------------------
MARK = "# ---- case ----\n"

_WEIRD = '''class Weird:
    """repr is not Python code -> recorded through HasRepr"""

    def __init__(self, n):
        self.n = n

    def __eq__(self, other):
        if type(other) is not Weird:
            return NotImplemented
        return self.n == other.n

    def __hash__(self):
        return hash(self.n)

    def __repr__(self):
        return f"<Weird {self.n}>"
'''

# name that triggers the block -> (blocks it depends on, import lines, code)
_BLOCKS = {
    "Color": ((), ("from enum import Enum",), 'class Color(Enum):\n    RED = 1\n    GREEN = "g"\n'),
    "Perm": ((), ("from enum import Flag",), "class Perm(Flag):\n    R = 1\n    W = 2\n    X = 4\n"),
    "Plain": ((), (), "class Plain:\n    pass\n"),
    "Outer": ((), (), "class Outer:\n    class In:\n        pass\n"),
    "Inner": ((), ("from dataclasses import dataclass, field",), '@dataclass\nclass Inner:\n    x: object\n    y: str = "d"\n'),
    "DC": (("Inner",), ("from dataclasses import dataclass, field", "from typing import Optional"),
           "@dataclass\nclass DC:\n    a: object\n    b: list = field(default_factory=list)\n    c: Optional[Inner] = None\n"),
    "NT": ((), ("from collections import namedtuple",), 'NT = namedtuple("NT", "a b")\n'),
    "NTD": ((), ("from typing import NamedTuple",), 'class NTD(NamedTuple):\n    a: object\n    b: str = "dflt"\n'),
    "defaultdict": ((), ("from collections import defaultdict",), ""),
    "Weird": ((), (), _WEIRD),
    "AT": ((), ("import attrs",), '@attrs.define\nclass AT:\n    a: object\n    b: str = "q"\n'),
    "PM": ((), ("from pydantic import BaseModel",), 'class PM(BaseModel):\n    a: int\n    b: str = "z"\n'),
    # model_rebuild(): Example.run_inline compiles the module from a file with `from __future__ import annotations`,
    # compile() inherits that flag, so the annotation `m: PM` is a string which pydantic cannot resolve without a module
    "PM2": (("PM",), ("from pydantic import BaseModel",), "class PM2(BaseModel):\n    m: PM\n    xs: list = []\n\n\nPM2.model_rebuild()\n"),
}
_ORDER = list(_BLOCKS)


def prelude_for(text):
    """module header defining (at module level) exactly the classes the expressions in `text` mention"""
    import re

    need = []

    def want(name):
        if name in need:
            return
        for dep in _BLOCKS[name][0]:
            want(dep)
        need.append(name)

    for name in _ORDER:
        if re.search(r"\b" + name + r"\b", text):
            want(name)
    need.sort(key=_ORDER.index)
    imports = []
    for n in need:
        for imp in _BLOCKS[n][1]:
            if imp not in imports:
                imports.append(imp)
    out = "from inline_snapshot import snapshot\n" + "".join(i + "\n" for i in imports)
    for n in need:
        if _BLOCKS[n][2]:
            out += "\n\n" + _BLOCKS[n][2]
    return out + "\n\n" + MARK


# --------------------------------------------------------------------------------------------------
# value universe (described by source expressions evaluated inside the generated module)
# --------------------------------------------------------------------------------------------------
class V:
    __slots__ = ("expr", "ordk", "hashable", "depth", "kind")

    def __init__(self, expr, ordk=None, hashable=True, depth=0, kind="atom"):
        self.expr = expr
        self.ordk = ordk  # values with the same ordk are mutually orderable with <= / >=
        self.hashable = hashable
        self.depth = depth
        self.kind = kind

    def __repr__(self):
        return f"V({self.expr})"


STR_BASE = ["''", "'a'", '"it\'s"', "'a\\nb'", "' a '"]
STR_EXTRA = ["'a\\n'", "'a\\n\\nb\\n'", "'\"'", "'é€'", "'\\\\'", "'\\ta'", "'a \\nb'", "' '", "'a\\r\\nb'", "'\\x00'", "\"'''\"",
             "'a\\'\\'\\'b\"\"\"c\\nd'", "'  two\\n    four\\n'", "'\\n'", "'x' * 100"]


def atoms(tier):
    a = [
        V("0", "num"), V("-1", "num"), V("2**70", "num"),
        V("1.5", "num"), V("-0.0", "num"), V("1e100", "num"),
        V("2+1j"), V("-1j"),
        V("True", "num"), V("False", "num"), V("None"),
        V("b''", "bytes"), V("b'a\\x00'", "bytes"), V("b\"it's\"", "bytes"),
        V("Color.RED", kind="enum"), V("Color.GREEN", kind="enum"),
        V("Perm.R", kind="flag"), V("Perm.R | Perm.X", kind="flag"),
        V("Plain", kind="type"), V("Outer.In", kind="type"), V("int", kind="type"),
        V("Weird(1)", kind="hasrepr"),
    ]
    strs = STR_BASE + (STR_EXTRA if tier == "thorough" else STR_EXTRA[:7])
    a += [V(s, "str", kind="str") for s in strs]
    return a


# value that is NOT representable by its repr (float('inf')): kept as an explicit probe, see the report
PROBES = [V("float('inf')", "num", kind="probe-inf"), V("[float('-inf')]", None, False, 1, kind="probe-inf")]

KEY_POOL = ["'k'", "1", "(1, 'a')", "''", "'key two'", "-1", "(2,)", "b'k'", "True", "None", "Color.RED", "1.5"]


def _list_ordk(children):
    ks = {c.ordk for c in children}
    if len(ks) == 1 and None not in ks:
        return ("seq", ks.pop())
    if not children:
        return ("seq", "empty")
    return None


def containers(children, rng):
    """all container constructors applied to the given child values (len 0..3)"""
    cs = children
    d = 1 + max([c.depth for c in cs], default=0)
    ex = [c.expr for c in cs]
    allh = all(c.hashable for c in cs)
    out = []
    out.append(V("[" + ", ".join(ex) + "]", _list_ordk(cs) and ("list", _list_ordk(cs)), False, d, "list"))
    if len(cs) == 1:
        out.append(V("(" + ex[0] + ",)", _list_ordk(cs) and ("tuple", _list_ordk(cs)), allh, d, "tuple"))
    else:
        out.append(V("(" + ", ".join(ex) + ")", _list_ordk(cs) and ("tuple", _list_ordk(cs)), allh, d, "tuple"))
    keys = rng.sample(KEY_POOL, len(cs))
    out.append(V("{" + ", ".join(f"{k}: {e}" for k, e in zip(keys, ex)) + "}", None, False, d, "dict"))
    if allh:
        if cs:
            out.append(V("{" + ", ".join(ex) + "}", "set", False, d, "set"))
            out.append(V("frozenset({" + ", ".join(ex) + "})", "set", True, d, "frozenset"))
        else:
            out.append(V("set()", "set", False, d, "set"))
            out.append(V("frozenset()", "set", True, d, "frozenset"))
    if len(cs) >= 1:
        out.append(V(f"DC(a={ex[0]})", None, False, d, "dataclass"))
        out.append(V(f"NT(a={ex[0]}, b={ex[-1]})", None, allh, d, "namedtuple"))
        out.append(V(f"NTD(a={ex[0]})", None, allh, d, "namedtuple"))
        out.append(V(f"defaultdict(list, {{'k': [{', '.join(ex)}]}})", None, False, d, "defaultdict"))
        out.append(V(f"DC(a=1, c=Inner(x={ex[0]}))", None, False, d + 1, "dataclass"))
        if HAVE_ATTRS:
            out.append(V(f"AT(a={ex[0]})", None, False, d, "attrs"))
        if HAVE_PYDANTIC:
            out.append(V(f"PM2(m=PM(a=1), xs=[{', '.join(ex)}])", None, False, d + 1, "pydantic"))
    if len(cs) >= 2:
        out.append(V(f"DC(a={ex[0]}, b=[{', '.join(ex[1:])}])", None, False, d, "dataclass"))
        if cs[1].kind == "str":
            out.append(V(f"DC(a=1, c=Inner(x={ex[0]}, y={ex[1]}))", None, False, d + 1, "dataclass"))
            out.append(V(f"NTD(a={ex[0]}, b={ex[1]})", None, allh, d, "namedtuple"))
            if HAVE_ATTRS:
                out.append(V(f"AT(a={ex[0]}, b={ex[1]})", None, False, d, "attrs"))
            if HAVE_PYDANTIC:
                out.append(V(f"PM(a=7, b={ex[1]})", None, False, d, "pydantic"))
    if not cs:
        out.append(V("defaultdict(list)", None, False, d, "defaultdict"))
        out.append(V("defaultdict(int, {'n': 1})", None, False, d, "defaultdict"))
        if HAVE_PYDANTIC:
            out.append(V("PM(a=1)", None, False, d, "pydantic"))
            out.append(V("PM(a=2, b='x')", None, False, d, "pydantic"))
        out.append(V("DC(a=1, b=[], c=None)", None, False, d, "dataclass"))
        out.append(V("NTD(a=1, b='dflt')", None, True, d, "namedtuple"))
    return out


def gen_values(tier, rng):
    """(systematic, random) value lists"""
    at = atoms(tier)
    max_depth = 2 if tier == "quick" else 3
    systematic = list(at)
    # every constructor with no child, with each atom as the single child
    systematic += containers([], rng)
    for a in at:
        systematic += containers([a], rng)
    # some fixed widths 2 and 3
    by = {a.expr: a for a in at}
    fixed = [
        [by["0"], by["-1"]], [by["0"], by["' a '"]], [by["'a'"], by["'a\\nb'"]], [by["1.5"], by["2**70"], by["True"]],
        [by["'a'"], by["' a '"], by["\"it's\""]], [by["None"], by["Color.RED"], by["Plain"]], [by["b''"], by["b'a\\x00'"]],
        [by["Weird(1)"], by["0"]], [by["2+1j"], by["'a'"]],
    ]
    for f in fixed:
        systematic += containers(f, rng)
    # random trees
    n_random = 360 if tier == "quick" else 14000
    pool = {0: list(at)}
    pool[1] = [v for v in systematic if v.depth == 1]
    rand = []
    for depth in range(2, max_depth + 1):
        pool[depth] = []
    tries = 0
    while len(rand) < n_random and tries < n_random * 20:
        tries += 1
        depth = rng.randint(1, max_depth)
        width = rng.randint(0, 3)
        lower = [v for dd in range(depth) for v in pool.get(dd, [])]
        if not lower:
            continue
        kids = [rng.choice(lower) for _ in range(width)]
        # at least one child of depth-1 so that the nesting is real
        if kids and depth >= 2 and pool.get(depth - 1):
            kids[0] = rng.choice(pool[depth - 1])
        # sets need distinct hashable children; duplicates are harmless for correctness
        cands = [c for c in containers(kids, rng) if c.depth <= max_depth]
        if not cands:
            continue
        v = rng.choice(cands)
        if len(v.expr) > 400:
            continue
        pool.setdefault(v.depth, []).append(v)
        rand.append(v)
    return systematic, rand


# --------------------------------------------------------------------------------------------------
# C01 sources
# --------------------------------------------------------------------------------------------------
OPS = ("eq", "req", "le", "ge", "in", "getitem")
PLACEMENTS = ("assert", "helper", "module", "loop")


def _cmp(op, v, s, key="'k'"):
    return {
        "eq": f"assert {v} == {s}",
        "req": f"assert {s} == {v}",
        "le": f"assert {v} <= {s}",
        "ge": f"assert {v} >= {s}",
        "in": f"assert {v} in {s}",
        "getitem": f"assert {s}[{key}] == {v}",
    }[op]


def build_c01(case):
    expr, op, placement, key = case["expr"], case["op"], case["placement"], case.get("key", "'k'")
    lines = []
    if placement == "assert":
        if op == "getitem":
            lines += ["def test_a():", f"    v = {expr}", "    s = snapshot()", "    " + _cmp(op, "v", "s", key)]
        else:
            lines += ["def test_a():", f"    v = {expr}", "    " + _cmp(op, "v", "snapshot()", key)]
    elif placement == "helper":
        lines += ["def check(v, s):", "    " + _cmp(op, "v", "s", key), "", "", "def test_a():", f"    check({expr}, snapshot())"]
    elif placement == "module":
        lines += ["S0 = snapshot()", "", "", "def test_a():", f"    v = {expr}", "    " + _cmp(op, "v", "S0", key), "", "",
                  "def test_b():", f"    v = {expr}", "    " + _cmp(op, "v", "S0", key)]
    elif placement == "loop":
        if op == "getitem":
            lines += ["def test_a():", "    for _ in range(3):", f"        v = {expr}", "        s = snapshot()",
                      "        " + _cmp(op, "v", "s", key)]
        else:
            lines += ["def test_a():", "    for _ in range(3):", f"        v = {expr}", "        " + _cmp(op, "v", "snapshot()", key)]
    elif placement == "multi":
        # several different values against one snapshot: `in` collects, <= / >= keep the bound, [key] several keys
        exprs = case["exprs"]
        if op == "getitem":
            keys = case["keys"]
            lines += ["def test_a():", "    s = snapshot()"]
            for k, e in zip(keys, exprs):
                lines += [f"    assert s[{k}] == {e}"]
        else:
            lines += ["def test_a():", f"    for v in [{', '.join(exprs)}]:", "        " + _cmp(op, "v", "snapshot()", key)]
    else:  # pragma: no cover
        raise ValueError(placement)
    body = "\n".join(lines) + "\n"
    return prelude_for(body) + body


def c01_cases(tier, seed):
    rng = random.Random(seed * 7919 + 1)
    systematic, rand = gen_values(tier, rng)
    cases = []

    def ops_for(v):
        ops = ["eq", "req", "in", "getitem"]
        if v.ordk is not None:
            ops += ["le", "ge"]
        return ops

    seen = set()

    def add(v, op, pl, **kw):
        key = kw.get("key", "'k'")
        sig = (v.expr, op, pl, key)
        if sig in seen:
            return
        seen.add(sig)
        cases.append(dict(kind="C01", expr=v.expr, vkind=v.kind, depth=v.depth, op=op, placement=pl, key=key))

    # depth-0 atoms: full cross of operations and placements
    for v in systematic:
        if v.depth == 0:
            for op in ops_for(v):
                for pl in PLACEMENTS:
                    add(v, op, pl)
    # depth >= 1, systematic: every op once, placement rotating; thorough: full cross
    i = 0
    for v in systematic:
        if v.depth >= 1:
            for op in ops_for(v):
                if tier == "thorough":
                    for pl in PLACEMENTS:
                        add(v, op, pl)
                else:
                    if op in ("eq", "in", "getitem") or i % 3 == 0:
                        add(v, op, PLACEMENTS[i % 4])
                    i += 1
    for v in rand:
        ops = ops_for(v)
        for op in (ops if tier == "thorough" else rng.sample(ops, 2)):
            add(v, op, rng.choice(PLACEMENTS), key=rng.choice(KEY_POOL))
    # keys of every kind for [key]
    for k in KEY_POOL + ["' a '", "'a\\nb'"]:
        for v in (systematic[0], systematic[-1]):
            add(v, "getitem", "assert", key=k)
    # probes
    for v in PROBES:
        add(v, "eq", "assert")
    # several values against one snapshot
    at = [v for v in systematic if v.depth == 0]
    groups = {}
    for v in at:
        groups.setdefault(v.ordk, []).append(v)
    n_multi = 60 if tier == "quick" else 600
    for _ in range(n_multi):
        op = rng.choice(["in", "getitem", "le", "ge"])
        if op in ("le", "ge"):
            g = groups[rng.choice(["num", "str", "bytes"])]
            vs = rng.sample(g, min(len(g), rng.randint(2, 3)))
        else:
            src = systematic + rand
            vs = [rng.choice(src) for _ in range(rng.randint(2, 3))]
        keys = rng.sample(KEY_POOL[:8], len(vs))  # 1/True/1.5 ... collide as dict keys only if equal; the first 8 are distinct
        cases.append(dict(kind="C01", expr=vs[0].expr, exprs=[v.expr for v in vs], keys=keys, vkind="multi", depth=max(v.depth for v in vs),
                          op=op, placement="multi", key="'k'"))
    return cases


# --------------------------------------------------------------------------------------------------
# C02: (old source text, new value) pairs
# --------------------------------------------------------------------------------------------------
class Call:
    """constructor call spec: name, positional args, keyword args"""

    def __init__(self, name, args=(), kwargs=()):
        self.name = name
        self.args = list(args)
        self.kwargs = list(kwargs)  # [(name, value)]

    def __eq__(self, other):
        return isinstance(other, Call) and (self.name, self.args, self.kwargs) == (other.name, other.args, other.kwargs)

    def __repr__(self):
        return f"Call({self.name},{self.args},{self.kwargs})"


def canon(x):
    """plain expression of a value spec"""
    if isinstance(x, Call):
        return x.name + "(" + ", ".join([canon(a) for a in x.args] + [f"{k}={canon(v)}" for k, v in x.kwargs]) + ")"
    if isinstance(x, list):
        return "[" + ", ".join(map(canon, x)) + "]"
    if isinstance(x, tuple):
        return "(" + ", ".join(map(canon, x)) + ("," if len(x) == 1 else "") + ")"
    if isinstance(x, dict):
        return "{" + ", ".join(f"{canon(k)}: {canon(v)}" for k, v in x.items()) + "}"
    return repr(x)


def odd_leaf(x, rng, style):
    """hand-written but valid spelling of a leaf with the same value"""
    if style != "expr" and not (style == "mixed" and rng.random() < 0.5):
        r = repr(x)
        if isinstance(x, str) and style in ("mixed", "quotes") and "'" not in x and '"' not in x and "\\" not in r:
            return '"' + r[1:-1] + '"'
        return r
    if isinstance(x, bool):
        return rng.choice(["not False", "bool(1)"]) if x else rng.choice(["not True", "bool(0)"])
    if isinstance(x, int):
        if rng.random() < 0.06:
            return f"({x})"  # redundant parentheses: valid, but trips the new defect "paren-element" (see report)
        return rng.choice([f"0+{x}" if x >= 0 else f"0-{-x}", f'int("{x}")', f"{x}*1", f"+{x}" if x >= 0 else f"-({-x})"])
    if isinstance(x, str):
        if len(x) >= 2 and "\\" not in repr(x) and "'" not in x and '"' not in x:
            return f'"{x[:1]}" "{x[1:]}"'
        return f"str({x!r})"
    if isinstance(x, float):
        return f"float({repr(x)!r})"
    return repr(x)


def render(x, rng, style, indent=1):
    """odd-but-valid source text of a value spec.  styles: plain, spaces, trail, multi, expr, mixed"""
    st = style
    if style == "mixed":
        st = rng.choice(["plain", "spaces", "trail", "multi", "plain"])
    if isinstance(x, (list, tuple, dict, Call)):
        if isinstance(x, dict):
            parts = [f"{render(k, rng, style, indent + 1)}{' ' if st == 'spaces' else ''}:{'  ' if st == 'spaces' else ' '}{render(v, rng, style, indent + 1)}"
                     for k, v in x.items()]
            o, c = "{", "}"
        elif isinstance(x, Call):
            eq = " = " if st == "spaces" else "="
            parts = [render(a, rng, style, indent + 1) for a in x.args] + [f"{k}{eq}{render(v, rng, style, indent + 1)}" for k, v in x.kwargs]
            o, c = x.name + ("(" if st != "spaces" else "( "), ")"
        else:
            parts = [render(e, rng, style, indent + 1) for e in x]
            o, c = ("[", "]") if isinstance(x, list) else ("(", ")")
        one_tuple = isinstance(x, tuple) and len(x) == 1
        if st == "multi" and parts:
            pad = "    " * (indent + 1)
            body = "".join(f"\n{pad}{p},{'  # c' + str(i) if rng.random() < 0.6 else ''}" for i, p in enumerate(parts))
            return f"{o}{body}\n{'    ' * indent}{c}"
        if st == "spaces":
            body = " , ".join(parts) + (" ," if one_tuple else "")
            return f"{o} {body} {c}" if parts else f"{o} {c}"
        if st == "trail" and parts:
            return f"{o}{', '.join(parts)},{c}"
        return f"{o}{', '.join(parts)}{',' if one_tuple else ''}{c}"
    return odd_leaf(x, rng, style)


LEAVES = [0, 1, 2, 3, -5, "a", "ab", "c d", "it's", True, None, 2.5, b"x", "x\ny", " pad "]


def rand_spec(rng, depth, width=3, dc=True):
    if depth == 0 or rng.random() < 0.25:
        return rng.choice(LEAVES)
    n = rng.randint(0, width)
    kind = rng.choice(["list", "list", "tuple", "dict", "call"] if dc else ["list", "tuple", "dict"])
    kids = [rand_spec(rng, depth - 1, width, dc) for _ in range(n)]
    if kind == "list":
        return kids
    if kind == "tuple":
        return tuple(kids)
    if kind == "dict":
        keys = rng.sample(["a", "b", "c", 1, 2, (1, 2), "k k"], n)
        return dict(zip(keys, kids))
    # constructor calls
    which = rng.choice(["DC", "DCpos", "NT", "Inner", "DCkw"])
    a = kids[0] if kids else 1
    if which == "DC":
        return Call("DC", [], [("a", a)])
    if which == "DCpos":
        return Call("DC", [a, [k for k in kids[1:]]], [])
    if which == "DCkw":
        return Call("DC", [], [("a", a), ("b", list(kids[1:]))] if len(kids) > 1 else [("a", a), ("c", Call("Inner", [], [("x", 1), ("y", "yy")]))])
    if which == "NT":
        return Call("NT", [], [("a", a), ("b", kids[-1] if kids else None)])
    return Call("Inner", [], [("x", a)] + ([("y", "why")] if n > 1 else []))


def edit(x, rng, depth=0):
    """a different value derived from x: other type / longer / shorter / reordered / element changed / nested change"""
    choice = rng.random()
    if isinstance(x, Call):
        args = list(x.args)
        kwargs = list(x.kwargs)
        if kwargs and choice < 0.6:
            i = rng.randrange(len(kwargs))
            k, v = kwargs[i]
            if k in ("y",):
                kwargs[i] = (k, rng.choice(["d", "other", "why"]))  # "d" is the default of Inner.y -> argument removed
            elif k == "b":
                kwargs[i] = (k, edit(v, rng, depth + 1) if isinstance(v, list) else [1])
                if not isinstance(kwargs[i][1], list):
                    kwargs[i] = (k, [])
            elif k == "c":
                kwargs[i] = (k, rng.choice([None, Call("Inner", [], [("x", 3)])]))
            else:
                kwargs[i] = (k, edit(v, rng, depth + 1))
            return Call(x.name, args, kwargs)
        if x.name == "DC" and choice < 0.8 and not any(k == "c" for k, _ in kwargs):
            return Call(x.name, args, kwargs + [("c", Call("Inner", [], [("x", 9)]))])
        if args:
            args[0] = edit(args[0], rng, depth + 1)
            return Call(x.name, args, kwargs)
        return rng.choice([0, [x], "other"])
    if isinstance(x, (list, tuple)):
        t = type(x)
        xs = list(x)
        ops = ["append", "prepend", "insert", "other_type", "change"]
        if xs:
            ops += ["delete", "delete_first", "reverse", "nested", "rotate", "dup"]
        op = rng.choice(ops)
        if op == "append":
            xs.append(rng.choice(LEAVES))
        elif op == "prepend":
            xs.insert(0, rng.choice(LEAVES))
        elif op == "insert":
            xs.insert(rng.randint(0, len(xs)), rand_spec(rng, 1))
        elif op == "delete":
            del xs[rng.randrange(len(xs))]
        elif op == "delete_first":
            del xs[0]
        elif op == "reverse":
            xs.reverse()
            if xs == list(x):
                xs.append(7)
        elif op == "rotate":
            xs = xs[1:] + xs[:1]
            if xs == list(x):
                xs.append(7)
        elif op == "dup":
            xs = xs + xs
        elif op == "nested" or op == "change":
            if xs:
                i = rng.randrange(len(xs))
                xs[i] = edit(xs[i], rng, depth + 1)
            else:
                xs = [1]
        elif op == "other_type":
            return (list if t is tuple else tuple)(xs) if rng.random() < 0.6 else rng.choice([5, "s", {"a": xs}])
        return t(xs)
    if isinstance(x, dict):
        d = dict(x)
        ops = ["add", "add_front", "other_type"]
        if d:
            ops += ["remove", "change", "reorder", "nested"]
        op = rng.choice(ops)
        if op == "add":
            d[rng.choice(["zz", 99, (9, 9)])] = rng.choice(LEAVES)
        elif op == "add_front":
            d = {"first": rng.choice(LEAVES), **d}
        elif op == "remove":
            d.pop(rng.choice(list(d)))
        elif op in ("change", "nested"):
            k = rng.choice(list(d))
            d[k] = edit(d[k], rng, depth + 1)
        elif op == "reorder":
            items = list(d.items())
            items.reverse()
            d = dict(items)
            d["tail"] = 0  # equal dicts in another order would need no fix at all
        elif op == "other_type":
            return rng.choice([list(d.items()), 5, None]) if False else [[k, v] for k, v in d.items()] or 5
        return d
    # leaf
    others = [v for v in LEAVES if not (v == x and type(v) is type(x))]
    r = rng.random()
    if r < 0.6:
        return rng.choice(others)
    if r < 0.8:
        return [x]
    return (x, x)


def has_ws_str(x):
    if isinstance(x, str):
        return x != x.strip() or "\n" in x
    if isinstance(x, Call):
        return any(has_ws_str(a) for a in x.args) or any(has_ws_str(v) for _, v in x.kwargs)
    if isinstance(x, (list, tuple)):
        return any(has_ws_str(e) for e in x)
    if isinstance(x, dict):
        return any(has_ws_str(k) or has_ws_str(v) for k, v in x.items())
    return False


STYLES = ["plain", "spaces", "trail", "multi", "expr", "mixed", "quotes"]


def c02_cases(tier, seed):
    rng = random.Random(seed * 104729 + 2)
    cases = []
    n_pairs = 800 if tier == "quick" else 40000
    # systematic: short sequences over a tiny alphabet, every edit script shape (prefix/suffix/middle), odd leaf spellings
    alphabet = [1, 2, 3]
    seqs = [[]] + [[a] for a in alphabet] + [[a, b] for a in alphabet for b in alphabet] + [[1, 2, 3], [3, 2, 1], [1, 1, 2], [2, 1, 2]]
    sys_pairs = []
    for old in seqs:
        for new in seqs:
            if old != new:
                sys_pairs.append((old, new))
    rng.shuffle(sys_pairs)
    if tier == "quick":
        sys_pairs = sys_pairs[:140]
    for i, (old, new) in enumerate(sys_pairs):
        t = [list, tuple][i % 2]
        style = STYLES[i % len(STYLES)]
        cases.append(dict(kind="C02", shape="single", op="eq", old_text=render(t(old), rng, style), new_expr=canon(t(new)), style=style,
                          placement=PLACEMENTS[i % 4], ws=False))
    # random pairs
    for i in range(n_pairs):
        depth = rng.choice([1, 1, 2, 2, 3] if tier == "thorough" else [1, 1, 2, 2])
        old = rand_spec(rng, depth)
        new = edit(old, rng)
        if rng.random() < 0.15:
            new = edit(new, rng)
        style = rng.choice(STYLES)
        old_text = render(old, rng, style)
        shape = rng.choice(["single", "single", "two_fix", "fix_then_create", "create_then_fix"])
        c = dict(kind="C02", shape=shape, op="eq", old_text=old_text, new_expr=canon(new), style=style,
                 placement=rng.choice(PLACEMENTS) if shape == "single" else "assert", ws=has_ws_str(new))
        if shape != "single":
            old2 = rand_spec(rng, 1)
            new2 = edit(old2, rng)
            c.update(old_text2=render(old2, rng, rng.choice(STYLES)), new_expr2=canon(new2), ws=c["ws"] or has_ws_str(new2))
        cases.append(c)
    # unchanged value, odd text: nothing to repair, must stay green
    for i in range(12 if tier == "quick" else 150):
        old = rand_spec(rng, 2)
        style = rng.choice(STYLES)
        cases.append(dict(kind="C02", shape="single", op="eq", old_text=render(old, rng, style), new_expr=canon(old), style=style,
                          placement=PLACEMENTS[i % 4], ws=False))
    # other operations under fix
    nums = [0, 1, 5, -3, 2**70, 2.5]
    for i in range(30 if tier == "quick" else 400):
        op = rng.choice(["le", "ge", "in", "getitem"])
        style = rng.choice(STYLES)
        if op in ("le", "ge"):
            old, new = rng.choice(nums), rng.choice(nums)
            old_text, new_expr = render(old, rng, style), canon(new)
        elif op == "in":
            old = [rng.choice(LEAVES) for _ in range(rng.randint(0, 3))]
            new = rng.choice(LEAVES + [[1], (1, 2)])
            old_text, new_expr = render(old, rng, style), canon(new)
        else:
            old = {k: rand_spec(rng, 1, dc=False) for k in rng.sample(["k", "a", 1, (1, 2)], rng.randint(0, 3))}
            new = edit(old.get("k", 1), rng)
            old_text, new_expr = render(old, rng, style), canon(new)
        cases.append(dict(kind="C02", shape="single", op=op, old_text=old_text, new_expr=new_expr, style=style,
                          placement=rng.choice(["assert", "helper", "loop"]), ws=has_ws_str(new) or (op == "in" and has_ws_str(old))))
    return cases


def build_c02(case):
    op = case["op"]
    lines = []
    shape = case["shape"]

    def snap(text):
        return f"snapshot({text})"

    if shape == "single":
        e, s = case["new_expr"], snap(case["old_text"])
        pl = case["placement"]
        if pl == "assert":
            if op == "getitem":
                lines += ["def test_a():", f"    v = {e}", f"    s = {s}", "    " + _cmp(op, "v", "s")]
            else:
                lines += ["def test_a():", f"    v = {e}", "    " + _cmp(op, "v", s)]
        elif pl == "helper":
            lines += ["def check(v, s):", "    " + _cmp(op, "v", "s"), "", "", "def test_a():", f"    check({e}, {s})"]
        elif pl == "module":
            lines += [f"S0 = {s}", "", "", "def test_a():", f"    v = {e}", "    " + _cmp(op, "v", "S0"), "", "",
                      "def test_b():", f"    v = {e}", "    " + _cmp(op, "v", "S0")]
        elif pl == "loop":
            if op == "getitem":
                lines += ["def test_a():", "    for _ in range(3):", f"        v = {e}", f"        s = {s}", "        " + _cmp(op, "v", "s")]
            else:
                lines += ["def test_a():", "    for _ in range(3):", f"        v = {e}", "        " + _cmp(op, "v", s)]
    else:
        first = snap(case["old_text"]) if shape != "create_then_fix" else "snapshot()"
        second = snap(case["old_text2"]) if shape != "fix_then_create" else "snapshot()"
        lines += ["def test_a():", f"    v1 = {case['new_expr']}", f"    v2 = {case['new_expr2']}",
                  f"    assert v1 == {first}", f"    assert v2 == {second}"]
    body = "\n".join(lines) + "\n"
    return prelude_for(body) + body


# --------------------------------------------------------------------------------------------------
# predicates for the known defects
# --------------------------------------------------------------------------------------------------
def docnorm(s):
    """what the pipeline's fragment formatting (black on a lone string statement) turns the str `s` into"""
    import ast
    import tokenize

    import black
    from inline_snapshot._utils import value_to_token

    try:
        text = tokenize.untokenize(value_to_token(s))
        return ast.literal_eval(black.format_str(text, mode=black.Mode()).strip())
    except Exception:
        return s


def _fields_of(x):
    import dataclasses

    if dataclasses.is_dataclass(x) and not isinstance(x, type):
        return [(f.name, getattr(x, f.name)) for f in dataclasses.fields(x)]
    try:
        import attrs as _attrs

        if _attrs.has(type(x)):
            return [(f.name, getattr(x, f.name)) for f in _attrs.fields(type(x))]
    except Exception:
        pass
    try:
        from pydantic import BaseModel

        if isinstance(x, BaseModel):
            return [(n, getattr(x, n)) for n in type(x).model_fields]
    except Exception:
        pass
    return None


def only_docnorm_diffs(exp, got, counter):
    """True iff got differs from exp only at str leaves / str dict keys where got == docnorm(exp leaf)."""
    try:
        if exp == got:  # equal for Python (1 == True ...): nothing to explain here
            return True
    except Exception:
        pass
    if type(exp) is not type(got):
        return False
    if isinstance(exp, str):
        if exp == got:
            return True
        if got == docnorm(exp):
            counter.append((exp, got))
            return True
        return False
    if isinstance(exp, (list, tuple)):
        return len(exp) == len(got) and all(only_docnorm_diffs(a, b, counter) for a, b in zip(exp, got))
    if isinstance(exp, dict):
        if len(exp) != len(got):
            return False
        if getattr(exp, "default_factory", None) is not getattr(got, "default_factory", None):
            return False
        for k, v in exp.items():
            if k in got:
                gk = k
            elif isinstance(k, str) and docnorm(k) in got:
                gk = docnorm(k)
                counter.append((k, gk))
            else:
                return False
            if not only_docnorm_diffs(v, got[gk], counter):
                return False
        return True
    if isinstance(exp, (set, frozenset)):
        if exp == got:
            return True
        mapped = type(exp)(docnorm(e) if isinstance(e, str) else e for e in exp)
        if mapped == got:
            counter.append((exp, got))
            return True
        return False
    fa = _fields_of(exp)
    if fa is not None:
        fb = _fields_of(got)
        return fb is not None and len(fa) == len(fb) and all(n1 == n2 and only_docnorm_diffs(a, b, counter) for (n1, a), (n2, b) in zip(fa, fb))
    try:
        return bool(exp == got)
    except Exception:
        return False


def _is_f1(case, pairs):
    """pairs: [(expected value, value found as snapshot argument, lone)] for the snapshots of the failing test(s).

    F1 <=> every mismatching pair differs only by black's docstring normalisation of str leaves (whitespace stripping /
    re-indentation of a lone string fragment), and at least one such difference exists.  For C01 the differing leaf
    must additionally sit where the fragment is written alone (top-level value of == / <= / >=, key or value of [key])."""
    found = []
    for exp, got, lone_only in pairs:
        cnt = []
        if lone_only:
            # C01: only the top-level string (or top-level keys/values of the mapping for [key]) may differ
            if isinstance(exp, str):
                if exp == got:
                    continue
                if isinstance(got, str) and got == docnorm(exp):
                    found.append((exp, got))
                    continue
                return False
            if isinstance(exp, dict) and case.get("op") == "getitem":
                if not isinstance(got, dict) or len(got) != len(exp):
                    return False
                for k, v in exp.items():
                    gk = k if k in got else (docnorm(k) if isinstance(k, str) and docnorm(k) in got else None)
                    if gk is None and k not in got:
                        return False
                    if gk != k or type(gk) is not type(k):
                        found.append((k, gk))
                    gv = got[gk]
                    if isinstance(v, str) and isinstance(gv, str) and gv != v:
                        if gv == docnorm(v):
                            found.append((v, gv))
                        else:
                            return False
                    else:
                        try:
                            if not (gv == v):
                                return False
                        except Exception:
                            return False
                continue
            try:
                if exp == got:
                    continue
            except Exception:
                pass
            return False
        else:
            if not only_docnorm_diffs(exp, got, cnt):
                return False
            found += cnt
    return bool(found)


def _is_f11(src_after, errors):
    return bool(errors) and all(e[1] == "NameError" and "'HasRepr'" in e[2] for e in errors) and "HasRepr(" in src_after \
        and "import HasRepr" not in src_after and "HasRepr," not in src_after


# --------------------------------------------------------------------------------------------------
# worker
# --------------------------------------------------------------------------------------------------
def build(case):
    return build_c01(case) if case["kind"] == "C01" else build_c02(case)


def flags_of(case):
    return "create" if case["kind"] == "C01" else "create,fix"


def replay_code(case, src):
    return (
        D.REPLAY_PRELUDE
        + f"\nSRC = {src!r}\nFLAGS = {flags_of(case)!r}\n"
        + "after, raised = run_inline({'test_something.py': SRC}, FLAGS, cwd_files={})\n"
        + "new = after['test_something.py']\nprint(new)\n"
        + "assert raised is None, raised\n"
        + "compile(new, 'test_something.py', 'exec')\n"
        + "rerun_identity(new)  # raises when the rewritten module is not green with snapshot := identity\n"
    )


def eval_case(case):
    """run one case; returns dict(status='ok'|'fail'|'harness', finding, detail, src, after)"""
    src = build(case)
    try:
        compile(src, MAIN, "exec")
    except SyntaxError as ex:
        return dict(status="harness", detail=f"generated source does not compile: {ex}\n{src[-600:]}")
    r = D.run_case({MAIN: src}, flags_of(case), chdir_files={})
    tail = src.split(MARK)[-1]
    if r["error"] is not None:
        return dict(status="fail", finding=None, detail="run_inline raised:\n" + r["error"] + "\nsource:\n" + tail, src=src)
    after = r["files"].get(MAIN)
    after_tail = after.split(MARK)[-1]
    if r["raised"] is not None:
        return dict(status="fail", finding=None, src=src,
                    detail=f"a test raised during the {flags_of(case)} run: {D.short(r['raised'], 600)}\nsource:\n{tail}\nrewritten:\n{after_tail}")
    rr = D.rerun_identity(after)
    if not rr["compiles"]:
        label = _label(case, after, dict(errors=[]))
        return dict(status="fail", finding=None, label=label, src=src,
                    detail=f"[{label}] rewritten module does not compile: {rr['compile_error']}\nsource:\n{tail}\nrewritten:\n{after_tail}")
    if not rr["errors"]:
        info = dict(status="ok", changed=after != src)
        return info
    # classify
    finding, label = None, "other"
    try:
        finding, label = classify(case, src, after, rr)
    except Exception:
        finding, label = None, "other (classifier raised: " + traceback.format_exc()[-300:] + ")"
    errs = "; ".join(f"{w}: {t}: {D.short(m, 200)}" for w, t, m, _ in rr["errors"])
    return dict(status="fail", finding=finding, label=label, src=src,
                detail=f"[{label}] re-run with snapshot := identity is not green: {errs}\nsource:\n{tail}\nrewritten:\n{after_tail}")


def _snapshot_arg_values(after, ns):
    """value of the argument of every snapshot(...) call of the rewritten module (text order), evaluated in its namespace;
    entries are (True, value) or (False, reason)"""
    vals = []
    for a, b, node in D.snapshot_calls(after):
        text = after[a:b]
        if not node.args:
            vals.append((False, "empty"))
            continue
        try:
            vals.append((True, eval(text.strip(), ns)))
        except Exception as ex:
            vals.append((False, f"{type(ex).__name__}: {ex}"))
    return vals


def classify(case, src, after, rr):
    """(finding id | None, label).  Labels only group finding=None failures for triage."""
    errors = rr["errors"]
    if _is_f11(after, errors):
        return "F11", "F11"
    label = _label(case, after, rr)
    ok_kinds = all(e[1] == "AssertionError" or (e[1] == "KeyError" and case["op"] == "getitem") for e in errors)
    if not ok_kinds:
        return None, label
    ns = rr["ns"]
    gots = _snapshot_arg_values(after, ns)
    if not gots or not all(ok for ok, _ in gots):
        return None, label
    gots = [v for _, v in gots]
    pairs = []
    if case["kind"] == "C01":
        if case["op"] == "in" or len(gots) != 1:
            return None, label  # `in` writes a list (never a lone string)
        if case["placement"] == "multi":
            vals = [eval(e, ns) for e in case["exprs"]]
            if case["op"] == "getitem":
                pairs = [({eval(k, ns): v for k, v in zip(case["keys"], vals)}, gots[0], True)]
            else:  # the bound that has to be written: max for `v <= snapshot()`, min for `v >= snapshot()`
                pairs = [((max if case["op"] == "le" else min)(vals), gots[0], True)]
        elif case["op"] == "getitem":
            pairs = [({eval(case["key"], ns): eval(case["expr"], ns)}, gots[0], True)]
        else:
            pairs = [(eval(case["expr"], ns), gots[0], True)]
    else:
        exps = [eval(case["new_expr"], ns)]
        if case["shape"] != "single":
            exps.append(eval(case["new_expr2"], ns))
        if len(gots) != len(exps):
            return None, label
        op = case["op"]
        if op in ("eq", "le", "ge"):
            pairs = [(e, g, False) for e, g in zip(exps, gots)]
        elif op == "in":
            # the new element was inserted alone: F1 iff the list holds docnorm(new) instead of new
            e, g = exps[0], gots[0]
            if isinstance(e, str) and isinstance(g, list) and e not in g and docnorm(e) in g and docnorm(e) != e:
                return "F1", "F1"
            return None, label
        elif op == "getitem":
            e, g = exps[0], gots[0]
            if isinstance(g, dict) and "k" in g:
                pairs = [(e, g["k"], False)]
    if pairs and _is_f1(case, pairs):
        return "F1", "F1"
    return None, label


def _label(case, after, rr):
    import re

    txt = " ".join(e[2] for e in rr["errors"])
    if re.search(r"name '(inf|nan)' is not defined", txt):
        return "new:inf-repr (repr of float inf is the bare name `inf`)"
    old = (case.get("old_text") or "") + " " + (case.get("old_text2") or "")
    if re.search(r"\((-?\d+)\)", old):
        return "new:paren-element (element written in redundant parentheses next to an insertion/deletion)"
    return "other"


# --------------------------------------------------------------------------------------------------
# stand-in
# --------------------------------------------------------------------------------------------------
def _describe(case):
    if case["kind"] == "C01":
        d = dict(prop="C01", value=case.get("exprs") or case["expr"], op=case["op"], placement=case["placement"])
        if case["op"] == "getitem":
            d["key"] = case.get("keys") or case["key"]
        return d
    d = dict(prop="C02", old=case["old_text"], new=case["new_expr"], op=case["op"], shape=case["shape"], placement=case["placement"])
    if case["shape"] != "single":
        d.update(old2=case.get("old_text2"), new2=case.get("new_expr2"))
    return d


@standin("B-rt", props=["C01", "C02"],
         bound="generated test modules through Example.run_inline: C01 value trees depth<=2 (quick)/3 (thorough), width<=3, 6 operations x 4 placements "
               "+ multi-value snapshots, flags=create; C02 (odd old text, new value) pairs depth<=2/3 incl. two-snapshot bodies, flags=create,fix; "
               "oracle = rewritten module compiles and re-runs green with snapshot := identity")
def run(tier, seed, pid=None):
    t0 = time.time()
    budget = 240.0 if tier == "quick" else 1200.0  # sized for ~30 s idle; generous so that load does not shrink the coverage
    deadline = t0 + budget
    res = dict(evaluated=0, distinct=0, failures=[], samples=[], cross_checks=[], skipped=0, notes=[])
    try:
        props = D.requested_props(["C01", "C02"], pid)
        res["props_run"] = props
        cases = []
        if "C01" in props:
            cases += c01_cases(tier, seed)
        if "C02" in props:
            cases += c02_cases(tier, seed)
        # interleave so that a deadline cuts both properties evenly
        random.Random(seed).shuffle(cases)
        workers = 6
        results, not_run = D.pool_run(eval_case, cases, workers, deadline)
        res["skipped"] = not_run
        if not_run:
            res["notes"].append(f"{not_run} generated cases not run (deadline)")
        per_finding = {}
        distinct = set()
        by_prop = {}
        hasrepr_seen = changed = 0
        for case, out in results:
            res["evaluated"] += 1
            p = case["kind"]
            bp = by_prop.setdefault(p, dict(evaluated=0, failed=0))
            bp["evaluated"] += 1
            distinct.add(repr(sorted(_describe(case).items())))
            if "_harness_error" in out or out.get("status") == "harness":
                det = out.get("_harness_error") or out.get("detail")
                _add_failure(res, per_finding, None, dict(_describe(case), harness=True), "HARNESS ERROR (not a defect of /repo): " + det, "")
                continue
            if out["status"] == "ok":
                changed += bool(out.get("changed"))
                continue
            bp["failed"] += 1
            bp.setdefault("by_finding", {})
            bp["by_finding"][str(out["finding"])] = bp["by_finding"].get(str(out["finding"]), 0) + 1
            _add_failure(res, per_finding, out["finding"], _describe(case), out["detail"], replay_code(case, out["src"]), out.get("label", "other"))
        res["distinct"] = len(distinct)
        res["by_prop"] = by_prop
        res["failure_counts"] = {str(k): v for k, v in per_finding.items()}
        rng = random.Random(seed)
        res["samples"] = [_describe(c) for c, _ in rng.sample(results, min(5, len(results)))]
        res["cross_checks"] = [
            "X1 repr round trip (value -> code_repr -> eval in the module namespace, through the re-run)",
            "X2 black keeps the value of formatted fragments (black.format_str on every generated fragment; F1 is its known exception)",
            "X11 executing finds the snapshot() call node (assert / call argument / module level / loop placements)",
            "X4 copy.deepcopy(v) == v for every generated value (clone)",
            f"rewritten != original in {changed} of {res['evaluated']} runs (the pipeline really wrote something)",
        ]
        if not HAVE_PYDANTIC:
            res["notes"].append("pydantic not importable: pydantic models skipped")
        if not HAVE_ATTRS:
            res["notes"].append("attrs not importable: attrs classes skipped")
    except Exception:
        res["failures"].append(dict(finding=None, input="<stand-in driver>", detail="HARNESS ERROR: " + traceback.format_exc()[-3000:], replay_code=""))
    res["passed"] = not res["failures"]
    res["seconds"] = round(time.time() - t0, 1)
    return res


def _add_failure(res, per_finding, finding, inp, detail, replay, label="other"):
    """caps: 5 per finding id, 20 for finding=None (at most 5 per triage label so that one defect cannot hide another)"""
    n = per_finding.get(finding, 0)
    per_finding[finding] = n + 1
    if finding is not None:
        keep = n < 5
    else:
        lab = res.setdefault("none_labels", {})
        lab[label] = lab.get(label, 0) + 1
        kept = sum(1 for f in res["failures"] if f["finding"] is None)
        keep = kept < 20 and lab[label] <= 5
    if keep:
        res["failures"].append(dict(finding=finding, prop=inp.get("prop"), label=label, input=inp, detail=detail, replay_code=replay))
