"""B-gsu: small-scope enumeration of the real `apply_all` / `generic_sequence_update` / `Replace.apply` on real token positions.

For displays with n <= 3 elements (single-line, multi-line, trailing comma, comments, multi-line string elements) of kind
list / tuple / dict / call, every pattern of {kept, deleted} per element x inserts of 0..2 codes at each of the n+1 positions
is applied through the real `apply_all` on a real `ChangeRecorder`; the result must parse and the item list of the edited
display must equal the expected one (Q3 of DESIGN section 5), and everything outside the display must be unchanged (Q2)."""
from __future__ import annotations

import ast
import itertools
import os
import random
import shutil
import tempfile
from pathlib import Path

from bounded import NATIVE_WITNESS, standin

ELEMS = ["1", "0+2", '"""a\nb"""', "[3,\n  4]", "f(5)", "'s'", "(6)", "((7) )"]
LAYOUTS = {
    "single": lambda es: ", ".join(es),
    "trailing": lambda es: ", ".join(es) + ("," if es else ""),
    "multi": lambda es: "".join("\n    " + e + "," for e in es) + ("\n" if es else ""),
    "comment": lambda es: "".join("\n    " + e + ",  # c" for e in es) + ("\n" if es else ""),
}


def build(kind, layout, es):
    if kind == "list":
        body, items = LAYOUTS[layout](es), es
        return f"[{body}]"
    if kind == "tuple":
        body = LAYOUTS[layout](es)
        if len(es) == 1 and "," not in body.replace(es[0], "", 1):
            body += ","
        return f"({body})"
    if kind == "dict":
        return "{" + LAYOUTS[layout]([f"{i!r}: {e}" for i, e in enumerate(es)]) + "}"
    return "g(" + LAYOUTS[layout](es) + ")"


def items_of(node, kind):
    if kind in ("list", "tuple"):
        return [ast.unparse(e) for e in node.elts]
    if kind == "dict":
        return [f"{ast.unparse(k)}: {ast.unparse(v)}" for k, v in zip(node.keys, node.values)]
    return [ast.unparse(a) for a in node.args] + [f"{k.arg}={ast.unparse(k.value)}" for k in node.keywords]


def one_case(workdir, kind, layout, es, deleted, inserts):
    """returns None or a failure message"""
    from executing import Source

    from inline_snapshot._change import CallArg, Delete, DictInsert, ListInsert, apply_all
    from inline_snapshot._rewrite_code import ChangeRecorder
    from inline_snapshot._source_file import SourceFile

    head, tail = "x = 'äö'; v = ", "  # tail\ny = 2\n"
    src = head + build(kind, layout, es) + tail
    p = Path(workdir) / f"m_{random.getrandbits(48):x}.py"
    p.write_text(src, "utf-8")
    try:
        source = Source.for_filename(str(p))
        sf = SourceFile(source)
        tree = source.tree
        node = tree.body[1].value
        changes = []
        if kind in ("list", "tuple"):
            elts = node.elts
        elif kind == "dict":
            elts = node.values
        else:
            elts = node.args
        for i in deleted:
            changes.append(Delete("fix", sf, elts[i], None))
        expected = []
        olds = items_of(node, kind)
        for pos in range(len(es) + 1):
            codes = inserts.get(pos, [])
            if codes:
                if kind in ("list", "tuple"):
                    changes.append(ListInsert("fix", sf, node, pos, list(codes), [None] * len(codes)))
                    expected += [ast.unparse(ast.parse(c, mode="eval").body) for c in codes]
                elif kind == "dict":
                    changes.append(DictInsert("fix", sf, node, pos, [(repr(f"k{pos}{j}"), c) for j, c in enumerate(codes)], [None] * len(codes)))
                    expected += [f"{f'k{pos}{j}'!r}: {ast.unparse(ast.parse(c, mode='eval').body)}" for j, c in enumerate(codes)]
                else:
                    for c in codes:
                        changes.append(CallArg("fix", sf, node, pos, None, c, None))
                    expected += [ast.unparse(ast.parse(c, mode="eval").body) for c in codes]
            if pos < len(es) and pos not in deleted:
                expected.append(olds[pos])
        if not changes:
            return None
        rec = ChangeRecorder()
        try:
            apply_all(changes, rec)
            new = rec.get_source(str(p)).new_code()
        except Exception as ex:
            return f"{type(ex).__name__}: {ex}"
        try:
            t2 = ast.parse(new)
        except SyntaxError as ex:
            return f"result does not parse ({ex.msg}): {new!r}"
        got = items_of(t2.body[1].value, kind) if type(t2.body[1].value) is type(node) or (kind == "tuple" and not expected) else None
        if got is None and not (kind == "tuple" and len(expected) <= 1):
            return f"display changed its kind: {new!r}"
        if got is not None and got != expected:
            return f"items {got} != expected {expected}: {new!r}"
        if not new.startswith(head) or not new.endswith(tail):
            return f"text outside the display changed: {new!r}"
        return None
    finally:
        try:
            p.unlink()
        except OSError:
            pass


def cases(tier, rng):
    n_max = 3
    out = []
    for kind in ("list", "tuple", "dict", "call"):
        for layout in LAYOUTS:
            for n in range(0, n_max + 1):
                for es in ([tuple(ELEMS[:n])] + [tuple(rng.sample(ELEMS, n)) for _ in range(1 if tier == "quick" else 4)]):
                    for k in range(0, n + 1):
                        for deleted in itertools.combinations(range(n), k):
                            for ins in ({}, {0: ["7"]}, {n: ["8", "9"]}, {min(1, n): ['"""x\ny"""']}, {0: ["7"], n: ["8"]}):
                                out.append((kind, layout, es, deleted, ins))
    rng.shuffle(out)
    return out if tier == "thorough" else out[:1500]


REPLAY = '''import sys, tempfile
sys.path.insert(0, "/verif")
from bounded.b_gsu import one_case
msg = one_case(tempfile.mkdtemp(), *{case!r})
print({case!r}, "->", msg)
assert msg is None, msg
'''


def search(tier, seed, limit_failures=3):
    rng = random.Random(seed)
    d = tempfile.mkdtemp(prefix="bgsu")
    fails, n = [], 0
    try:
        for c in cases(tier, rng):
            n += 1
            try:
                msg = one_case(d, *c)
            except Exception as ex:
                msg = f"harness: {type(ex).__name__}: {ex}"
            if msg:
                fails.append((c, msg))
                if len(fails) >= limit_failures:
                    break
    finally:
        shutil.rmtree(d, ignore_errors=True)
    return n, fails


def _witness(obligation):
    n, fails = search("quick", 0, 1)
    if not fails:
        return None
    return REPLAY.format(case=fails[0][0])


for _t in ("inline_snapshot._change.generic_sequence_update", "inline_snapshot._change.Replace.apply"):
    NATIVE_WITNESS[_t] = _witness


@standin("B-gsu", props=["C03", "C18", "C09", "C12", "C02"], bound="displays with <= 3 elements x 4 layouts x 4 kinds x delete subsets x 5 insert patterns "
         "(1500 sampled cases quick / all thorough) through the real apply_all + new_code")
def run(tier, seed):
    n, fails = search(tier, seed, 5)
    return dict(evaluated=n, distinct=n,
                failures=[dict(finding=None, input=repr(c), detail=m, replay_code=REPLAY.format(case=c)) for c, m in fails],
                samples=["('list', 'multi', ('1', '0+2'), (0,), {0: ['7']})"], cross_checks=["X3 asttokens positions", "X4 asttokens.util.replace", "X5 read_text/LineNumbers"])
