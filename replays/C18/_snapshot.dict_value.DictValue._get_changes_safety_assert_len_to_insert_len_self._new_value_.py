"""Replay file written by /verif/check.py
{
 "property": "C18",
 "failed_obligation": "_snapshot.dict_value.DictValue._get_changes/safety:assert@len(to_insert) <= len(self._new_value)",
 "path": 3,
 "function": "inline_snapshot._snapshot.dict_value.DictValue._get_changes",
 "verdict": "refuted",
 "backend": "z3-5.1",
 "solver_model": "ChildMap_get = [else -> Child!val!0]\nChildMap_has = [else -> True]\nDictV_keys = [else -> mk_List_Val(K(Int, Val!val!1), 0)]\nNode_values = [else -> mk_List_Node(K(Int, Node!val!0), 0)]\nNone_Node = Node!val!0\nk!22 = 0\nlen_ChildMap = [else -> 0]\nlen_opq!25 = 1\nnew_items!23 = mk_List_Tuple_Val_Child(K(Int,\n                          mk_Tuple_Val_Child(Val!val!0,\n                                        Child!val!0)),\n                        7719)\nrep_Node = [else -> K(Int, Node!val!0)]\nself._ast_node!3 = Node!val!0\nself._new_value!2 = ChildMap!val!0\nself._old_value!1 = DictV!val!0\ntrace!21 = mk_List_Rec_Chg(K(Int,\n                  mk_Rec_Chg(\"\",\n                             \"\",\n                             Node!val!0,\n                             Val!val!0,\n                             Val!val!0,\n                             Code!val!0,\n                             0)),\n                0)\nundefined_DictV = DictV!val!1",
 "where": "line 84"
}
"""

print('no native failing input was found for this obligation; see the header for the solver output')
