#!/bin/sh
# usage: try_patch.sh <patch.diff> <contract-name-substring>...   -- run contracts against a scratch export of /repo HEAD + patch
P=$(realpath $1); shift
S=$(mktemp -d /tmp/tp_XXXXXX); (cd /repo && git archive HEAD src | tar -x -C $S)
(cd $S && patch -p1 -s < $P) || { echo PATCHFAIL; rm -rf $S; exit 8; }
cd /verif; VERIF_REPO=$S PYTHONPATH=$S/src timeout 900 .venv/bin/python -m pyvc.run "$@" 2>&1 | grep -v "ASSERTION\|^File\|^Line\|^(C)\|^Please\|^$\|datatype_rewriter"
rm -rf $S
