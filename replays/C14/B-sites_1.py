"""Replay file written by /verif/check.py
{
 "property": "C14",
 "standin": "B-sites",
 "bound": "9 fixed programs with call sites in unusual placements, create through Example.run_inline",
 "input": "two-lambdas-on-one-line",
 "detail": "AssertionError: "
}
"""

import json, sys
from inline_snapshot.testing import Example
files = {'test_something.py': '\nfrom inline_snapshot import snapshot\nchecks = {"small": lambda v: v == snapshot(), "big": lambda v: v == snapshot()}\ndef test_a():\n    assert checks["small"](1)\n    assert checks["big"](1000)\n'}
e = Example(files).run_inline(["--inline-snapshot=create"])
for want in ['snapshot(1)', 'snapshot(1000)']:
    assert any(want in src for src in e.files.values()), ("missing " + want, e.files)

