"""Replay file written by /verif/check.py
{
 "property": "C14",
 "failed_obligation": "_inline_snapshot.snapshot#active/post:call-site-key",
 "path": 1,
 "function": "inline_snapshot._inline_snapshot.snapshot#active",
 "verdict": "refuted",
 "backend": "z3-5.1",
 "solver_model": "None_Node = Node!val!0\nSnapMap_get = [(SnapMap!val!1, mk_Tuple_Int_Int(2, 3)) -> Ref!val!0,\n else -> Ref!val!1]\nSnapMap_has = [else ->\n And(Var(0) == SnapMap!val!1,\n     Var(1) == mk_Tuple_Int_Int(2, 3))]\ncall_node!21 = Node!val!0\nother_key = [else -> mk_Tuple_Int_Int(2, 3)]\nref!22 = Ref!val!0\nsnapmap!23 = SnapMap!val!1\nsnapshots!9 = SnapMap!val!0\nstate.active!8 = True",
 "where": ""
}
"""

print('no native failing input was found for this obligation; see the header for the solver output')
