"""_external: outsource / DiscStorage / external (C13).  Names are z3 Strings; sha256 hex digests enter as
"64 characters, none of them '-', '.', '*'" (part of X7), the directory as a symbolic list of Path records (X8)."""
import ast

import z3

from pyvc.contract import Loop, Shape, contract
from pyvc.core import PathEnd, RaiseSig, Unsupported, fresh_value, pack, unpack
from pyvc.defaults import DEFAULT_POLICIES, SHAPES
from pyvc.interp import _MISSING, EXC_BASES, PyList
from pyvc.specs import SPEC_NS, val_term
from pyvc.types import BOOL, INT, STR, Abs, Obj, Opaque, SV, declare_record, parse_ty, sort_of

EX = "inline_snapshot._external"
EXC_BASES["HashError"] = "Exception"

declare_record("PathRec", {"stem": STR, "suffix": STR})
PATH = parse_ty("PathRec")


def sha_hex(I, data_t):
    f = z3.Function("sha256_hex", sort_of(Abs("Val")), z3.StringSort())
    return f(data_t)


def _assume_hash_shape(I, h):
    """X7 (shape part): a hex digest has 64 characters and contains none of '-', '.', '*'"""
    I.ctx.assume(z3.And(z3.Length(h) == 64, z3.Not(z3.Contains(h, z3.StringVal("-"))), z3.Not(z3.Contains(h, z3.StringVal("."))),
                        z3.Not(z3.Contains(h, z3.StringVal("*")))), tag="X7")


# ---------------------------------------------------------------------------------------------- outsource


def p_sha256(I, args, kwargs, node):
    o = Obj("hashlib.sha256", {})

    def update(I2, data):
        o.fields["data"] = data
        return None

    def hexdigest(I2):
        d = o.fields["data"]
        h = sha_hex(I2, val_term(I2, d))
        _assume_hash_shape(I2, h)
        I2.ghost["hashed"] = d
        return SV(h, STR)

    o.fields["update"] = update
    o.fields["hexdigest"] = hexdigest
    return o


def p_encode_utf8(I, sv, name):
    return SV(z3.Function("utf8", sort_of(Abs("Val")), sort_of(Abs("Val")))(sv.t), Abs("Val"))


def s_utf8(I, v):
    return SV(z3.Function("utf8", sort_of(Abs("Val")), sort_of(Abs("Val")))(val_term(I, v)), Abs("Val"))


def s_sha(I, v):
    return SV(sha_hex(I, val_term(I, v)), STR)


def s_isinstance_of(I, v, name):
    return SV(z3.Function("isinst_" + name, sort_of(Abs("Val")), z3.BoolSort())(v.t), BOOL)


SPEC_NS.update({"utf8": s_utf8, "sha": s_sha, "isinstance_of": s_isinstance_of})
DEFAULT_POLICIES["attrs"].update({"Val.encode": lambda I, a, k, n: p_encode_utf8(I, a[0], "encode")})


def p_lookup_all(I, args, kwargs, node):
    """storage.lookup_all(name): names of the files matching the glob (X8); only emptiness matters to outsource"""
    name = args[-1]
    I.ghost["looked_up"] = name
    r = z3.Bool(I.ctx.fresh_name("exists_already"))
    I.ghost["exists_already"] = SV(r, BOOL)
    return Obj("nameset", {"__len__": SV(z3.If(r, z3.IntVal(1), z3.IntVal(0)), INT)})


def p_save(I, args, kwargs, node):
    I.ghost["n_save"] = I.ghost["n_save"] + 1
    I.ghost["saved_name"] = args[-2]
    I.ghost["saved_data"] = args[-1]
    return None


def p_external_ctor(I, args, kwargs, node):
    """external(name): by the contract of external.__init__ (below): ValueError unless the name has the documented shape"""
    name = args[0]
    I.ghost["external_of"] = name
    if not I.ctx.choose():
        raise RaiseSig("ValueError", info=["external.__init__"])
    return Obj(EX + ".external", {"_name": name})


SHAPES.update({"OState": Shape("inline_snapshot._global_state.State", {
    "missing_values": "Int", "incorrect_values": "Int", "update_flags": "@Flags", "active": "Bool", "snapshots": "Opaque",
    "files_with_snapshots": "Opaque", "storage": "@OStorage", "flags": "Opaque"}),
    "OStorage": Shape(EX + ".DiscStorage", {"directory": "Opaque"})})

OUT_G = {"n_save": "=0", "saved_name": "=None", "saved_data": "=None", "looked_up": "=None", "exists_already": "=False", "hashed": "=None", "external_of": "=None"}

for variant, dty in (("str", "is_str"), ("bytes", "is_bytes")):
    contract(
        EX + ".outsource",
        name=f"{EX}.outsource#{variant}",
        params={"data": "Val", "suffix": "Opt[Str]"},
        globals_={"state": "@OState"},
        callees={"hashlib.sha256": p_sha256, "DiscStorage.lookup_all": p_lookup_all, "DiscStorage.save": p_save, "external": p_external_ctor},
        requires={"kind": f"isinstance_of(data, '{'str' if variant == 'str' else 'bytes'}') and not isinstance_of(data, '{'bytes' if variant == 'str' else 'str'}')"},
        ghost={"vars": OUT_G, "light_feasibility": True},
        ensures={
            # C13: "the data behind external(name) is byte-identical to what was outsourced and its SHA-256 is the stored file name"
            "hashes-the-stored-bytes [C13]": "same(hashed, " + ("utf8(old(data))" if variant == "str" else "old(data)") + ")",
            "looks-up-the-full-name [C13]": "looked_up == sha(hashed) + (old(suffix) if old(suffix) is not None else '" + (".txt" if variant == "str" else ".bin") + "')",
            "saves-new-file-only-when-absent [C13]": "(n_save == 1) == (not exists_already) and n_save <= 1",
            "new-file-name-and-content [C13]": "implies(n_save == 1, saved_name == sha(hashed) + '-new' + (old(suffix) if old(suffix) is not None else '"
                                               + (".txt" if variant == "str" else ".bin") + "') and same(saved_data, hashed))",
            "reference-names-the-hash [C13]": "external_of == looked_up",
        },
        raises={"ValueError": {"bad-suffix-or-name [C13]": "True"}},
        safety_props=["C18", "C13"],
        assumes=["X7", "X8"],
    )

# ---------------------------------------------------------------------------------------------- DiscStorage._lookup_path / persist / remove


def p_glob(I, args, kwargs, node):
    files = fresh_value(I.ctx, parse_ty("List[PathRec]"), "matching_files")
    I.ghost["matches"] = files
    I.ghost["globbed"] = args[-1]
    return files


SHAPES.update({"LStorage": Shape(EX + ".DiscStorage", {"directory": "@DirObj"}),
               "DirObj": Shape("pathlib.Path", {"glob": lambda I, pat: p_glob(I, [pat], {}, None)})})

contract(
    EX + ".DiscStorage._lookup_path",
    params={"self": "@LStorage", "name": "Str"},
    ghost={"vars": {"matches": "=None", "globbed": "=None"}},
    returns=None,
    result_name="ret",
    ensures={
        # C13: "A missing or ambiguous hash prefix raises an error instead of resolving to other data"
        "unique-match-is-returned [C13]": "len(matches) == 1 and ret == matches[0] and globbed == name",
    },
    raises={"HashError": {"missing-or-ambiguous [C13]": "len(matches) != 1"}},
    frame=[],
    safety_props=["C18", "C13"],
    assumes=["X8"],
)


def p_lookup_path(I, args, kwargs, node):
    """self._lookup_path(name) by its contract: the unique match, or HashError"""
    I.ghost["looked_up"] = args[-1]
    if not I.ctx.choose():
        I.ghost["lookup_failed"] = True
        raise RaiseSig("HashError", info=["_lookup_path"])
    # Storage naming invariant (established by outsource / save, see their contracts): a stored file is named
    #     <hash> ["-new"] <suffix>      hash: no "." and no "-";  suffix: "." followed by characters other than "." and "-"
    # X8 (pathlib, PurePath.suffix): the suffix is the part from the last dot, unless that dot is the first or the *last* character of the
    # name - for a name ending in a lone dot `Path.suffix` is "" and `Path.stem` is the whole name.
    h = z3.String(I.ctx.fresh_name("file_hash"))
    sfx = z3.String(I.ctx.fresh_name("file_suffix"))
    is_new = z3.Bool(I.ctx.fresh_name("file_is_new"))
    dot, dash = z3.StringVal("."), z3.StringVal("-")
    I.ctx.assume(z3.And(z3.Length(h) >= 1, z3.Not(z3.Contains(h, dot)), z3.Not(z3.Contains(h, dash)),
                        z3.PrefixOf(dot, sfx), z3.Not(z3.Contains(z3.SubString(sfx, 1, z3.Length(sfx)), dot)), z3.Not(z3.Contains(sfx, dash))))
    base = z3.Concat(h, z3.If(is_new, z3.StringVal("-new"), z3.StringVal("")))
    name = z3.Concat(base, sfx)
    real_suffix = z3.Length(sfx) >= 2
    f = unpack(I.ctx, sort_of(PATH).constructor(0)(z3.If(real_suffix, base, name), z3.If(real_suffix, sfx, z3.StringVal(""))), PATH)
    I.ghost["file_is_new"] = SV(is_new, BOOL)
    I.ghost["file_hash"] = SV(h, STR)
    I.ghost["file_sfx"] = SV(sfx, STR)

    def with_name(I2, n):
        I2.ghost["new_name"] = n
        return Obj("PathTarget", {"name": n})

    def rename(I2, target):
        I2.ghost["n_rename"] = I2.ghost["n_rename"] + 1
        I2.ghost["renamed_to"] = target.fields["name"]
        if "rename_failed" in I2.ghost and not I2.ctx.choose():
            # the file system may refuse (permission, the -new file vanished): OSError
            I2.ghost["rename_failed"] = True
            raise RaiseSig("OSError", info=["Path.rename"])
        return None

    def unlink(I2):
        I2.ghost["n_unlink"] = I2.ghost["n_unlink"] + 1
        return None

    def read_bytes(I2):
        return SV(z3.Function("bytes_of_file", sort_of(PATH), sort_of(Abs("Val")))(pack(I2.ctx, f, PATH)), Abs("Val"))

    o = Obj("PathObj", {"name": SV(name, STR), "stem": f.fields["stem"], "suffix": f.fields["suffix"], "with_name": with_name, "rename": rename, "unlink": unlink, "read_bytes": read_bytes,
                        "rec": f})
    I.ghost["file"] = o
    return o


PG = {"looked_up": "=None", "lookup_failed": "=False", "n_rename": "=0", "renamed_to": "=None", "new_name": "=None", "file": "=None", "n_unlink": "=0",
      "file_is_new": "=False", "file_hash": "=None", "file_sfx": "=None"}

contract(
    EX + ".DiscStorage.persist",
    params={"self": "@OStorage", "name": "Str"},
    callees={"DiscStorage._lookup_path": p_lookup_path},
    ghost={"vars": dict(PG, rename_failed="=False")},
    # a reference is <hash>[*]<.suffix> (external.__init__ raises ValueError for anything else)
    requires={"reference-has-a-suffix": "'.' in name"},
    ensures={
        # C13 "a persisted file appears ... when a reference to it is written": the reference may carry the full hash (hash-length >= 64:
        # no `*`), the data is still stored as <hash>-new<suffix>, so the lookup pattern has to admit the infix
        "looks-up-the-given-name [C13]": "looked_up == (name if '*' in name else name.replace('.', '*.', 1))",
        "lookup-admits-the-new-infix [C13,C15]": "'*' in looked_up",
        # C13: a persisted file is the -new file under the same hash and suffix, nothing else is renamed
        "nothing-renamed-when-missing-or-ambiguous [C13,C15]": "when(lookup_failed, n_rename == 0)",
        # stated over the *names* of the storage (<hash>-new<suffix> -> <hash><suffix>), not over pathlib's stem / suffix split: a suffix may be
        # a lone "." (accepted by outsource() and external()), for which Path.suffix is "" (F32)
        "renames-only-new-files [C13,C15]": "when(not lookup_failed, (n_rename == 1) == file_is_new) and n_rename <= 1",
        "persisted-name-keeps-hash-and-suffix [C13]": "when(n_rename == 1, renamed_to == file_hash + file_sfx)",
        # C15: "Externals are persisted before the reference to them is written": a rename that fails must stop the session before
        # fix_all() writes the reference - persist() may not return normally then
        "a-failed-rename-is-not-swallowed [C15,C13]": "not rename_failed",
    },
    raises={"OSError": {"only-from-the-failed-rename [C15]": "rename_failed"}},
    frame=[],
    safety_props=["C18", "C13"],
    assumes=["X8"],
)

contract(
    EX + ".DiscStorage.remove",
    params={"self": "@OStorage", "name": "Str"},
    callees={"DiscStorage._lookup_path": p_lookup_path},
    ghost={"vars": PG},
    ensures={"removes-the-unique-match [C13]": "looked_up == name and n_unlink == 1 and not lookup_failed"},
    raises={"HashError": {"nothing-removed-when-missing-or-ambiguous [C13]": "n_unlink == 0 and lookup_failed"}},
    frame=[],
    safety_props=["C18", "C13"],
    assumes=["X8"],
)

# ---------------------------------------------------------------------------------------------- external.__eq__ / __repr__

SHAPES.update({"Ext": Shape(EX + ".external", {"_hash": "Str", "_suffix": "Str"})})


def p_isinstance_external(I, sv, name, qual):
    return _MISSING


contract(
    EX + ".external.__eq__",
    params={"self": "@Ext", "other": "@Ext"},
    returns=None,
    result_name="ret",
    ensures={
        # C13: equal iff same suffix and one hash is a prefix of the other (a shortened hash in the source still refers to the data)
        "prefix-and-suffix-equality [C13]": "ret == (self._suffix == other._suffix and (self._hash.startswith(other._hash) or other._hash.startswith(self._hash)))",
    },
    frame=[],
    safety_props=["C18", "C13"],
)

# ---------------------------------------------------------------------------------------------- external.__init__ / __repr__

HEX = z3.Union(z3.Range("0", "9"), z3.Range("a", "f"), z3.Range("A", "F"))
ALNUM = z3.Union(z3.Range("0", "9"), z3.Range("a", "z"), z3.Range("A", "Z"))
RE_HASH = z3.Star(HEX)
RE_SUFFIX = z3.Concat(z3.Re("."), z3.Star(ALNUM))
RE_NAME = z3.Concat(RE_HASH, z3.Option(z3.Re("*")), RE_SUFFIX)


def p_fullmatch(I, args, kwargs, node):
    """re.fullmatch(r"([0-9a-fA-F]*)\\*?(\\.[a-zA-Z0-9]*)", name): the match object, or None when the name has not this shape"""
    pat, name = args[0], args[1]
    if pat != r"([0-9a-fA-F]*)\*?(\.[a-zA-Z0-9]*)":
        I.oblige("safety", "external-name-pattern-is-the-documented-one [C13]", z3.BoolVal(False))
    ok = z3.InRe(name.t, RE_NAME)
    if not I.ctx.branch(ok):
        return None
    h = z3.String(I.ctx.fresh_name("group1"))
    sfx = z3.String(I.ctx.fresh_name("group2"))
    star = z3.String(I.ctx.fresh_name("star"))
    I.ctx.assume(z3.And(name.t == z3.Concat(h, star, sfx), z3.InRe(h, RE_HASH), z3.InRe(sfx, RE_SUFFIX), z3.Or(star == z3.StringVal(""), star == z3.StringVal("*"))))
    return Obj("re.Match", {"groups": lambda I2: (SV(h, STR), SV(sfx, STR))})


def s_name_shape(I, name):
    return SV(z3.InRe(name.t, RE_NAME), BOOL)


def s_is_hex(I, s):
    return SV(z3.InRe(s.t, RE_HASH), BOOL)


def s_is_suffix(I, s):
    return SV(z3.InRe(s.t, RE_SUFFIX), BOOL)


SPEC_NS.update({"name_shape": s_name_shape, "is_hex": s_is_hex, "is_suffix": s_is_suffix})

contract(
    EX + ".external.__init__",
    params={"self": "@ExtNew", "name": "Str"},
    shapes={"ExtNew": Shape(EX + ".external", {})},
    callees={"re.fullmatch": p_fullmatch, "fullmatch": p_fullmatch},
    ensures={
        # C13: a reference is a (possibly shortened) hexadecimal hash, an optional `*`, and a dotted suffix
        "decomposes-the-name [C13]": "is_hex(self._hash) and is_suffix(self._suffix) and (self._hash + self._suffix == name or self._hash + '*' + self._suffix == name)",
    },
    raises={"ValueError": {"only-for-a-malformed-name [C13]": "not name_shape(name)"}},
    safety_props=["C18"],
)

SHAPES.update({"CfgHL": Shape("inline_snapshot._config.Config", {"hash_length": "Int"})})

contract(
    EX + ".external.__repr__",
    params={"self": "@Ext"},
    globals_={"inline_snapshot._config.config": "@CfgHL"},
    requires={"configured-length-is-positive": "_config.config.hash_length >= 1"},
    returns=None,
    result_name="ret",
    ensures={
        # C13: the text written into the test file names the hash prefix of the configured length, `*` marks a shortened hash
        "names-the-hash-prefix [C13]": """ret == 'external("' + self._hash[:_config.config.hash_length] + ite(len(self._hash[:_config.config.hash_length]) == 64, '', '*') + self._suffix + '")'""",
    },
    frame=[],
    safety_props=["C18"],
)

# ---------------------------------------------------------------------------------------------- DiscStorage.save / read / lookup_all / list / prune_new_files


def _child(I2, name):
    def write_bytes(I3, data):
        I3.ghost["n_write"] = I3.ghost["n_write"] + 1
        I3.ghost["written_name"] = name
        I3.ghost["written_data"] = data
        I3.ghost["dir_ensured_before_write"] = I3.ghost["n_mkdir"] >= 1
        return None

    def write_text(I3, text, enc=None):
        I3.ghost["n_aux_write"] = I3.ghost["n_aux_write"] + 1
        I3.ghost["aux_name"] = name
        return None

    def exists(I3):
        return SV(z3.Bool(I3.ctx.fresh_name("exists")), BOOL)

    return Obj("PathChild", {"write_bytes": write_bytes, "write_text": write_text, "exists": exists, "name": name})


def _mkdir(I2, **kw):
    I2.ghost["n_mkdir"] = I2.ghost["n_mkdir"] + 1
    return None


SG = {"n_write": "=0", "written_name": "=None", "written_data": "=None", "n_mkdir": "=0", "n_aux_write": "=0", "aux_name": "=None", "dir_ensured_before_write": "=False",
      "globbed": "=None", "matches": "=None"}

SHAPES.update({"SStorage": Shape(EX + ".DiscStorage", {"directory": "@SDir"}),
               "SDir": Shape("pathlib.Path", {"__truediv__": _child, "mkdir": _mkdir})})

contract(
    EX + ".DiscStorage.save",
    params={"self": "@SStorage", "name": "Str", "data": "Val"},
    ghost={"vars": SG},
    ensures={
        # C13: "the data behind external(name) is byte-identical to what was outsourced": one file, named as asked, holding the bytes
        "writes-exactly-the-bytes-under-the-name [C13]": "n_write == 1 and written_name == name and same(written_data, data) and dir_ensured_before_write",
        # the only other file ever written is the .gitignore of the storage directory
        "only-other-write-is-gitignore [C13,C04]": "n_aux_write <= 1 and implies(n_aux_write == 1, aux_name == '.gitignore')",
    },
    requires={"no-glob-character (asserted by the function)": "'*' not in name"},
    callees={"DiscStorage._ensure_directory": "inline"},
    frame=[],
    safety_props=["C18"],
    assumes=["X8"],
)


def p_rec_unlink(I, a, k, n):
    I.ghost["unlinked"] = I.binop(ast.Add(), I.ghost["unlinked"], PyList([a[0]]))
    return None


DEFAULT_POLICIES["attrs"].update({"PathRec.unlink": p_rec_unlink})

contract(
    EX + ".DiscStorage.prune_new_files",
    params={"self": "@LStorage"},
    ghost={"vars": {"matches": "=None", "globbed": "=None", "unlinked": "=emptylist:PathRec"}},
    loops={0: Loop(index="k", ghost_modifies=["unlinked"], inv={"removed-the-matches-so-far": "unlinked == matches[:k]"})},
    ensures={
        # C13: "an outsourced but unreferenced file never survives the start of the next session" - every `*-new.*` file goes -
        # and "a persisted file is removed only by an approved trim": nothing but the `*-new.*` files goes
        "removes-exactly-the-new-files [C13,C04]": "globbed == '*-new.*' and unlinked == matches",
    },
    raises={},
    frame=[],
    safety_props=["C18"],
    assumes=["X8"],
)


def s_bytes_of(I, o):
    return SV(z3.Function("bytes_of_file", sort_of(PATH), sort_of(Abs("Val")))(pack(I.ctx, o.fields["rec"], PATH)), Abs("Val"))


SPEC_NS.update({"bytes_of": s_bytes_of})

contract(
    EX + ".DiscStorage.read",
    params={"self": "@OStorage", "name": "Str"},
    callees={"DiscStorage._lookup_path": p_lookup_path},
    ghost={"vars": PG},
    returns=None,
    result_name="ret",
    ensures={
        # C13: "A missing or ambiguous hash prefix raises an error instead of resolving to other data"
        "content-of-the-unique-match [C13]": "looked_up == name and not lookup_failed and same(ret, bytes_of(file)) and n_unlink == 0 and n_rename == 0",
    },
    raises={"HashError": {"missing-or-ambiguous [C13]": "lookup_failed"}},
    frame=[],
    safety_props=["C18"],
    assumes=["X8"],
)
