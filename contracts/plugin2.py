"""Layer B/D: SnapshotReference._changes, the snapshot_check fixture, snapshot()."""
import z3

from pyvc.contract import Loop, Shape, contract
from pyvc.core import PathEnd, RaiseSig, Unsupported, fresh_value, pack, unpack
from pyvc.defaults import DEFAULT_POLICIES, SHAPES
from pyvc.types import BOOL, INT, STR, Abs, Obj, Opaque, SV, parse_ty, sort_of

from .plugin import CATS, CHG_LIST, _bump, _inc

IS = "inline_snapshot._inline_snapshot"
PP = "inline_snapshot.pytest_plugin"

# ---------------------------------------------------------------------------------------------- SnapshotReference._changes


def p_value_get_changes(I, args, kwargs, node):
    """`value._get_changes()` through dynamic dispatch: any of the value classes; their own contracts prove that every
    emitted change carries one of the four categories (clauses only-known-flags / only-updates)."""
    v = args[0]
    tr = fresh_value(I.ctx, CHG_LIST, "value_changes")
    i = z3.Int(I.ctx.fresh_name("ci"))
    flag = sort_of(parse_ty("Chg")).accessor(0, 1)
    I.ctx.assume(z3.ForAll([i], z3.Implies(z3.And(0 <= i, i < tr.nz()), z3.Or([flag(z3.Select(tr.arr, i)) == z3.StringVal(c) for c in CATS]))), tag="value-changes-have-categories")
    I.ghost["value_changes"] = tr
    return Obj("generator", {"trace": tr, "value": None})


def p_value_new_code(I, args, kwargs, node):
    v = args[0]
    nv = v.fields["_new_value"]
    f = z3.Function("new_code_of", sort_of(Abs("Val")), sort_of(Abs("Code")))
    return SV(f(nv.t), Abs("Code"))


for variant, expr_spec in (("no-source", "=None"), ("with-source", "@Expr")):
    contract(
        IS + ".SnapshotReference._changes",
        name=f"{IS}.SnapshotReference._changes#{variant}",
        params={"self": "@SRef"},
        shapes={
            "SRef": Shape(IS + ".SnapshotReference", {"_expr": expr_spec, "_value": "@Value"}),
            "Expr": Shape("executing.Executing", {"node": "@CallNode"}),
            "CallNode": Shape("ast.Call", {"args": "List[Node]", "__term__": "Node"}),
        },
        callees={"GenericValue._get_changes": p_value_get_changes, "GenericValue._new_code": p_value_new_code},
        frame=[],
        ensures={
            # C04/C18: the session loop indexes `changes[change.flag]`: every change must carry a category
            "flags-are-categories [C04,C18,C05]": "all(trace[j].flag == 'create' or trace[j].flag == 'fix' or trace[j].flag == 'trim' or trace[j].flag == 'update' for j in range(0, len(trace)))",
            # C05: "create only fills a missing value ... and never alters an existing one"
            "empty-call-gets-only-a-create-argument [C05,C01]": "implies((self._value._old_value is undefined if self._expr is None else len(self._expr.node.args) == 0), all(trace[j].kind == 'CallArg' and trace[j].flag == 'create' and trace[j].position == 0"
                " and same(trace[j].new_value, self._value._new_value) and self._value._new_value is not undefined for j in range(0, len(trace))))",
            "existing-argument-is-never-created-over [C05]": "implies(not (self._value._old_value is undefined if self._expr is None else len(self._expr.node.args) == 0), len(trace) == len(value_changes) and all(trace[j] == value_changes[j] for j in range(0, len(trace))))",
            "nothing-for-a-never-compared-empty-snapshot [C05,C08]": "implies((self._value._old_value is undefined if self._expr is None else len(self._expr.node.args) == 0)"
                " and self._value._new_value is undefined, len(trace) == 0)",
            "exactly-one-create-for-a-compared-empty-snapshot [C05,C01]": "implies((self._value._old_value is undefined if self._expr is None else len(self._expr.node.args) == 0)"
                " and self._value._new_value is not undefined, len(trace) == 1 and trace[0].kind == 'CallArg')",
        },
        safety_props=["C18"],
        ghost={"frame_props": ["C14"], "vars": {"value_changes": "empty:List[Chg]"}},
    )

# ---------------------------------------------------------------------------------------------- snapshot_check (autouse fixture)

SHAPES.update({"PlainState": Shape("inline_snapshot._global_state.State", {
    "missing_values": "Int", "incorrect_values": "Int", "update_flags": "@Flags", "active": "Bool",
    "snapshots": "Opaque", "files_with_snapshots": "Opaque", "storage": "Opaque", "flags": "Opaque"})})


def p_snapshot_env(I, args, kwargs, node):
    return Obj("ctxmgr:snapshot_env", {})


def with_hook(I, m, what, sig, env):
    """`with snapshot_env() as s:` -- the real context manager is enter_snapshot_context(); try: yield _current; finally: leave...
    (both bodies are one-liners that push/pop the module-level state; modelled as swapping the `state` global)."""
    if not (isinstance(m, Obj) and m.cls == "ctxmgr:snapshot_env"):
        return Opaque("with")
    if what == "enter":
        _inc(I, "n_enter")
        m.fields["outer"] = I.globals["state"]
        inner = I.V.make_shape(I, "PlainState", "inner_state")
        # State() defaults
        inner.fields["missing_values"] = 0
        inner.fields["incorrect_values"] = 0
        inner.fields["active"] = True
        for f in ("create", "fix", "trim", "update"):
            inner.fields["update_flags"].fields[f] = False
        I.globals["state"] = inner
        return inner
    _inc(I, "n_leave")
    I.globals["state"] = m.fields["outer"]
    return None


def yield_hook(I, v, node):
    """The test function runs here: it may change the counters of the *current* state and may raise."""
    st = I.globals["state"]
    I.ghost["yielded"] = True
    I.ghost["active_at_yield"] = st.fields["active"]
    I.ghost["missing_at_yield"] = st.fields["missing_values"]
    I.ghost["incorrect_at_yield"] = st.fields["incorrect_values"]
    I.ghost["is_outer_at_yield"] = st is I.param_env.vars.get("__outer_state__", I.ghost.get("_outer"))
    m = fresh_value(I.ctx, INT, "missing_after_test")
    n = fresh_value(I.ctx, INT, "incorrect_after_test")
    I.ctx.assume(z3.And(m.t >= 0, n.t >= 0))
    st.fields["missing_values"] = m
    st.fields["incorrect_values"] = n
    I.V.may_raise(I, "<test body>")
    return None


def p_pytest_fail(I, args, kwargs, node):
    raise RaiseSig("Failed", info=["pytest.fail"])


from pyvc.interp import EXC_BASES

EXC_BASES["Failed"] = "Exception"

XF_EXIT = {"state-popped [C15,C04]": "n_enter == n_leave"}

contract(
    PP + ".snapshot_check",
    params={"request": "Opaque"},
    globals_={"state": "@PlainState", "xfail": "Bool"},
    callees={"inline_snapshot.pytest_plugin.is_xfail": "global:xfail", "inline_snapshot._global_state.snapshot_env": p_snapshot_env,
             "pytest.fail": p_pytest_fail},
    ghost={"vars": {"n_enter": "=0", "n_leave": "=0", "yielded": "=False", "active_at_yield": "=True", "missing_at_yield": "=-1", "incorrect_at_yield": "=-1"},
           "yield_hook": yield_hook, "with_hook": with_hook, "may_raise": True, "light_feasibility": True},
    ensures=dict(XF_EXIT, **{
        "test-ran-once [C07]": "yielded",
        # C07: counters are reset before the test
        "counters-reset-before-test [C07]": "missing_at_yield == 0 and incorrect_at_yield == 0",
        # C04/C06: tests marked xfail run with a fresh, inactive state
        "xfail-runs-inactive [C04,C06]": "implies(xfail, not active_at_yield)",
        # C07: a normal return (test not failed by inline-snapshot) means nothing was missing or incorrect
        "green-only-if-nothing-counted [C07]": "xfail or (state.missing_values == 0 and state.incorrect_values == 0)",
    }),
    raises={
        # C07 converse: inline-snapshot fails a test only because of counted values
        "Failed": dict(XF_EXIT, **{"only-for-counted-values [C07]": "not xfail and (state.missing_values != 0 or state.incorrect_values != 0)"}),
        "UnknownError": dict(XF_EXIT),
    },
    safety_props=["C18"],
    assumes=["X13"],
)

# ---------------------------------------------------------------------------------------------- snapshot(): the inactive path

contract(
    IS + ".snapshot",
    name=IS + ".snapshot#inactive",
    params={"obj": "Val"},
    globals_={"state": "@PlainState"},
    requires={"inactive": "not state.active"},
    returns="Val",
    result_name="ret",
    frame=[],
    ensures={
        # C06: "when disabled (flag, CI, xdist, xfail) snapshot(v) returns v itself"
        "returns-the-argument-itself [C06,C04]": "same(ret, obj)",
        "argument-present [C06]": "obj is not undefined",
    },
    raises={"AssertionError": {"only-for-an-empty-snapshot [C06]": "obj is undefined"}},
    safety_props=["C06"],
    ghost={"frame_props": ["C04", "C14"]},
)

# ---------------------------------------------------------------------------------------------- testing.Example.run_inline

from .plugin import D_POL, p_apply_all, p_fix_all, p_new_recorder, p_snap_changes, p_snap_values

EX = "inline_snapshot.testing._example"


def ri_with_hook(I, m, what, sig, env):
    if not (isinstance(m, Obj) and m.cls == "ctxmgr:snapshot_env"):
        return Opaque("with")
    if what == "enter":
        _inc(I, "n_enter")
        inner = I.V.make_shape(I, "DState", "inner_state")
        inner.fields["active"] = True
        for f in ("create", "fix", "trim", "update"):
            inner.fields["update_flags"].fields[f] = False
        m.fields["inner"] = inner
        I.ghost["_inner"] = inner
        return inner
    _inc(I, "n_leave")
    return None


def ri_approved(I, flag_t):
    """run_inline approves exactly the categories named in --inline-snapshot=...: state.update_flags."""
    uf = I.ghost["_inner"].fields["update_flags"].fields
    tt = lambda b: z3.BoolVal(b) if isinstance(b, bool) else b.t
    return z3.Or([z3.And(flag_t == z3.StringVal(c), tt(uf[c])) for c in CATS])


def pat_flag_words(I, n, env):
    return I.V.global_value(I, "cli_words")


def pat_filter_approved(I, n, env):
    """[change for change in changes if change.flag in state.update_flags.to_set()]  (list-comprehension semantics, PS2):
    the sub-list of `changes` whose flag is a member of Flags.to_set() -- to_set() itself is under contract (Flags.to_set)."""
    changes = I.eval(n.generators[0].iter, env)
    if not hasattr(changes, "arr"):
        from pyvc.core import slist_of

        changes = slist_of(I.ctx, [], parse_ty("Chg"))
    out = fresh_value(I.ctx, CHG_LIST, "approved_changes")
    flag = sort_of(parse_ty("Chg")).accessor(0, 1)
    i, j = z3.Int(I.ctx.fresh_name("fi")), z3.Int(I.ctx.fresh_name("fj"))
    I.ctx.assume(z3.ForAll([i], z3.Implies(z3.And(0 <= i, i < out.nz()), z3.And(ri_approved(I, flag(z3.Select(out.arr, i))),
                 z3.Exists([j], z3.And(0 <= j, j < changes.nz(), z3.Select(changes.arr, j) == z3.Select(out.arr, i)))))), tag="filter")
    k, l = z3.Int(I.ctx.fresh_name("fk")), z3.Int(I.ctx.fresh_name("fl"))
    I.ctx.assume(z3.ForAll([k], z3.Implies(z3.And(0 <= k, k < changes.nz(), ri_approved(I, flag(z3.Select(changes.arr, k)))),
                 z3.Exists([l], z3.And(0 <= l, l < out.nz(), z3.Select(out.arr, l) == z3.Select(changes.arr, k))))), tag="filter")
    I.ghost["all_changes"] = changes
    I.ghost["applied_changes"] = out
    return out


RI_EXIT = {"state-popped-on-every-path [C15,C19]": "n_enter == n_leave and n_enter <= 1"}

contract(
    EX + ".Example.run_inline",
    params={"self": "Opaque", "args": "Opaque", "reported_categories": "Opaque", "changed_files": "Opaque", "report": "Opaque", "raises": "Opaque"},
    globals_={"cli_words": "Set[Str]"},
    callees=dict(D_POL, **{
        "inline_snapshot._global_state.snapshot_env": p_snapshot_env,
        "Example": "havoc", "Example._write_files": "havoc", "Example._read_files": "havoc", "DiscStorage": "havoc",
        "inline_snapshot.testing._example.normalize": "havoc",
    }),
    attrs={"Snap._changes": p_snap_changes},
    extern_patterns={"{*flags}": pat_flag_words,
                     "[change for change in changes if change.flag in state.update_flags.to_set()]": pat_filter_approved},
    ensures=dict(RI_EXIT, **{
        # C19/C04: the helper writes exactly what the approved categories dictate, once
        "writes-once [C19,C04]": "n_fix_all == 1 and n_enter == 1",
    }),
    raises={"Exception": dict(RI_EXIT)},
    loops={
        2: Loop(index="s", ghost_modifies=[], inv={"trivial": "True"}),
    },
    ghost={
        "vars": {"n_enter": "=0", "n_leave": "=0", "n_fix_all": "=0", "n_persist": "=0", "n_remove": "=0", "n_suspend": "=0", "n_resume": "=0"},
        "locals": {"changes": "List[Chg]"},
        "untracked": ["snapshot_flags", "raised_exception", "tests_found", "report_output", "console", "current_files", "parser", "parsed_args"],
        "tracked_calls": ["apply_all", "fix_all", "persist", "remove"],
        "with_hook": ri_with_hook, "approved_term": ri_approved, "no_gate": True, "hook_props": ["C19"],
        "may_raise": True, "light_feasibility": True, "havoc_unknown_externals": True,
    },
    safety_props=["C18", "C19"],
    assumes=["A-frame", "PS2"],
    max_paths=3000,
)

# ---------------------------------------------------------------------------------------------- Flags

from pyvc.contract import static_check


@static_check("Flags-table", props=["C04", "C09", "C19"])
def _flags_table():
    """Flags.__init__/to_set/__iter__/all evaluated through the engine for all 2^4 subsets of the categories
    (plus foreign words): the class has no other input-dependent behaviour, so this is complete."""
    import itertools

    from pyvc.contract import Contract
    from pyvc.core import Ctx
    from pyvc.defaults import DEFAULT_POLICIES, SHAPES
    from pyvc.interp import Env, Interp, PyList
    from pyvc.specs import AXIOM_SETS, SPEC_NS
    from pyvc.verify import Verifier
    from pyvc.interp import Frame
    from pyvc import extract

    rows = []
    m = extract.load_module("inline_snapshot._flags")
    for r in range(5):
        for sub in itertools.combinations(CATS, r):
            for extra in ((), ("review",), ("", "report")):
                words = set(sub) | set(extra)
                V = Verifier(Contract(target="static.flags"), SPEC_NS, AXIOM_SETS, DEFAULT_POLICIES, SHAPES)
                I = Interp(Ctx([]), V)
                I.globals, I.ghost = {}, {}
                I.frames.append(Frame("inline_snapshot._flags.<static>", None, m))
                from pyvc.types import ClassRef

                o = V.construct(I, ClassRef("Flags", "inline_snapshot._flags.Flags"), [set(words)], {}, None)
                ts = I.call_method(o, "to_set", [], {})
                it = I.concrete_iter(I.call_method(o, "__iter__", [], {}))
                ok = ts == set(sub) and it == [c for c in CATS if c in sub] and all(o.fields[c] == (c in sub) for c in CATS)
                rows.append(dict(id=f"static/Flags:{sorted(words)}", ok=bool(ok), detail=f"to_set={sorted(ts)} iter={it}"))
    V = Verifier(Contract(target="static.flags"), SPEC_NS, AXIOM_SETS, DEFAULT_POLICIES, SHAPES)
    I = Interp(Ctx([]), V)
    I.globals, I.ghost = {}, {}
    I.frames.append(Frame("inline_snapshot._flags.<static>", None, m))
    from pyvc.types import FuncRef

    fa = I.call_function(FuncRef("inline_snapshot._flags.Flags.all", m.classes["Flags"].methods["all"], m, cls=m.classes["Flags"]), [], {})
    it = I.concrete_iter(I.call_method(fa, "__iter__", [], {}))
    rows.append(dict(id="static/Flags.all:iteration-order", ok=it == CATS, detail=f"Flags.all() iterates {it} (the order in which the session offers the categories)"))
    return rows

# ---------------------------------------------------------------------------------------------- snapshot(): the active path (C14 call sites)

from pyvc.specs import SPEC_NS  # noqa: E402

SNAPMAP, REF, CODEOBJ = Abs("SnapMap"), Abs("Ref"), Abs("CodeObj")
KEY = parse_ty("Tuple[Int,Int]")


def _sm_fns():
    has = z3.Function("SnapMap_has", sort_of(SNAPMAP), sort_of(KEY), z3.BoolSort())
    get = z3.Function("SnapMap_get", sort_of(SNAPMAP), sort_of(KEY), sort_of(REF))
    return has, get


def _snap_box(I, m_t):
    box = Obj("dict", {"m": SV(m_t, SNAPMAP)})
    has, get = _sm_fns()

    def key_t(I2, key):
        I2.ghost["used_key"] = key
        try:
            return pack(I2.ctx, key, KEY)
        except Exception:  # noqa: BLE001 - a key of another shape: some key the contract knows nothing about (the key clause decides)
            f = z3.Function("other_key", z3.StringSort(), sort_of(KEY))
            return f(z3.StringVal(repr(key)[:200]))

    def contains(I2, key):
        return SV(has(box.fields["m"].t, key_t(I2, key)), BOOL)

    def getitem(I2, key):
        I2.implicit("KeyError", has(box.fields["m"].t, key_t(I2, key)), "snapshot-registered", None)
        return SV(get(box.fields["m"].t, key_t(I2, key)), REF)

    def setitem(I2, key, v):
        old = box.fields["m"].t
        new = z3.Const(I2.ctx.fresh_name("snapmap"), sort_of(SNAPMAP))
        k = z3.Const(I2.ctx.fresh_name("k"), sort_of(KEY))
        kt = key_t(I2, key)
        I2.ctx.assume(z3.ForAll([k], z3.And(has(new, k) == z3.Or(k == kt, has(old, k)), get(new, k) == z3.If(k == kt, v.t, get(old, k))), patterns=[has(new, k), get(new, k)]), tag="store")
        box.fields["m"] = SV(new, SNAPMAP)
        I2.ghost["n_registered"] = I2.ghost["n_registered"] + 1
        return None

    box.fields.update({"__contains__": contains, "__getitem__": getitem, "__setitem__": setitem})
    return box


def _active_setup(I, env):
    st = I.V.global_value(I, "state")
    st.fields["snapshots"] = _snap_box(I, z3.Const(I.ctx.fresh_name("snapshots"), sort_of(SNAPMAP)))
    files = Obj("set", {})

    def add(I2, name):
        I2.ghost["registered_file"] = name
        return None

    files.fields["add"] = add
    st.fields["files_with_snapshots"] = files
    # the frames: snapshot() <- ReprWrapper.__call__ <- the test code
    code = fresh_value(I.ctx, CODEOBJ, "caller_code")
    caller = Obj("frame", {"f_code": code, "f_lasti": fresh_value(I.ctx, INT, "caller_lasti"), "f_lineno": fresh_value(I.ctx, INT, "caller_lineno"), "f_globals": Opaque("globals"), "f_locals": Opaque("locals"),
                           "f_back": None})
    wrapper = Obj("frame", {"f_code": fresh_value(I.ctx, CODEOBJ, "wrapper_code"), "f_lasti": fresh_value(I.ctx, INT, "wrapper_lasti"), "f_back": caller,
                            "f_globals": Opaque("g"), "f_locals": Opaque("l")})
    own = Obj("frame", {"f_code": fresh_value(I.ctx, CODEOBJ, "own_code"), "f_lasti": fresh_value(I.ctx, INT, "own_lasti"), "f_back": wrapper,
                        "f_globals": Opaque("g"), "f_locals": Opaque("l")})
    I.ghost["own_frame"], I.ghost["caller_frame"] = own, caller


def p_currentframe(I, args, kwargs, node):
    return I.ghost["own_frame"]


def p_executing(I, args, kwargs, node):
    """Source.executing(frame): the ast.Call that is running in that frame (X11) - or an object without a node"""
    I.ghost["executing_frame"] = args[-1]
    e = Obj("executing.Executing", {"source": Opaque("source")})
    e.fields["node"] = fresh_value(I.ctx, Abs("Node"), "call_node") if I.ctx.choose() else None
    I.ghost["expr"] = e
    return e


def p_getmodule(I, args, kwargs, node):
    if I.ctx.choose():
        return None
    m = Obj("module", {"__file__": fresh_value(I.ctx, STR, "module_file") if I.ctx.choose() else None})
    I.ghost["module"] = m
    return m


def p_snapshot_reference(I, args, kwargs, node):
    r = SV(z3.Const(I.ctx.fresh_name("ref"), sort_of(REF)), REF)
    I.ghost["n_created"] = I.ghost["n_created"] + 1
    I.ghost["created_obj"], I.ghost["created_expr"] = args[0], args[1]
    return r


def p_ref_re_eval(I, a, k, n):
    I.ghost["n_re_eval"] = I.ghost["n_re_eval"] + 1
    I.ghost["re_eval_on"], I.ghost["re_eval_obj"] = a[0], a[1]
    if not I.ctx.choose():
        raise RaiseSig("UsageError", info=["_re_eval"])
    return None


DEFAULT_POLICIES["attrs"].update({"Ref._re_eval": p_ref_re_eval, "Ref._value": "Val",
                                  # other observable attributes of a code object: none of them identifies it
                                  "CodeObj.co_filename": "Str", "CodeObj.co_firstlineno": "Int", "CodeObj.co_name": "Str", "CodeObj.co_qualname": "Str"})


def active_id_of(I, v):
    """id(code object): an injective function of the object (PS9: unique while the object is alive)"""
    f = z3.Function("id_of_code", sort_of(CODEOBJ), z3.IntSort())
    a, b = z3.Consts("idc!a idc!b", sort_of(CODEOBJ))
    I.ctx.define("id-injective", lambda: z3.ForAll([a, b], z3.Implies(f(a) == f(b), a == b), patterns=[z3.MultiPattern(f(a), f(b))]))
    I.ghost["id_taken_of"] = v
    return SV(f(v.t), INT)


def s_sm_has(I, box, key):
    has, _ = _sm_fns()
    return SV(has(box.fields["m"].t, pack(I.ctx, key, KEY)), BOOL)


def s_sm_get(I, box, key):
    _, get = _sm_fns()
    return SV(get(box.fields["m"].t, pack(I.ctx, key, KEY)), REF)


def s_site_key(I):
    """the identity of the call site: the code object of the calling frame and the offset of the running instruction"""
    c = I.ghost["caller_frame"]
    f = z3.Function("id_of_code", sort_of(CODEOBJ), z3.IntSort())
    return (SV(f(c.fields["f_code"].t), INT), c.fields["f_lasti"])


def s_ref_value(I, r):
    return SV(z3.Function("Ref__value", sort_of(REF), sort_of(Abs("Val")))(r.t), Abs("Val"))


SPEC_NS.update({"sm_has": s_sm_has, "sm_get": s_sm_get, "site_key": s_site_key, "ref_value": s_ref_value})

contract(
    IS + ".snapshot",
    name=IS + ".snapshot#active",
    params={"obj": "Val"},
    globals_={"state": "@PlainState"},
    requires={"active": "state.active"},
    callees={"inspect.currentframe": p_currentframe, "Source.executing": p_executing, "executing.Source.executing": p_executing, "inspect.getmodule": p_getmodule,
             "SnapshotReference": p_snapshot_reference, "AdapterContext": "havoc", "SourceFile": "havoc", "FrameContext": "havoc", "cast": lambda I, a, k, n: a[-1],
             "typing.cast": lambda I, a, k, n: a[-1]},
    returns=None,
    result_name="ret",
    ensures={
        # C14: "each call site has its own state": the key is the calling code object (by identity) and the instruction offset
        "call-site-key [C14]": "used_key == site_key() and executing_frame is caller_frame",
        "registered-once-per-call-site [C14]": "sm_has(state.snapshots, site_key()) and n_registered == (0 if sm_has(old(state.snapshots), site_key()) else 1) and n_created == n_registered",
        # C14: "repeated evaluation aggregates": a second evaluation re-uses the reference and re-evaluates the argument
        "second-evaluation-reuses-the-reference [C14]": "implies(sm_has(old(state.snapshots), site_key()), n_re_eval == 1 and same(re_eval_on, sm_get(old(state.snapshots), site_key()))"
                                                        " and same(re_eval_obj, obj) and same(sm_get(state.snapshots, site_key()), sm_get(old(state.snapshots), site_key())))",
        "first-evaluation-records-the-argument [C14,C01]": "implies(not sm_has(old(state.snapshots), site_key()), n_re_eval == 0 and same(created_obj, obj)"
                                                           " and ((created_expr is None) == (expr.node is None)) and implies(expr.node is not None, created_expr is expr))",
        "returns-the-value-object-of-the-call-site [C14,C06]": "same(ret, ref_value(sm_get(state.snapshots, site_key())))",
        # C13 "no test file that took part in the session": every file with an executed snapshot is registered
        "file-takes-part-in-the-session [C13,C03]": "ifdef(['module'], implies(module.__file__ is not None, registered_file == module.__file__))",
    },
    raises={"UsageError": {"only-from-re-evaluation [C14]": "n_re_eval == 1"}, "AssertionError": {"only-frame-and-node-sanity [C18]": "True"}},
    ghost={"vars": {"own_frame": "=None", "caller_frame": "=None", "executing_frame": "=None", "expr": "=None", "used_key": "=None", "n_registered": "=0", "n_created": "=0",
                    "created_obj": "=None", "created_expr": "=None", "n_re_eval": "=0", "re_eval_on": "=None", "re_eval_obj": "=None", "registered_file": "=None", "id_taken_of": "=None"},
           "setup": _active_setup, "id_of": active_id_of, "asserts_raise": True},
    safety_props=["C18"],
    assumes=["X11", "PS9"],
)
