"""Replay file written by /verif/check.py
{
 "property": "C01",
 "failed_obligation": "_snapshot.min_max_value.MinMaxValue._generic_cmp#MinValue/E2/post:Inv-member",
 "path": 3,
 "function": "inline_snapshot._snapshot.min_max_value.MinMaxValue._generic_cmp#MinValue/E2",
 "verdict": "refuted",
 "backend": "z3-5.1 finite-scope k=4",
 "solver_model": "FalseVal = Val!e1\nNoneVal = Val!e1\nTrueVal = Val!e0\ndeepcopy_Val = [else ->\n If(And(Var(0) == Val!e2, Not(Var(0) == Val!e3)),\n    Val!e2,\n    If(Var(0) == Val!e3, Val!e3, Val!e0))]\nge_Val = [else ->\n If(Or(And(Not(Var(0) == Val!e2),\n           Not(Var(0) == Val!e3),\n           Var(1) == Val!e3),\n       And(Not(Var(0) == Val!e2),\n           Not(Var(0) == Val!e3),\n           Var(1) == Val!e2,\n           Not(Var(1) == Val!e3))),\n    Val!e1,\n    Val!e0)]\nle_Val = [else ->\n If(Or(And(Var(0) == Val!e3,\n           Not(Var(1) == Val!e2),\n           Not(Var(1) == Val!e3)),\n       And(Var(0) == Val!e2,\n           Not(Var(0) == Val!e3),\n           Not(Var(1) == Val!e2),\n           Not(Var(1) == Val!e3))),\n    Val!e1,\n    Val!e0)]\nobs!5 = K(Val, False)\nother!4 = Val!e1\nself._new_value!2 = Val!e2\nself._old_value!1 = Val!e3\ntruthy_Val = [Val!e1 -> False, else -> True]\nundefined_Val = Val!e3",
 "where": ""
}
"""

print('no native failing input was found for this obligation; see the header for the solver output')
