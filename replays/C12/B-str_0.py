"""Replay file written by /verif/check.py
{
 "property": "C12",
 "standin": "B-str",
 "bound": "str/bytes over a 12-symbol adversarial alphabet: all strings of length <= 3 (quick) / <= 5 (thorough) unformatted; hand-picked + 400 (quick) / 20 000 (thorough) seeded random strings of length <= 12 top-level and inside list/dict/tuple through black and format_command=cat; thorough adds every non-surrogate code point as a 1-char string",
 "input": "a:top/none: '\\n\\xe9'",
 "detail": "176 failing cases without a known finding in this run, 50 distinct (value, symptom) groups, 20 listed. untokenize(value_to_token(v)) = '\"\"\"\\\\\\n\\n\\xc3\\xa9\\\\\\n\"\"\"' evaluates to '\\n\\xc3\\xa9'"
}
"""

# run with: /verif/.venv/bin/python <this file>      (inline_snapshot is the editable install of /repo)
import ast, os, tempfile, tokenize
from pathlib import Path
from executing import Source
from inline_snapshot import _config
from inline_snapshot._format import format_code
from inline_snapshot._source_file import SourceFile
from inline_snapshot._utils import value_to_token

value = '\n\xe9'
d = tempfile.mkdtemp()
p = os.path.join(d, "snap.py")
open(p, "w").write("from inline_snapshot import snapshot\n\nassert 1 == snapshot()\n")
sf = SourceFile(Source.for_filename(p))
code = tokenize.untokenize(value_to_token(value))
print("value:", ascii(value))
print("code :", ascii(code))
result = ast.literal_eval(code)
print("evals:", ascii(result))
assert type(result) is type(value) and result == value, "generated literal does not evaluate back to the value"

