"""Sidecar contracts for src/inline_snapshot/_change.py (Layer A): generic_sequence_update, Replace.apply."""
import z3

from pyvc.contract import Loop, Shape, contract
from pyvc.core import Unsupported, list_append, pack
from pyvc.types import Obj, Opaque, declare_record, parse_ty

declare_record("Token", {"start": parse_ty("Tuple[Int,Int]"), "end": parse_ty("Tuple[Int,Int]")})

RANGES = "List[Tuple[Tuple[Int,Int],Tuple[Int,Int]]]"


def new_change(I, args, kwargs, node):
    return Obj("inline_snapshot._rewrite_code.Change", {"change_id": Opaque("change_id")})


def rec_replace(I, args, kwargs, node):
    """`Change.replace(node, new_contend, filename=...)`: the *real* range_of / start_of / end_of / SourceRange
    are executed symbolically (so a start > end raises ValueError exactly like the code does), then the
    replacement range is appended to the ghost list `reps`; the text is opaque.
    (`_replace` -> `source._check()` is covered separately by the ranges-ordered / ranges-wellformed clauses.)"""
    self_, rng = args[0], args[1]
    range_of = I.resolve_dotted("inline_snapshot._rewrite_code.range_of")
    r = I.call_function(range_of, [rng], {}, node)
    st, en = r.fields["start"], r.fields["end"]
    tup = ((st.fields["lineno"], st.fields["col_offset"]), (en.fields["lineno"], en.fields["col_offset"]))
    list_append(I.ctx, I.ghost["reps"], tup)
    texts = I.ghost.get("texts")
    return None


GSU_POL = {
    "ChangeRecorder.new_change": new_change,
    "Change.replace": rec_replace,
    "inline_snapshot._rewrite_code.range_of": "inline",
    "inline_snapshot._rewrite_code.start_of": "inline",
    "inline_snapshot._rewrite_code.end_of": "inline",
}

PS = "parent_elements"
KEPT = "({ps}[{i}] is not None)"

contract(
    "inline_snapshot._change.generic_sequence_update",
    params={
        "source": "@Source",
        "parent": "Node",
        "brace_tokens": "Tuple[Token,Token]",
        "parent_elements": "List[Opt[Tuple[Token,Token]]]",
        "to_insert": "Dict[Int,List[Code]]",
        "recorder": "@Recorder",
    },
    shapes={
        "Source": Shape("inline_snapshot._source_file.SourceFile", {"filename": "Opaque"}),
        "Recorder": Shape("inline_snapshot._rewrite_code.ChangeRecorder", {}),
    },
    callees=GSU_POL,
    assumes=["X3", "PS3"],
    ghost={"vars": {"reps": "empty:" + RANGES}, "locals": {"new_code": "List[Code]"}},
    requires={
        # X3 (asttokens): sibling tokens are ordered and nested inside the parent's brace tokens; established by apply_all
        "braces": "brace_tokens[0].end <= brace_tokens[1].start",
        "elements-inside": "all(implies(parent_elements[i] is not None, parent_elements[i][0].start <= parent_elements[i][1].end"
                           " and brace_tokens[0].end <= parent_elements[i][0].start and parent_elements[i][1].end <= brace_tokens[1].start)"
                           " for i in range(0, len(parent_elements)))",
        "elements-ordered": "all(all(implies(parent_elements[i] is not None and parent_elements[j] is not None,"
                            " parent_elements[i][1].end <= parent_elements[j][0].start) for j in range(i + 1, len(parent_elements)))"
                            " for i in range(0, len(parent_elements)))",
    },
    ensures={
        "Q1-ranges-wellformed [C18,C03,C12,C02]": "all(reps[j][0] <= reps[j][1] for j in range(0, len(reps)))",
        "Q1-ranges-ordered [C18,C03,C09]": "all(reps[j][1] <= reps[j + 1][0] for j in range(0, len(reps) - 1))",
        "Q2-inside-braces [C03,C10]": "all(brace_tokens[0].end <= reps[j][0] and reps[j][1] <= brace_tokens[1].start for j in range(0, len(reps)))",
        "Q2-kept-elements-untouched [C03,C10,C11,C12,C02]": "all(all(implies(parent_elements[i] is not None,"
            " reps[j][1] <= parent_elements[i][0].start or parent_elements[i][1].end <= reps[j][0])"
            " for i in range(0, len(parent_elements))) for j in range(0, len(reps)))",
    },
    loops={
        0: Loop(
            index="k",
            inv={
                "last-after-brace": "brace_tokens[0].end <= last_token.end",
                "last-before-close": "last_token.end <= brace_tokens[1].start",
                "last-before-rest": "all(implies(parent_elements[i] is not None, last_token.end <= parent_elements[i][0].start) for i in range(k, len(parent_elements)))",
                "seen-before-last": "all(implies(parent_elements[i] is not None, parent_elements[i][1].end <= last_token.end) for i in range(0, k))",
                "reps-wellformed": "all(reps[j][0] <= reps[j][1] for j in range(0, len(reps)))",
                "reps-ordered": "all(reps[j][1] <= reps[j + 1][0] for j in range(0, len(reps) - 1))",
                "reps-before-last": "all(reps[j][1] <= last_token.end for j in range(0, len(reps)))",
                "reps-inside": "all(brace_tokens[0].end <= reps[j][0] and reps[j][1] <= brace_tokens[1].start for j in range(0, len(reps)))",
                "reps-gaps": "all(all(implies(parent_elements[i] is not None, reps[j][1] <= parent_elements[i][0].start or parent_elements[i][1].end <= reps[j][0])"
                             " for i in range(0, len(parent_elements))) for j in range(0, len(reps)))",
                "end-token": "end_token.start == brace_tokens[1].start and end_token.end == brace_tokens[1].end",
            },
        ),
    },
)
