"""Symbolic interpreter for the Python subset used by the verified functions.

Concrete operands are evaluated natively by CPython; as soon as one operand is symbolic the z3
encoding of pyvc/core.py is used.  Control flow uses Python exceptions (ReturnSig, BreakSig,
ContinueSig, RaiseSig); path splitting is done by re-execution under a decision prefix (core.Ctx).
"""
from __future__ import annotations

import ast

import z3

from . import extract
from .core import (BreakSig, ContinueSig, Ctx, Obligation, PathEnd, RaiseSig, ReturnSig, Unsupported,
                   as_slist, fresh_value, is_sym, list_append, list_concat, list_get, list_replicate,
                   list_reversed, list_slice, pack, slist_of, text_of, ty_of, unpack, zint)
from .types import (BOOL, CHAR, INT, STR, Abs, ClassRef, DictT, FuncRef, ListT, Obj, Opaque, OptT, RecT,
                    SDict, SetT, SList, SSet, SV, TupleT, Ty, parse_ty, sort_of)

USER_EQ_SORTS = {"Val"}  # sorts whose `==`, `<=`, `in` are user-defined (uninterpreted)

EXC_BASES = {
    "BaseException": None,
    "Exception": "BaseException",
    "AssertionError": "Exception",
    "TypeError": "Exception",
    "ValueError": "Exception",
    "KeyError": "LookupError",
    "IndexError": "LookupError",
    "LookupError": "Exception",
    "StopIteration": "Exception",
    "AttributeError": "Exception",
    "ImportError": "Exception",
    "ModuleNotFoundError": "ImportError",
    "NotImplementedError": "RuntimeError",
    "RuntimeError": "Exception",
    "SyntaxError": "Exception",
    "OSError": "Exception",
    "FileNotFoundError": "OSError",
    "UsageError": "Exception",
    "HashError": "Exception",
    "UnknownError": "Exception",  # what an uninterpreted call may raise
    "KeyboardInterrupt": "BaseException",
}


def exc_isa(cls, base):
    while cls is not None:
        if cls == base:
            return True
        cls = EXC_BASES.get(cls, "Exception" if cls not in ("BaseException",) else None)
        if cls == "BaseException" and base != "BaseException":
            return False
    return False


class Env:
    def __init__(self, parent=None):
        self.vars: dict = {}
        self.parent = parent
        self.nonlocals: set = set()

    def lookup(self, name):
        e = self
        while e is not None:
            if name in e.vars:
                return e.vars[name]
            e = e.parent
        raise KeyError(name)

    def has(self, name):
        e = self
        while e is not None:
            if name in e.vars:
                return True
            e = e.parent
        return False

    def set(self, name, v):
        if name in self.nonlocals:
            e = self.parent
            while e is not None:
                if name in e.vars:
                    e.vars[name] = v
                    return
                e = e.parent
        self.vars[name] = v


class Iter:
    """An iterator value: position into an indexable source."""

    def __init__(self, kind, srcs, start=0, n=None):
        self.kind = kind  # 'list' | 'zip' | 'enumerate'
        self.srcs = srcs
        self.pos = 0  # python int or z3 Int
        self.start = start
        self.n = n


class Frame:
    def __init__(self, fn_qual, fn_node, module, cls=None):
        self.qual = fn_qual
        self.node = fn_node
        self.module = module
        self.cls = cls
        self.handlers: list = []  # stack of sets of exception names caught by enclosing try blocks
        is_def = isinstance(fn_node, (ast.FunctionDef, ast.AsyncFunctionDef))
        self.loops = extract.loops_preorder(fn_node) if is_def else []
        self.is_generator = is_def and any(
            isinstance(n, (ast.Yield, ast.YieldFrom)) for n in _walk_own(fn_node)
        )
        self.trace: list = []


def _walk_own(fn):
    """ast.walk that does not enter nested function definitions."""
    stack = list(fn.body)
    while stack:
        n = stack.pop()
        yield n
        for c in ast.iter_child_nodes(n):
            if isinstance(c, (ast.FunctionDef, ast.AsyncFunctionDef, ast.Lambda, ast.ClassDef)):
                continue
            stack.append(c)


def assigned_names(stmts):
    """Names / attribute paths / mutated containers assigned in a statement list (for loop havoc)."""
    names, attrs, mutated = set(), set(), set()

    def target(t):
        if isinstance(t, ast.Name):
            names.add(t.id)
        elif isinstance(t, (ast.Tuple, ast.List)):
            for e in t.elts:
                target(e)
        elif isinstance(t, ast.Attribute):
            attrs.add(ast.unparse(t))
        elif isinstance(t, ast.Subscript):
            root = t.value
            while isinstance(root, ast.Subscript):
                root = root.value
            mutated.add(root.id if isinstance(root, ast.Name) else ast.unparse(t.value))
        elif isinstance(t, ast.Starred):
            target(t.value)

    class V(ast.NodeVisitor):
        def visit_Assign(self, n):
            for t in n.targets:
                target(t)
            self.generic_visit(n)

        def visit_AugAssign(self, n):
            target(n.target)
            self.generic_visit(n)

        def visit_AnnAssign(self, n):
            if n.value is not None:
                target(n.target)
            self.generic_visit(n)

        def visit_For(self, n):
            target(n.target)
            self.generic_visit(n)

        def visit_NamedExpr(self, n):
            target(n.target)
            self.generic_visit(n)

        def visit_With(self, n):
            for it in n.items:
                if it.optional_vars is not None:
                    target(it.optional_vars)
            self.generic_visit(n)

        def visit_Call(self, n):
            if isinstance(n.func, ast.Attribute) and n.func.attr in ("append", "extend", "add", "update", "pop", "sort", "remove", "clear", "insert"):
                root = n.func.value
                while isinstance(root, ast.Subscript):
                    root = root.value
                if isinstance(root, ast.Name):
                    mutated.add(root.id)
                elif isinstance(root, ast.Attribute) and not any(isinstance(x, ast.Call) for x in ast.walk(root)):
                    mutated.add(ast.unparse(n.func.value))
            if isinstance(n.func, ast.Name) and n.func.id == "next" and n.args:
                mutated.add(ast.unparse(n.args[0]))
            self.generic_visit(n)

        def visit_FunctionDef(self, n):
            names.add(n.name)

        def visit_ExceptHandler(self, n):
            if n.name:
                names.add(n.name)
            self.generic_visit(n)

    v = V()
    for s in stmts:
        v.visit(s)
    return names, attrs, mutated


class Interp:
    def __init__(self, ctx: Ctx, verifier):
        self.ctx = ctx
        self.V = verifier
        self.frames: list[Frame] = []
        self.depth = 0
        self.events: list = []  # session-level ghost event trace (Layer D)

    # ------------------------------------------------------------------ helpers
    @property
    def frame(self) -> Frame:
        return self.frames[-1]

    def oblige(self, kind, label, goal, props=None, where=""):
        self.V.add_obligation(self, kind, label, goal, props, where)

    def truth(self, v):
        """Python truthiness -> python bool or z3 Bool."""
        if isinstance(v, SV):
            if v.ty == BOOL:
                return v.t
            if v.ty in (INT, CHAR):
                return v.t != 0
            if v.ty == STR:
                return z3.Length(v.t) != 0
            if isinstance(v.ty, OptT):
                s = sort_of(v.ty)
                some = s.recognizer(1)(v.t)
                inner = s.accessor(1, 0)(v.t)
                if v.ty.elem == STR:
                    return z3.And(some, z3.Length(inner) > 0)
                if v.ty.elem == INT:
                    return z3.And(some, inner != 0)
                if v.ty.elem == BOOL:
                    return z3.And(some, inner)
                return some
            if isinstance(v.ty, Abs):
                f = z3.Function(f"truthy_{v.ty.key}", sort_of(v.ty), z3.BoolSort())
                return f(v.t)
            raise Unsupported(f"truth of {v!r}")
        if isinstance(v, SList):
            return v.n != 0 if not isinstance(v.n, int) else v.n != 0
        if isinstance(v, SSet):
            fin = getattr(v, "finite", None)
            if fin is None:
                x = z3.Const(self.ctx.fresh_name("sx"), sort_of(v.ety))
                return z3.Exists([x], z3.Select(v.pred, x))
            return z3.simplify(z3.Or([c for _, c in fin])) if fin else False
        if isinstance(v, SDict):
            raise Unsupported("truth of symbolic dict")
        if isinstance(v, (Obj, FuncRef, ClassRef)):
            if isinstance(v, Obj) and "__len__" in v.fields:
                return self.truth(v.fields["__len__"])
            return True
        if isinstance(v, Opaque):
            return z3.Bool(self.ctx.fresh_name(f"truth_opq{v.id}"))
        if z3.is_expr(v):
            return v
        return bool(v)

    def branch(self, v) -> bool:
        return self.ctx.branch(self.truth(v))

    def zbool(self, v):
        t = self.truth(v)
        return z3.BoolVal(t) if isinstance(t, bool) else t

    def implicit(self, exc, ok_cond, label, node=None):
        """An operation that raises `exc` unless ok_cond: forks if a handler in this function catches
        it, otherwise it is a safety obligation."""
        if isinstance(ok_cond, bool) and ok_cond:
            return
        if self.V.in_contract_expr or getattr(self, "pure_eval", 0):
            # spec expressions are total: out-of-range selects are unspecified values; the same holds for the element expressions of a
            # comprehension over a list of unknown length, which are evaluated once for a symbolic index (no path split on the bound
            # variable; exceptions raised inside such element expressions are not checked - stated in DESIGN 13.1)
            return
        if exc == "AssertionError" and self.is_env_bool(ok_cond):
            # an assertion about the uninterpreted environment: may fail like any havoc call may raise
            if self.ctx.branch(ok_cond):
                return
            raise RaiseSig(exc, implicit=True)
        if exc == "AssertionError" and self.V.c.ghost.get("asserts_raise") and len(self.frames) == 1:
            # the contract declares the function's own assertions as a specified exceptional exit (raises: AssertionError)
            if self.ctx.branch(ok_cond):
                return
            raise RaiseSig(exc, implicit=True)
        if any(any(exc_isa(exc, h) for h in hs) for hs in self.frame.handlers):
            if self.ctx.branch(ok_cond):
                return
            raise RaiseSig(exc, implicit=True)
        where = f"line {getattr(node, 'lineno', '?')}" if node is not None else ""
        self.oblige("safety", label, ok_cond, None, where)
        self.ctx.assume(ok_cond)

    # ------------------------------------------------------------------ names
    def lookup(self, name, env: Env, node=None):
        if env.has(name):
            v = env.lookup(name)
            if v is _UNBOUND:
                self.implicit("UnboundLocalError", False, f"bound({name})", node)
            return v
        if name in self.V.spec_ns and self.V.in_contract_expr:
            return self.V.spec_ns[name]
        if self.V.in_contract_expr and name in getattr(self, "ghost", {}):
            g = self.ghost[name]
            if type(g).__name__ == "DriftedGhost":
                raise Unsupported(g.msg)
            return g
        if self.V.in_contract_expr and name == "trace":
            for fr in reversed(self.frames):
                if fr.is_generator:
                    return self.V.frame_trace(self, fr)
        fr = self.frame
        if self.V.in_contract_expr and name in self.V.contract_globals(fr.qual):
            return self.V.global_value(self, name)
        ov = self.V.c.ghost.get("names")
        if ov and name in ov:
            return ov[name](self)  # an imported sentinel / constant the sidecar gives a value (e.g. dataclasses.MISSING)
        m = fr.module
        if m is not None:
            v = self.module_name(m, name)
            if v is not _MISSING:
                return v
        if name in BUILTINS:
            return BUILTINS[name]
        if name in self.V.contract_globals(fr.qual):
            return self.V.global_value(self, name)
        if name in self.V.spec_ns:
            return self.V.spec_ns[name]
        raise Unsupported(f"unknown name {name!r} in {fr.qual}")

    def module_name(self, m, name):
        if name in m.funcs:
            return FuncRef(f"{m.name}.{name}", m.funcs[name], m)
        if name in m.classes:
            return ClassRef(name, m.classes[name].qual)
        if name in m.imports:
            tgt = m.imports[name]
            return self.resolve_dotted(tgt)
        if name in m.consts:
            key = (m.name, name)
            if key in self.V.module_consts:
                return self.V.module_consts[key]
            try:
                return self.eval(m.consts[name], Env(), _frame_override=Frame(m.name + ".<module>", None, m))
            except Unsupported:
                return Opaque(f"{m.name}.{name}")
        return _MISSING

    def resolve_dotted(self, dotted):
        try:
            m, rest = extract.split_qual(dotted)
        except LookupError:
            parts = dotted.split(".")
            if parts[-1] in EXC_BASES or parts[-1][0:1].isupper():
                return ClassRef(parts[-1], dotted)
            return FuncRef(dotted)  # external callable / module
        if not rest:
            return ModuleRef(m)
        if len(rest) == 1:
            v = self.module_name(m, rest[0])
            if v is not _MISSING:
                return v
        return FuncRef(dotted)

    # ------------------------------------------------------------------ expressions
    def eval(self, node, env: Env, _frame_override=None):
        if _frame_override is not None:
            self.frames.append(_frame_override)
            try:
                return self.eval(node, env)
            finally:
                self.frames.pop()
        if self.V.c.extern_patterns and not self.V.in_contract_expr and not isinstance(node, (ast.ListComp, ast.SetComp, ast.DictComp, ast.GeneratorExp, ast.Constant, ast.Name)):
            pat = self.V.extern_pattern(self, node, env)
            if pat is not _MISSING:
                return pat
        meth = getattr(self, "e_" + type(node).__name__, None)
        if meth is None:
            raise Unsupported(f"expression {type(node).__name__} at line {getattr(node, 'lineno', '?')}")
        return meth(node, env)

    def e_Constant(self, n, env):
        return n.value

    def e_Name(self, n, env):
        return self.lookup(n.id, env, n)

    def e_Tuple(self, n, env):
        out = []
        for e in n.elts:
            if isinstance(e, ast.Starred):
                out.extend(self.concrete_iter(self.eval(e.value, env)))
            else:
                out.append(self.eval(e, env))
        return tuple(out)

    def e_List(self, n, env):
        items = []
        for e in n.elts:
            if isinstance(e, ast.Starred):
                items.extend(self.concrete_iter(self.eval(e.value, env)))
            else:
                items.append(self.eval(e, env))
        return PyList(items)

    def e_Set(self, n, env):
        vals = [self.eval(e, env) for e in n.elts]
        if not any(is_sym(v) for v in vals):
            return {self.hashable(v) for v in vals}
        ety = next(ty_of(v) for v in vals if is_sym(v))
        x = z3.Const(self.ctx.fresh_name("sx"), sort_of(ety))
        terms = [pack(self.ctx, v, ety) for v in vals]
        r = SSet(z3.Lambda([x], z3.Or([x == t for t in terms])), ety)
        r.finite = [(SV(t, ety), z3.BoolVal(True)) for t in terms]
        return r

    def e_Dict(self, n, env):
        d = {}
        for k, v in zip(n.keys, n.values):
            d[self.hashable(self.eval(k, env))] = self.eval(v, env)
        r = PyDict(d)
        aty = self.V.c.ghost.get("assoc_dict_ty") if self.frame.qual == self.V.c.target else None
        if not d and aty:
            from .core import slist_of
            from .types import parse_ty

            r.assoc = slist_of(self.ctx, [], parse_ty(aty))
        return r

    def hashable(self, v):
        if is_sym(v):
            raise Unsupported("symbolic value used as concrete set element / dict key")
        return v

    def e_JoinedStr(self, n, env):
        parts = []
        for v in n.values:
            if isinstance(v, ast.Constant):
                parts.append(v.value)
            else:
                x = self.eval(v.value, env)
                if isinstance(x, (str, int)) and not isinstance(x, bool) and v.conversion == -1 and v.format_spec is None:
                    parts.append(str(x))
                elif isinstance(x, SV) and x.ty == STR and v.conversion == -1 and v.format_spec is None:
                    parts.append(x)
                else:
                    return self.V.fstring(self, n, env)
        if any(isinstance(p_, SV) for p_ in parts):
            return SV(z3.simplify(z3.Concat(*[pack(self.ctx, p_, STR) for p_ in parts])) if len(parts) > 1 else parts[0].t, STR)
        return "".join(parts)

    def e_IfExp(self, n, env):
        if self.V.in_contract_expr:
            # clauses never fork paths: a conditional expression is an if-then-else term
            t = self.truth(self.eval(n.test, env))
            if isinstance(t, bool):
                return self.eval(n.body if t else n.orelse, env)
            from .calls import _ite

            return _ite(self, t, self.eval(n.body, env), self.eval(n.orelse, env))
        if self.branch(self.eval(n.test, env)):
            return self.eval(n.body, env)
        return self.eval(n.orelse, env)

    def e_NamedExpr(self, n, env):
        v = self.eval(n.value, env)
        env.set(n.target.id, v)
        return v

    def e_Lambda(self, n, env):
        return Closure(n, env, self.frame)

    def e_UnaryOp(self, n, env):
        v = self.eval(n.operand, env)
        if isinstance(n.op, ast.Not):
            t = self.truth(v)
            return (not t) if isinstance(t, bool) else SV(z3.simplify(z3.Not(t)), BOOL)
        if isinstance(n.op, ast.USub):
            if is_sym(v):
                return SV(-zint(v), INT)
            return -v
        raise Unsupported(f"unary {type(n.op).__name__}")

    def e_BoolOp(self, n, env):
        # value semantics (returns an operand), with short circuit by branching
        is_and = isinstance(n.op, ast.And)
        if self.V.in_contract_expr or getattr(self, "pure_eval", 0):
            if self.V.in_contract_expr:
                ts = [self.zbool(self.eval(v, env)) for v in n.values]
            else:  # program text: operands are arbitrary values, used for their truth value
                ts = []
                for v in n.values:
                    t = self.truth(self.eval(v, env))
                    ts.append(z3.BoolVal(t) if isinstance(t, bool) else t)
            return SV(z3.simplify(z3.And(ts) if is_and else z3.Or(ts)), BOOL)
        v = None
        for i, e in enumerate(n.values):
            v = self.eval(e, env)
            if i == len(n.values) - 1:
                return v
            t = self.branch(v)
            if is_and and not t:
                return v
            if not is_and and t:
                return v
        return v

    def e_BinOp(self, n, env):
        a = self.eval(n.left, env)
        b = self.eval(n.right, env)
        return self.binop(n.op, a, b, n)

    def unwrap_opt(self, v, node=None, what="operand-not-None"):
        if isinstance(v, SV) and isinstance(v.ty, OptT):
            self.implicit("TypeError", z3.simplify(sort_of(v.ty).recognizer(1)(v.t)), what, node)
            return unpack(self.ctx, sort_of(v.ty).accessor(1, 0)(v.t), v.ty.elem)
        return v

    def binop(self, op, a, b, node=None):
        if isinstance(a, Opaque) or isinstance(b, Opaque):
            return Opaque("binop")
        a, b = self.unwrap_opt(a, node), self.unwrap_opt(b, node)
        if isinstance(op, ast.Div) and isinstance(a, Obj) and callable(a.fields.get("__truediv__")):
            return a.fields["__truediv__"](self, b)
        if not is_sym(a) and not is_sym(b) and not isinstance(a, (Obj, Opaque, PyList, PyDict)) and not isinstance(b, (Obj, Opaque, PyList, PyDict)):
            return _PYOPS[type(op)](a, b)
        if isinstance(a, PyList) and isinstance(b, PyList) and isinstance(op, ast.Add):
            return PyList(a.items + b.items)
        if isinstance(a, PyList) and isinstance(b, int) and isinstance(op, ast.Mult):
            return PyList(a.items * b)
        if isinstance(a, (set, frozenset)) or isinstance(b, (set, frozenset)) or isinstance(a, SSet) or isinstance(b, SSet):
            return self.setop(op, a, b)
        if isinstance(op, ast.Mult):
            # sequence repetition
            seq, cnt = (a, b) if self.is_seq(a) else (b, a) if self.is_seq(b) else (None, None)
            if seq is not None:
                if isinstance(seq, SV) and seq.ty == CHAR or isinstance(seq, str) and len(seq) == 1:
                    return list_replicate(self.ctx, seq, cnt, CHAR, is_str=True)
                if isinstance(seq, PyList) and len(seq.items) == 1:
                    ety = ty_of(seq.items[0])
                    nty = self.V.c.ghost.get("none_list_ty")
                    if seq.items[0] is None and nty:
                        from .types import parse_ty as _pt

                        ety = _pt(nty)
                        return list_replicate(self.ctx, SV(self.V.none_const(ety), ety), cnt, ety)
                    if ety is None:
                        raise Unsupported("replicate of untyped element")
                    return list_replicate(self.ctx, seq.items[0], cnt, ety)
                if isinstance(seq, str) and isinstance(cnt, SV):
                    raise Unsupported("repeat of multi-char string by symbolic count")
                raise Unsupported(f"sequence repetition of {seq!r}")
            return SV(z3.simplify(zint(a) * zint(b)), INT)
        if isinstance(op, ast.Add) and (self.is_zstr(a) or self.is_zstr(b)) and (self.is_zstr(a) or isinstance(a, str)) and (self.is_zstr(b) or isinstance(b, str)):
            return SV(z3.simplify(z3.Concat(pack(self.ctx, a, STR), pack(self.ctx, b, STR))), STR)
        if isinstance(op, ast.Add):
            if self.is_seq(a) or self.is_seq(b):
                ety = self.seq_ety(a) or self.seq_ety(b)
                la = self.to_slist(a, ety)
                lb = self.to_slist(b, ety)
                return list_concat(self.ctx, la, lb)
            return SV(z3.simplify(zint(a) + zint(b)), INT)
        if isinstance(op, ast.Sub):
            return SV(z3.simplify(zint(a) - zint(b)), INT)
        if isinstance(op, ast.BitOr) or isinstance(op, ast.BitAnd):
            raise Unsupported("bit operation on symbolic values")
        raise Unsupported(f"binary {type(op).__name__} on {a!r}, {b!r}")

    def is_zstr(self, v):
        return isinstance(v, SV) and v.ty == STR

    def is_seq(self, v):
        return isinstance(v, (SList, str, PyList)) or (isinstance(v, SV) and v.ty == CHAR)

    def seq_ety(self, v):
        if isinstance(v, SList):
            return v.ety
        if isinstance(v, str) or (isinstance(v, SV) and v.ty == CHAR):
            return CHAR
        if isinstance(v, PyList) and v.items:
            return ty_of(v.items[0])
        return None

    def to_slist(self, v, ety=None) -> SList:
        if isinstance(v, SList):
            return v
        if isinstance(v, PyList):
            if not v.items and ety is None:
                raise Unsupported("empty list without element type")
            return slist_of(self.ctx, v.items, ety or ty_of(v.items[0]))
        if isinstance(v, tuple):
            return slist_of(self.ctx, list(v), ety or ty_of(v[0]))
        return as_slist(self.ctx, v)

    def setop(self, op, a, b):
        if isinstance(a, (set, frozenset)) and isinstance(b, (set, frozenset)):
            return _PYOPS[type(op)](a, b)
        ety = a.ety if isinstance(a, SSet) else b.ety
        x = z3.Const(self.ctx.fresh_name("sx"), sort_of(ety))

        def mem(s):
            if isinstance(s, SSet):
                return z3.Select(s.pred, x)
            return z3.Or([x == pack(self.ctx, e, ety) for e in s]) if s else z3.BoolVal(False)

        if isinstance(op, ast.BitAnd):
            body = z3.And(mem(a), mem(b))
        elif isinstance(op, ast.BitOr):
            body = z3.Or(mem(a), mem(b))
        elif isinstance(op, ast.Sub):
            body = z3.And(mem(a), z3.Not(mem(b)))
        else:
            raise Unsupported("set op")
        r = SSet(z3.Lambda([x], body), ety)
        # remember finite carriers for truthiness
        r.finite = None
        for s, other in ((a, b), (b, a)):
            if isinstance(s, (set, frozenset)) and isinstance(op, ast.BitAnd):
                r.finite = [(e, z3.substitute(body, (x, pack(self.ctx, e, ety)))) for e in s]
            elif isinstance(s, SSet) and getattr(s, "finite", None) is not None and isinstance(op, ast.BitAnd) and r.finite is None:
                r.finite = [(e, z3.And(c, z3.substitute(body, (x, pack(self.ctx, e, ety))))) for e, c in s.finite]
        if isinstance(op, ast.Sub) and isinstance(a, (set, frozenset)):
            r.finite = [(e, z3.substitute(body, (x, pack(self.ctx, e, ety)))) for e in a]
        return r

    # ---- comparisons
    def e_Compare(self, n, env):
        left = self.eval(n.left, env)
        result = None
        for i, (op, rn) in enumerate(zip(n.ops, n.comparators)):
            right = self.eval(rn, env)
            r = self.compare(op, left, right, n)
            if len(n.ops) == 1:
                return r
            t = self.truth(r)
            tz = z3.BoolVal(t) if isinstance(t, bool) else t
            result = tz if result is None else z3.And(result, tz)
            if not self.V.in_contract_expr and i < len(n.ops) - 1:
                if not self.ctx.branch(tz):
                    return False
            left = right
        result = z3.simplify(result)
        return SV(result, BOOL)

    def compare(self, op, a, b, node=None):
        if isinstance(op, ast.Is):
            return self.identical(a, b)
        if isinstance(op, ast.IsNot):
            return self.negate(self.identical(a, b))
        if isinstance(op, ast.Eq):
            return self.py_eq(a, b, node)
        if isinstance(op, ast.NotEq):
            if self.user_eq(a) or self.user_eq(b):
                r = self.V.user_cmp(self, "ne", a, b, node)
                return r
            return self.negate(self.py_eq(a, b, node))
        if isinstance(op, ast.In):
            return self.contains(b, a, node)
        if isinstance(op, ast.NotIn):
            return self.negate(self.contains(b, a, node))
        if isinstance(op, (ast.Lt, ast.LtE, ast.Gt, ast.GtE)):
            return self.order(op, a, b, node)
        raise Unsupported(f"compare {type(op).__name__}")

    def negate(self, v):
        t = self.truth(v)
        return (not t) if isinstance(t, bool) else SV(z3.simplify(z3.Not(t)), BOOL)

    def user_eq(self, v):
        return isinstance(v, SV) and isinstance(v.ty, Abs) and v.ty.key in USER_EQ_SORTS

    def identical(self, a, b):
        if (isinstance(a, SV) and a.ty == Abs("PyType")) != (isinstance(b, SV) and b.ty == Abs("PyType")):
            return self.py_eq(a, b)
        if a is None or b is None:
            o = b if a is None else a
            if o is None:
                return True
            if isinstance(o, SV) and isinstance(o.ty, OptT):
                return SV(sort_of(o.ty).recognizer(0)(o.t), BOOL)
            if isinstance(o, SV) and isinstance(o.ty, Abs):
                return self.V.abs_is_none(self, o)
            if isinstance(o, Opaque):
                return SV(z3.Bool(self.ctx.fresh_name(f"isnone_opq{o.id}")), BOOL)
            return False
        if isinstance(a, SV) and isinstance(b, SV):
            if a.ty == b.ty:
                return SV(z3.simplify(a.t == b.t), BOOL)
            return False
        if isinstance(a, (Obj, SList, PyList, PyDict, FuncRef, ClassRef)) or isinstance(b, (Obj, SList, PyList, PyDict, FuncRef, ClassRef)):
            if isinstance(a, ClassRef) and isinstance(b, ClassRef):
                return a.qual == b.qual or a.name == b.name
            return a is b
        if isinstance(a, SV) or isinstance(b, SV):
            s, c = (a, b) if isinstance(a, SV) else (b, a)
            if s.ty == BOOL and isinstance(c, bool):
                return SV(s.t == c, BOOL)
            if s.ty == INT and isinstance(c, int) and not isinstance(c, bool):
                return SV(s.t == c, BOOL)
            if isinstance(s.ty, Abs) and c is Ellipsis:
                return SV(s.t == self.V.undefined_const(s.ty), BOOL)
            return False
        return a is b

    def _pytype_is(self, t, c):
        cname = c.name if isinstance(c, ClassRef) else None
        if cname is None:
            for bn, bf in BUILTINS.items():
                if bf is c:
                    cname = bn
        if cname is None:
            raise Unsupported(f"type compared with {c!r}")
        return SV(z3.Function(f"pytype_is_{cname}", sort_of(t.ty), z3.BoolSort())(t.t), BOOL)

    def py_eq(self, a, b, node=None):
        if isinstance(a, SV) and a.ty == Abs("PyType") and not isinstance(b, SV):
            return self._pytype_is(a, b)
        if isinstance(b, SV) and b.ty == Abs("PyType") and not isinstance(a, SV):
            return self._pytype_is(b, a)
        if isinstance(a, Obj) and not a.rec and self.V.has_method(a.cls, "__eq__"):
            return self.call_method(a, "__eq__", [b], {}, node)
        if isinstance(b, Obj) and not b.rec and self.V.has_method(b.cls, "__eq__") and not isinstance(a, Obj):
            return self.call_method(b, "__eq__", [a], {}, node)
        if self.user_eq(a) or self.user_eq(b):
            return self.V.user_cmp(self, "eq", a, b, node)
        if not is_sym(a) and not is_sym(b) and not isinstance(a, (Obj, Opaque, tuple, PyList)) and not isinstance(b, (Obj, Opaque, tuple, PyList)):
            return a == b
        if isinstance(a, tuple) and isinstance(b, tuple):
            if len(a) != len(b):
                return False
            cs = [self.zbool(self.py_eq(x, y)) for x, y in zip(a, b)]
            return SV(z3.simplify(z3.And(cs)), BOOL) if cs else True
        if isinstance(a, Opaque) or isinstance(b, Opaque):
            return SV(z3.Bool(self.ctx.fresh_name("eq_opq")), BOOL)
        if a is None or b is None:
            return self.identical(a, b)
        if isinstance(a, SSet) or isinstance(b, SSet):
            return self.set_eq(a, b)
        if self.is_seq(a) and self.is_seq(b) and not (self.is_char(a) and self.is_char(b)):
            la, lb = self.to_slist(a, self.seq_ety(b)), self.to_slist(b, self.seq_ety(a))
            if isinstance(la.n, int) and isinstance(lb.n, int):
                if la.n != lb.n:
                    return False
                cs = [self.zbool(self.py_eq(list_get(self.ctx, la, i), list_get(self.ctx, lb, i))) for i in range(la.n)]
                return SV(z3.simplify(z3.And(cs)), BOOL) if cs else True
            i = z3.Int(self.ctx.fresh_name("i"))
            return SV(z3.And(la.nz() == lb.nz(), z3.ForAll([i], z3.Implies(z3.And(0 <= i, i < la.nz()), z3.Select(la.arr, i) == z3.Select(lb.arr, i)))), BOOL)
        ta, tb = ty_of(a), ty_of(b)
        if ta is not None and tb is not None:
            if ta == tb or {ta, tb} <= {INT, BOOL} or {ta, tb} <= {INT, CHAR}:
                if ta == BOOL and tb == BOOL:
                    return SV(z3.simplify(pack(self.ctx, a, BOOL) == pack(self.ctx, b, BOOL)), BOOL)
                if ta in (INT, BOOL, CHAR):
                    ca = pack(self.ctx, a, CHAR) if ta == CHAR else zint(a)
                    cb = pack(self.ctx, b, CHAR) if tb == CHAR else zint(b)
                    return SV(z3.simplify(ca == cb), BOOL)
                return SV(z3.simplify(pack(self.ctx, a, ta) == pack(self.ctx, b, tb)), BOOL)
            if isinstance(ta, OptT) and ta.elem == tb:
                return SV(z3.simplify(a.t == pack(self.ctx, b, ta)), BOOL)
            if isinstance(tb, OptT) and tb.elem == ta:
                return SV(z3.simplify(b.t == pack(self.ctx, a, tb)), BOOL)
            if (ta == STR and isinstance(b, str)) or (tb == STR and isinstance(a, str)):
                return SV(z3.simplify(pack(self.ctx, a, STR) == pack(self.ctx, b, STR)), BOOL)
            return False
        if isinstance(a, Obj) and isinstance(b, Obj):
            if a.rec is not None and a.rec == b.rec:
                return SV(z3.simplify(pack(self.ctx, a, a.rec) == pack(self.ctx, b, b.rec)), BOOL)
            ci = self.V.class_info(a.cls)
            if a.cls == b.cls and ci is not None and ci.is_dataclass():
                cs = [self.zbool(self.py_eq(a.fields[f], b.fields[f])) for f in ci.ann_fields if f in a.fields]
                return SV(z3.simplify(z3.And(cs)), BOOL)
            return a is b
        raise Unsupported(f"== between {a!r} and {b!r}")

    def is_char(self, v):
        return (isinstance(v, str) and len(v) == 1) or (isinstance(v, SV) and v.ty == CHAR)

    def set_eq(self, a, b):
        ety = a.ety if isinstance(a, SSet) else b.ety
        x = z3.Const(self.ctx.fresh_name("sx"), sort_of(ety))

        def mem(s):
            if isinstance(s, SSet):
                return z3.Select(s.pred, x)
            return z3.Or([x == pack(self.ctx, e, ety) for e in s]) if s else z3.BoolVal(False)

        return SV(z3.ForAll([x], mem(a) == mem(b)), BOOL)

    def order(self, op, a, b, node=None):
        if (self.user_eq(a) or self.user_eq(b)) and not isinstance(a, Obj) and not isinstance(b, Obj):
            name = {ast.Lt: "lt", ast.LtE: "le", ast.Gt: "gt", ast.GtE: "ge"}[type(op)]
            return self.V.user_cmp(self, name, a, b, node)
        if isinstance(a, Obj) and isinstance(b, Obj) and not a.rec:
            mname = {ast.Lt: "__lt__", ast.LtE: "__le__", ast.Gt: "__gt__", ast.GtE: "__ge__"}[type(op)]
            if self.V.has_method(a.cls, mname):
                return self.call_method(a, mname, [b], {}, node)
            ci = self.V.class_info(a.cls)
            if a.cls == b.cls and ci is not None and ci.dataclass_order():
                a = tuple(a.fields[f] for f in ci.ann_fields)
                b = tuple(b.fields[f] for f in ci.ann_fields)
            else:
                raise Unsupported(f"ordering of {a.cls}")
        if isinstance(a, Obj) and not a.rec:
            mname = {ast.Lt: "__lt__", ast.LtE: "__le__", ast.Gt: "__gt__", ast.GtE: "__ge__"}[type(op)]
            if self.V.has_method(a.cls, mname):
                return self.call_method(a, mname, [b], {}, node)
        if isinstance(b, Obj) and not b.rec and not isinstance(a, Obj):
            mname = {ast.Lt: "__gt__", ast.LtE: "__ge__", ast.Gt: "__lt__", ast.GtE: "__le__"}[type(op)]
            if self.V.has_method(b.cls, mname):
                return self.call_method(b, mname, [a], {}, node)
        if isinstance(a, tuple) and isinstance(b, tuple):
            return SV(z3.simplify(self.lex(op, list(a), list(b))), BOOL)
        if not is_sym(a) and not is_sym(b):
            return _PYCMP[type(op)](a, b)
        za = pack(self.ctx, a, CHAR) if self.is_char(a) else zint(a)
        zb = pack(self.ctx, b, CHAR) if self.is_char(b) else zint(b)
        f = {ast.Lt: lambda x, y: x < y, ast.LtE: lambda x, y: x <= y, ast.Gt: lambda x, y: x > y, ast.GtE: lambda x, y: x >= y}[type(op)]
        return SV(z3.simplify(f(za, zb)), BOOL)

    def lex(self, op, a, b):
        """lexicographic comparison of equal-length tuples of ints/chars"""
        if len(a) != len(b):
            raise Unsupported("lexicographic compare of different lengths")
        strict = isinstance(op, (ast.Lt, ast.Gt))
        less = isinstance(op, (ast.Lt, ast.LtE))
        if not a:
            return z3.BoolVal(not strict)

        def z(v):
            return pack(self.ctx, v, CHAR) if self.is_char(v) else zint(v)

        x, y = z(a[0]), z(b[0])
        rest = self.lex(op, a[1:], b[1:])
        first = (x < y) if less else (x > y)
        return z3.Or(first, z3.And(x == y, rest))

    def contains(self, container, item, node=None):
        c = container
        if isinstance(c, PyDict):
            if not is_sym(item):
                return item in c.d
            return SV(z3.Or([self.zbool(self.py_eq(item, k)) for k in c.d]) if c.d else z3.BoolVal(False), BOOL)
        if isinstance(c, (str, tuple, list, set, frozenset, dict, PyList)) :
            items = c.items if isinstance(c, PyList) else c
            if not is_sym(item) and not any(is_sym(x) for x in items) and not isinstance(item, (Obj, Opaque)):
                return item in items
            if isinstance(c, str):
                if self.is_char(item):
                    return SV(z3.simplify(z3.Or([pack(self.ctx, item, CHAR) == ord(ch) for ch in c]) if c else z3.BoolVal(False)), BOOL)
                raise Unsupported("substring test with symbolic needle")
            cs = [self.zbool(self.py_eq(item, x)) for x in items]
            return SV(z3.simplify(z3.Or(cs)) if cs else z3.BoolVal(False), BOOL)
        if isinstance(c, SDict):
            return SV(z3.simplify(z3.Select(c.dom, pack(self.ctx, item, c.kty))), BOOL)
        if isinstance(c, SSet):
            return SV(z3.simplify(z3.Select(c.pred, pack(self.ctx, item, c.ety))), BOOL)
        if isinstance(c, SList):
            if self.user_eq(item) or (isinstance(c.ety, Abs) and c.ety.key in USER_EQ_SORTS):
                return self.V.user_contains(self, c, item, node)
            i = z3.Int(self.ctx.fresh_name("i"))
            return SV(z3.Exists([i], z3.And(0 <= i, i < c.nz(), z3.Select(c.arr, i) == pack(self.ctx, item, c.ety))), BOOL)
        if isinstance(c, SV) and isinstance(c.ty, Abs) and c.ty.key in self.V.abs_ops() and "contains" in self.V.abs_ops()[c.ty.key]:
            return self.V.abs_ops()[c.ty.key]["contains"](self, c, item)
        if self.is_zstr(c) and (self.is_zstr(item) or isinstance(item, str)):
            return SV(z3.simplify(z3.Contains(c.t, pack(self.ctx, item, STR))), BOOL)
        if isinstance(c, Obj) and callable(c.fields.get("__contains__")):
            return c.fields["__contains__"](self, item)
        if isinstance(c, Opaque) or (isinstance(c, FuncRef) and c.node is None):
            return SV(z3.Bool(self.ctx.fresh_name("truth_opq_in")), BOOL)
        if self.user_eq(c):
            return self.V.user_cmp(self, "contains", c, item, node)
        if isinstance(c, Obj) and self.V.has_method(c.cls, "__contains__"):
            return self.call_method(c, "__contains__", [item], {}, node)
        if c is Ellipsis or c is None or isinstance(c, (bool, int, float)):
            # CPython: TypeError: argument of type '...' is not iterable
            self.implicit("TypeError", False, f"container-supports-in({type(c).__name__})", None)
            raise PathEnd()
        raise Unsupported(f"`in` on {c!r}")

    # ---- subscripts / attributes
    def e_Subscript(self, n, env):
        base = self.eval(n.value, env)
        if isinstance(n.slice, ast.Slice):
            lo = self.eval(n.slice.lower, env) if n.slice.lower is not None else None
            hi = self.eval(n.slice.upper, env) if n.slice.upper is not None else None
            st = self.eval(n.slice.step, env) if n.slice.step is not None else None
            return self.slice(base, lo, hi, st, n)
        idx = self.eval(n.slice, env)
        return self.index(base, idx, n)

    def slice(self, base, lo, hi, st, node):
        if self.is_zstr(base) or (isinstance(base, str) and any(is_sym(x) for x in (lo, hi))):
            if st is not None:
                raise Unsupported("string slice step")
            t = pack(self.ctx, base, STR)
            n = z3.Length(t)

            def norm(x, default):
                if x is None:
                    return default
                x = zint(x)
                return z3.If(x < 0, z3.If(x + n < 0, 0, x + n), z3.If(x > n, n, x))

            lo_z, hi_z = norm(lo, z3.IntVal(0)), norm(hi, n)
            return SV(z3.simplify(z3.SubString(t, lo_z, z3.If(hi_z > lo_z, hi_z - lo_z, 0))), STR)
        if not is_sym(base) and not any(is_sym(x) for x in (lo, hi, st)):
            if isinstance(base, PyList):
                return PyList(base.items[lo:hi:st])
            if isinstance(base, Opaque):
                return Opaque(f"{base.what}[slice]")  # a slice of an unknown value is an unknown value
            return base[lo:hi:st]
        l = self.to_slist(base)
        if st is not None:
            if st == -1 and lo is None and hi is None:
                return list_reversed(self.ctx, l)
            raise Unsupported("slice step")
        return list_slice(self.ctx, l, lo, hi)

    def index(self, base, idx, node=None):
        if isinstance(base, SV) and isinstance(base.ty, OptT):
            self.implicit("TypeError", z3.simplify(sort_of(base.ty).recognizer(1)(base.t)), "subscript-not-None", node)
            base = unpack(self.ctx, sort_of(base.ty).accessor(1, 0)(base.t), base.ty.elem)
        if isinstance(base, PyDict):
            if not is_sym(idx):
                self.implicit("KeyError", idx in base.d, "key-present", node)
                if self.V.in_contract_expr and idx not in base.d:
                    return Opaque(f"<no entry {idx!r}>")  # spec expressions are total: a clause about a missing entry is false, not a crash
                return base.d[idx]
            for k, val in base.d.items():
                if self.branch(self.py_eq(idx, k)):
                    return val
            self.implicit("KeyError", False, "key-present", node)
            raise PathEnd()
        if isinstance(base, SDict):
            k = pack(self.ctx, idx, base.kty)
            self.implicit("KeyError", z3.simplify(z3.Select(base.dom, k)), "key-present", node)
            return unpack(self.ctx, z3.Select(base.map, k), base.vty)
        if isinstance(base, (tuple, str, PyList)) and not is_sym(idx):
            seq = base.items if isinstance(base, PyList) else base
            self.implicit("IndexError", -len(seq) <= idx < len(seq), "index-in-range", node)
            return seq[idx]
        if isinstance(base, (tuple, PyList)) and is_sym(idx):
            seq = base.items if isinstance(base, PyList) else base
            base = self.to_slist(PyList(list(seq)))
        if isinstance(base, str):
            base = text_of(self.ctx, base)
        if isinstance(base, SList):
            n = base.nz()
            i = zint(idx)
            if not self.V.in_contract_expr and not self.ctx.feasible(i < 0):
                ok = z3.simplify(i < n)
                i2 = i
            elif self.V.in_contract_expr:
                ok, i2 = True, i
            else:
                ok = z3.simplify(z3.And(-n <= i, i < n))
                i2 = z3.simplify(z3.If(i < 0, i + n, i))
            self.implicit("IndexError", ok, "index-in-range", node)
            return list_get(self.ctx, base, i2)
        if isinstance(base, Obj) and callable(base.fields.get("__getitem__")):
            return base.fields["__getitem__"](self, idx)
        if isinstance(base, Obj) and self.V.has_method(base.cls, "__getitem__"):
            return self.call_method(base, "__getitem__", [idx], {}, node)
        if self.is_zstr(base):
            n = z3.Length(base.t)
            i = zint(idx)
            self.implicit("IndexError", z3.simplify(z3.And(-n <= i, i < n)), "index-in-range", node)
            return SV(z3.simplify(z3.SubString(base.t, z3.If(i < 0, i + n, i), 1)), STR)
        if isinstance(base, Opaque):
            return Opaque(f"{base.what}[...]")
        if isinstance(base, FuncRef) and base.node is None:
            return Opaque(f"{base.qual}[...]")
        if isinstance(base, SV) and isinstance(base.ty, Abs):
            ops = self.V.abs_ops().get(base.ty.key, {})
            if "index" in ops:
                return ops["index"](self, base, idx, node)
            return self.V.abs_index(self, base, idx, node)
        raise Unsupported(f"subscript of {base!r}")

    def e_Attribute(self, n, env):
        base = self.eval(n.value, env)
        return self.getattr(base, n.attr, n)

    def getattr(self, base, attr, node=None):
        if isinstance(base, Obj) and base.cls == "super-proxy":
            slf = base.fields["self"]
            mro = self.V.mro(slf.cls)
            quals = [c.qual for c in mro]
            start = quals.index(base.fields["after"]) + 1 if base.fields["after"] in quals else 0
            for ci in mro[start:]:
                if attr in ci.methods:
                    fn = ci.methods[attr]
                    return FuncRef(f"{ci.qual}.{fn.name}", fn, ci.module, bound_self=slf, cls=ci)
            raise Unsupported(f"super().{attr} not found")
        if isinstance(base, Obj):
            if attr in base.fields:
                v = base.fields[attr]
                if v is _UNBOUND:
                    self.implicit("AttributeError", False, f"attr-defined({attr})", node)
                return v
            if attr == "__class__":
                return ClassRef(base.cls.rsplit(".", 1)[-1], base.cls)
            if attr == "__dict__":
                return PyDict({k: v for k, v in base.fields.items() if v is not _UNBOUND})
            m = self.V.find_method(base.cls, attr)
            if m is not None:
                kind, payload = m
                if kind == "method":
                    fn, ci = payload
                    if _is_property(fn):
                        return self.call_function(FuncRef(f"{ci.qual}.{fn.name}", fn, ci.module, cls=ci), [base], {}, node)
                    if _is_static(fn):
                        return FuncRef(f"{ci.qual}.{fn.name}", fn, ci.module, cls=ci)
                    return FuncRef(f"{ci.qual}.{fn.name}", fn, ci.module, bound_self=base, cls=ci)
                if kind == "attr":
                    expr, ci = payload
                    return self.eval(expr, Env(), _frame_override=Frame(ci.qual, None, ci.module, ci))
            v = self.V.obj_attr_hook(self, base, attr, node)
            if v is not _MISSING:
                return v
            self.implicit("AttributeError", False, f"attr-defined({attr})", node)
            raise PathEnd()
        if isinstance(base, ModuleRef):
            v = self.module_name(base.m, attr)
            if v is _MISSING:
                key = f"{base.m.name}.{attr}"
                if key in self.V.contract_globals(self.frame.qual):
                    return self.V.global_value(self, key)
                raise Unsupported(f"{base.m.name}.{attr}")
            key = f"{base.m.name}.{attr}"
            if key in self.V.contract_globals(self.frame.qual):
                return self.V.global_value(self, key)
            return v
        if isinstance(base, ClassRef):
            m = self.V.find_method(base.qual, attr)
            if m is not None and m[0] == "method":
                fn, ci = m[1]
                if _is_classmethod(fn):
                    return FuncRef(f"{ci.qual}.{fn.name}", fn, ci.module, bound_self=base, cls=ci)
                return FuncRef(f"{ci.qual}.{fn.name}", fn, ci.module, cls=ci)
            if m is not None and m[0] == "attr":
                expr, ci = m[1]
                return self.eval(expr, Env(), _frame_override=Frame(ci.qual, None, ci.module, ci))
            if attr == "__name__" or attr == "__qualname__":
                return base.name
            return FuncRef(f"{base.qual}.{attr}")
        if isinstance(base, FuncRef):
            if base.node is None:
                return FuncRef(f"{base.qual}.{attr}")
            if attr == "__name__":
                return base.node.name
        if isinstance(base, SV) and isinstance(base.ty, Abs):
            return self.V.abs_attr(self, base, attr, node)
        if isinstance(base, SV) and isinstance(base.ty, OptT):
            inner = unpack(self.ctx, sort_of(base.ty).accessor(1, 0)(base.t), base.ty.elem)
            self.implicit("AttributeError", z3.simplify(sort_of(base.ty).recognizer(1)(base.t)), f"not-None.{attr}", node)
            return self.getattr(inner, attr, node)
        if isinstance(base, Opaque):
            return Opaque(f"{base.what}.{attr}")
        if isinstance(base, (SList, PyList, PyDict, SDict, str, set, dict, Iter, SSet)) or (isinstance(base, SV) and base.ty == STR):
            return BoundBuiltin(base, attr)
        if base is None:
            self.implicit("AttributeError", False, f"not-None.{attr}", node)
            raise PathEnd()
        if isinstance(base, tuple) and hasattr(base, "_fields"):
            return getattr(base, attr)
        raise Unsupported(f"attribute {attr} of {base!r}")

    # comprehension / generators over concretely known iterables
    def concrete_iter(self, v):
        if isinstance(v, PyList):
            return list(v.items)
        if isinstance(v, PyDict):
            return list(v.d.keys())
        if isinstance(v, (tuple, list, str, set, frozenset, dict, range)):
            return list(v)
        if isinstance(v, SList) and isinstance(v.n, int):
            return [list_get(self.ctx, v, i) for i in range(v.n)]
        if isinstance(v, Iter):
            return self.iter_concrete(v)
        if isinstance(v, Obj) and not v.rec and self.V.has_method(v.cls, "__iter__"):
            return self.concrete_iter(self.call_method(v, "__iter__", [], {}))
        raise Unsupported(f"iteration over {v!r} needs a loop contract")

    def iter_concrete(self, it: "Iter"):
        if it.kind == "list":
            return self.concrete_iter(it.srcs[0])[it.pos:]
        if it.kind == "zip":
            cols = [self.concrete_iter(s) for s in it.srcs]
            return [tuple(c[i] for c in cols) for i in range(min(len(c) for c in cols))][it.pos:]
        if it.kind == "enumerate":
            return [(i + it.start, x) for i, x in enumerate(self.concrete_iter(it.srcs[0]))][it.pos:]
        raise Unsupported(it.kind)

    def comp_values(self, n, env, make):
        pat = self.V.extern_pattern(self, n, env)
        if pat is not _MISSING:
            return pat
        out = []
        first = self.eval(n.generators[0].iter, env)
        if isinstance(first, Opaque) or (isinstance(first, FuncRef) and first.node is None):
            return Opaque("comprehension over an unknown iterable")
        def _symbolic_len(x):
            if isinstance(x, SList):
                return not isinstance(x.n, int)
            if isinstance(x, Iter):
                return any(_symbolic_len(y) or isinstance(y, Opaque) for y in x.srcs)
            return False

        if _symbolic_len(first):
            # no contract for this comprehension: its value is unconstrained (sound over-approximation)
            return Opaque("comprehension over a list of unknown length")

        def rec(gens, env):
            if not gens:
                out.append(make(env))
                return
            g = gens[0]
            for x in self.concrete_iter(self.eval(g.iter, env)):
                e2 = Env(env)
                self.assign(g.target, x, e2)
                if all(self.branch(self.eval(c, e2)) for c in g.ifs):
                    rec(gens[1:], e2)

        rec(n.generators, env)
        return out

    def e_ListComp(self, n, env):
        r = self.comp_values(n, env, lambda e: self.eval(n.elt, e))
        return PyList(r) if isinstance(r, list) else r

    def is_env_bool(self, t):
        """A condition that depends only on the uninterpreted environment (values of havoc calls)."""
        if isinstance(t, bool):
            return False
        names = set()
        stack, seen = [t], set()
        while stack:
            x = stack.pop()
            if x.get_id() in seen:
                continue
            seen.add(x.get_id())
            if z3.is_const(x) and x.decl().kind() == z3.Z3_OP_UNINTERPRETED:
                names.add(x.decl().name())
            stack.extend(x.children())
        return bool(names) and all(nm.startswith(("truth_opq", "eq_opq", "isnone_opq", "isinst_", "hasattr_", "len_opq")) for nm in names)

    def e_GeneratorExp(self, n, env):
        r = self.comp_values(n, env, lambda e: self.eval(n.elt, e))
        return PyList(r) if isinstance(r, list) else r

    def e_SetComp(self, n, env):
        r = self.symbolic_set_comp(n, env)
        if r is not _MISSING:
            return r
        r = self.comp_values(n, env, lambda e: self.eval(n.elt, e))
        return {self.hashable(x) for x in r} if isinstance(r, list) else r

    def symbolic_set_comp(self, n, env):
        """{elt for x in xs [if c]} over a list of unknown length: the set {v | exists j. 0 <= j < len(xs) and c(xs[j]) and v == elt(xs[j])}
        (exact: set membership is the only observation a set offers)."""
        if len(n.generators) != 1 or self.V.extern_pattern(self, n, env) is not _MISSING:
            return _MISSING
        g = n.generators[0]
        if not isinstance(g.target, ast.Name):
            return _MISSING
        try:
            lst = self.eval(g.iter, env)
        except Unsupported:
            return _MISSING
        if not (isinstance(lst, SList) and not isinstance(lst.n, int)):
            return _MISSING
        j = z3.Int(self.ctx.fresh_name("sc"))
        e2 = Env(env)
        e2.set(g.target.id, list_get(self.ctx, lst, j))
        self.pure_eval = getattr(self, "pure_eval", 0) + 1
        try:
            conds = [self.zbool(self.truth(self.eval(c, e2))) for c in g.ifs]
            v = self.eval(n.elt, e2)
        finally:
            self.pure_eval -= 1
        if isinstance(v, SV):
            ety = v.ty
        elif isinstance(v, str):
            ety = STR
        elif isinstance(v, int) and not isinstance(v, bool):
            ety = INT
        else:
            return _MISSING
        x = z3.Const(self.ctx.fresh_name("sx"), sort_of(ety))
        body = z3.Exists([j], z3.And(0 <= j, j < lst.nz(), *conds, pack(self.ctx, v, ety) == x))
        return SSet(z3.Lambda([x], body), ety)

    def symbolic_dict_comp(self, n, env):
        """{k(x): v(x) for x in xs if c(x)} over a list of unknown length: a dictionary d with
             forall j. c(xs[j]) => k(xs[j]) in d and d[k(xs[j])] == v(xs[j]);   forall key in d. exists j. c(xs[j]) and key == k(xs[j])
        exact when the keys of the qualifying elements are pairwise different - emitted as a safety obligation (otherwise the last one wins)."""
        if len(n.generators) != 1 or self.V.extern_pattern(self, n, env) is not _MISSING:
            return _MISSING
        g = n.generators[0]
        if not isinstance(g.target, ast.Name):
            return _MISSING
        try:
            lst = self.eval(g.iter, env)
        except Unsupported:
            return _MISSING
        if not (isinstance(lst, SList) and not isinstance(lst.n, int)):
            return _MISSING

        def at(j):
            e2 = Env(env)
            e2.set(g.target.id, list_get(self.ctx, lst, j))
            self.pure_eval = getattr(self, "pure_eval", 0) + 1
            try:
                conds = [self.zbool(self.truth(self.eval(c, e2))) for c in g.ifs]
                return z3.And(0 <= j, j < lst.nz(), *conds), self.eval(n.key, e2), self.eval(n.value, e2)
            finally:
                self.pure_eval -= 1

        j, j2 = z3.Int(self.ctx.fresh_name("dc")), z3.Int(self.ctx.fresh_name("dc2"))
        c1, k1, v1 = at(j)
        c2, k2, _ = at(j2)
        kty = k1.ty if isinstance(k1, SV) else (STR if isinstance(k1, str) else None)
        vty = v1.ty if isinstance(v1, SV) else (v1.rec if isinstance(v1, Obj) and v1.rec is not None else None)
        if kty is None or vty is None:
            return _MISSING
        d = fresh_value(self.ctx, DictT(kty, vty), "dictcomp")
        pk1, pk2 = pack(self.ctx, k1, kty), pack(self.ctx, k2, kty)
        self.oblige("safety", "dict-comprehension-keys-are-distinct", z3.ForAll([j, j2], z3.Implies(z3.And(c1, c2, j != j2), pk1 != pk2)))
        self.ctx.assume(z3.ForAll([j], z3.Implies(c1, z3.And(z3.Select(d.dom, pk1), z3.Select(d.map, pk1) == pack(self.ctx, v1, vty)))))
        key = z3.Const(self.ctx.fresh_name("dk"), sort_of(kty))
        pos = z3.Function(self.ctx.fresh_name("dcpos"), sort_of(kty), z3.IntSort())
        cp, kp, _ = at(pos(key))
        self.ctx.assume(z3.ForAll([key], z3.Implies(z3.Select(d.dom, key), z3.And(cp, pack(self.ctx, kp, kty) == key))))
        return d

    def e_DictComp(self, n, env):
        r = self.symbolic_dict_comp(n, env)
        if r is not _MISSING:
            return r
        r = self.comp_values(n, env, lambda e: (self.eval(n.key, e), self.eval(n.value, e)))
        if isinstance(r, list):
            return PyDict({self.hashable(k): v for k, v in r})
        return r

    def e_Yield(self, n, env):
        v = self.eval(n.value, env) if n.value is not None else None
        self.V.on_yield(self, v, n, env)
        return None

    def e_YieldFrom(self, n, env):
        return self.V.on_yield_from(self, n, env)

    def e_Starred(self, n, env):
        raise Unsupported("starred expression")

    def e_Call(self, n, env):
        from .calls import eval_call

        return eval_call(self, n, env)

    def call_method(self, obj, name, args, kwargs, node=None):
        from .calls import call_value

        return call_value(self, self.getattr(obj, name, node), args, kwargs, node)

    def call_function(self, f, args, kwargs, node=None):
        from .calls import call_value

        return call_value(self, f, args, kwargs, node)

    # ------------------------------------------------------------------ assignment
    def assign(self, target, v, env: Env):
        if isinstance(target, ast.Name):
            if target.id in self.V.untracked(self.frame.qual):
                v = Opaque(target.id)
            env.set(target.id, v)
        elif isinstance(target, (ast.Tuple, ast.List)):
            items = self.unpack_seq(v, len(target.elts), target)
            star = [i for i, t in enumerate(target.elts) if isinstance(t, ast.Starred)]
            if star:
                raise Unsupported("starred assignment target")
            for t, x in zip(target.elts, items):
                self.assign(t, x, env)
        elif isinstance(target, ast.Attribute):
            base = self.eval(target.value, env)
            self.setattr(base, target.attr, v, target)
        elif isinstance(target, ast.Subscript):
            base = self.eval(target.value, env)
            idx = self.eval(target.slice, env)
            self.setitem(base, idx, v, target)
        else:
            raise Unsupported(f"assignment target {type(target).__name__}")

    def unpack_seq(self, v, n, node=None):
        if isinstance(v, SV) and isinstance(v.ty, OptT):
            self.implicit("TypeError", z3.simplify(sort_of(v.ty).recognizer(1)(v.t)), "unpack-not-None", node)
            v = unpack(self.ctx, sort_of(v.ty).accessor(1, 0)(v.t), v.ty.elem)
        if isinstance(v, (tuple, list)):
            items = list(v)
        elif isinstance(v, PyList):
            items = list(v.items)
        elif isinstance(v, SList):
            self.implicit("ValueError", v.n == n if isinstance(v.n, int) else z3.simplify(v.n == n), "unpack-length", node)
            items = [list_get(self.ctx, v, i) for i in range(n)]
        elif isinstance(v, Opaque):
            items = [Opaque(f"{v.what}[{i}]") for i in range(n)]
        else:
            raise Unsupported(f"cannot unpack {v!r}")
        if len(items) != n:
            self.implicit("ValueError", False, "unpack-length", node)
            raise PathEnd()
        return items

    def setattr(self, base, attr, v, node=None):
        if isinstance(base, Obj):
            if base.rec is not None:
                raise Unsupported("assignment to a field of an immutable record")
            if attr == "__class__":
                if not isinstance(v, ClassRef):
                    raise Unsupported("__class__ assignment of non-class")
                base.cls = v.qual
                return
            self.V.on_setattr(self, base, attr, v, node)
            base.fields[attr] = v
            return
        if isinstance(base, ModuleRef):
            key = f"{base.m.name}.{attr}"
            self.V.set_global(self, key, v)
            return
        if isinstance(base, Opaque):
            return
        if isinstance(base, ClassRef):
            self.V.set_global(self, f"{base.qual}.{attr}", v)
            return
        if isinstance(base, FuncRef) and base.node is None:
            return  # attribute of an external module (e.g. sys.meta_path): outside the tracked state
        raise Unsupported(f"setattr on {base!r}")

    def setitem(self, base, idx, v, node=None):
        if isinstance(base, PyDict) and not is_sym(idx):
            base.d[idx] = v
            return
        if isinstance(base, SDict):
            k = pack(self.ctx, idx, base.kty)
            base.dom = z3.Store(base.dom, k, True)
            base.map = z3.Store(base.map, k, pack(self.ctx, v, base.vty))
            return
        if isinstance(base, PyList) and not is_sym(idx):
            self.implicit("IndexError", -len(base.items) <= idx < len(base.items), "index-in-range", node)
            base.items[idx] = v
            return
        if isinstance(base, SList):
            i = zint(idx)
            n = base.nz()
            self.implicit("IndexError", z3.simplify(z3.And(-n <= i, i < n)), "index-in-range", node)
            base.arr = z3.Store(base.arr, z3.If(i < 0, i + n, i), pack(self.ctx, v, base.ety))
            return
        if isinstance(base, Opaque):
            return
        if isinstance(base, Obj) and callable(base.fields.get("__setitem__")):
            base.fields["__setitem__"](self, idx, v)
            return
        if isinstance(base, PyDict) and is_sym(idx):
            for k in list(base.d):
                if self.branch(self.py_eq(idx, k)):
                    base.d[k] = v
                    return
            if not base.d and getattr(base, "assoc", None) is not None:
                from .core import list_append

                list_append(self.ctx, base.assoc, (idx, v))
                return
            raise Unsupported("symbolic new key into concrete dict")
        raise Unsupported(f"item assignment on {base!r}")


class _Sentinel:
    def __init__(self, n):
        self.n = n

    def __repr__(self):
        return self.n


_MISSING = _Sentinel("<missing>")
_UNBOUND = _Sentinel("<unbound>")


class PyList:
    """A Python list whose structure (length, element slots) is concretely known; elements may be symbolic."""

    def __init__(self, items):
        self.items = list(items)

    def __repr__(self):
        return f"PyList({self.items!r})"


class PyDict:
    def __init__(self, d):
        self.d = dict(d)

    def __repr__(self):
        return f"PyDict({self.d!r})"


class ModuleRef:
    def __init__(self, m):
        self.m = m


class Closure:
    def __init__(self, node, env, frame):
        self.node = node
        self.env = env
        self.frame = frame


class BoundBuiltin:
    def __init__(self, base, name):
        self.base = base
        self.name = name


def _decorator_names(fn):
    out = []
    for d in getattr(fn, "decorator_list", []):
        n = d.func if isinstance(d, ast.Call) else d
        out.append(getattr(n, "id", getattr(n, "attr", "")))
    return out


def _is_property(fn):
    return "property" in _decorator_names(fn)


def _is_static(fn):
    return "staticmethod" in _decorator_names(fn)


def _is_classmethod(fn):
    return "classmethod" in _decorator_names(fn)


import operator as _op

_PYOPS = {
    ast.Add: _op.add, ast.Sub: _op.sub, ast.Mult: _op.mul, ast.FloorDiv: _op.floordiv, ast.Mod: _op.mod,
    ast.BitOr: _op.or_, ast.BitAnd: _op.and_, ast.Div: _op.truediv, ast.BitXor: _op.xor,
}
_PYCMP = {ast.Lt: _op.lt, ast.LtE: _op.le, ast.Gt: _op.gt, ast.GtE: _op.ge}

BUILTINS: dict = {}
