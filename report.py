"""Verdicts, VIOLATION / KNOWN-FINDING lines, replay files and evidence."""
from __future__ import annotations

import json
import re
import time
from pathlib import Path

HERE = Path(__file__).resolve().parent

ASSUMPTION_TEXT = {
    "PS1": "PS1 int is mathematical; no floats are reasoned about",
    "PS2": "PS2 left-to-right evaluation, short-circuit and/or, chained comparisons, truthiness of None/''/[]/0",
    "PS3": "PS3 a locally mutated list/dict is not aliased",
    "PS4": "PS4 iterating a sequence does not observe mutation of it",
    "PS5": "PS5 dict preserves insertion order; in/[] consistent with ==/hash",
    "PS6": "PS6 attribute access on self/state() is a plain field",
    "PS7": "PS7 ==, <=, >=, in on abstract values are deterministic side-effect-free functions of their operands (uninterpreted)",
    "PS8": "PS8 implicit exceptions are exactly those for which safety VCs are generated; MemoryError/RecursionError/signals ignored",
    "PS11": "PS11 whether an order comparison (<=, >=) of two values raises is a deterministic function of the two values, symmetric in them, and a deep copy behaves like the original (only the /raising contract variants)",
    "PS9": "PS9 single-threaded; id() of a live object is unique",
    "E1": "E1 == on recorded values is an equivalence invariant under deepcopy (only where a clause says so)",
    "E2": "E2 <= / >= are converse total preorders on compared values (property scope: totally ordered values)",
    "X1": "X1 CPython repr of int/float/complex/str/bytes/None/bool evaluates back to the value (trusted)",
    "X2": "X2 black format_str / the format-command keep the AST (except docstring normalisation of a leading string statement) (trusted; cross-checked by B-rt/B-str/B-layout)",
    "X3": "X3 asttokens/tokenize: token positions of sibling nodes are ordered, nested in the parent's brace tokens, character columns; get_text_positions = first/last token (trusted; cross-checked by the stand-ins on every generated file)",
    "X4": "X4 asttokens.util.replace splices disjoint sorted ranges (trusted)",
    "X5": "X5 Path.read_text('utf-8') decodes with universal newlines; LineNumbers offsets are monotone in (line, col) (trusted)",
    "X6": "X6 subprocess.run(shell=True) returns a CompletedProcess and does not raise for a failing command (trusted)",
    "X7": "X7 hashlib.sha256 is injective on the data seen (trusted)",
    "X8": "X8 pathlib glob/rename/unlink/write_bytes/iterdir/exists, os.environ, tomllib act on the file system / environment as documented (trusted)",
    "X9": "X9 textbook contracts of max/sorted/groupby/zip/enumerate/reversed (groupby = run-length encoding)",
    "X10": "X10 tokenize.generate_tokens / untokenize round-trip (type, string) pairs (trusted)",
    "X11": "X11 executing.Source.executing(frame) returns the ast.Call of the running call (trusted; B-sites, B-rt placements)",
    "X12": "X12 operator dispatch tries the reflected operand after NotImplemented (trusted)",
    "X13": "X13 pytest: fixtures, pytest.fail in teardown => error, exit status, option parsing (trusted; exercised by B-sess)",
    "X14": "X14 copy.deepcopy yields an independent object graph (trusted)",
    "X15": "X15 black is idempotent on its own output (trusted; fixed-point check in B-layout)",
    "A-frame": "A-frame calls treated as havoc may raise but do not modify the tracked state of the contract (listed per function under havoc_calls)",
}


_WITNESS_CACHE: dict = {}


def _san(s):
    return re.sub(r"[^A-Za-z0-9_.-]+", "_", s)[:120]


_PINS = None


def _pins():
    global _PINS
    if _PINS is None:
        _PINS = {}
        p = HERE / "contracts" / "obligation_pins.json"
        if p.exists():
            try:
                import hashlib

                d = json.loads(p.read_text())
                h = hashlib.sha256()
                for f in sorted(list((HERE / "contracts").glob("*.py")) + list((HERE / "pyvc").glob("*.py"))):
                    h.update(f.name.encode())
                    h.update(f.read_bytes())
                if d.get("digest") == h.hexdigest()[:20]:
                    _PINS = {k: set(v) for k, v in d["functions"].items()}
            except Exception:
                _PINS = {}
    return _PINS


def in_baseline(target, ob_id):
    """True when the obligation (line numbers stripped) was discharged on the tree the contracts were proved on, or when no
    (fresh) pin file exists for this contract - then every refuted obligation counts, as before."""
    import re

    pins = _pins().get(target)
    if pins is None:
        return True
    return re.sub(r"@\d+", "@", ob_id.split("#p")[0]) in pins


def match_known(kf, pid, ob_id=None, finding=None):
    for k in kf:
        if k.get("status", "open") != "open":
            continue
        if pid not in k.get("properties", [k.get("property")]):
            continue
        if ob_id is not None and k.get("obligation") and ob_id.startswith(k["obligation"]):
            return k
        if finding is not None and k.get("finding") == finding:
            return k
    return None


def _out_dir():
    """Where evidence and replay files go: /verif itself for the registered checks; the evaluation tooling (seeded / neutral patches on a
    scratch export, VERIF_OUT_DIR set) writes elsewhere so that files produced from a modified tree never end up in the committed evidence."""
    import os
    from pathlib import Path

    o = os.environ.get("VERIF_OUT_DIR")
    return Path(o) if o else HERE


def write_replay(pid, name, header: dict, code: str | None):
    d = _out_dir() / "replays" / pid
    d.mkdir(parents=True, exist_ok=True)
    p = d / (_san(name) + ".py")
    body = ['"""Replay file written by /verif/check.py', json.dumps(header, indent=1, default=str).replace('"""', "'''"), '"""', ""]
    if code:
        body.append(code)
    else:
        body.append("print('no native failing input was found for this obligation; see the header for the solver output')")
    p.write_text("\n".join(body) + "\n")
    return p


def finish(pid, tier, seed, t0, results, lemma_results, standin_results, known, static_results=()):
    violations = []
    known_hits = []
    undecided = []
    faults = []
    functions = []
    total = discharged = 0
    backends = {}
    solver_ms = 0.0
    trusted = set()
    samples = []
    inlined = set()
    havoced = set()
    per_function = []
    for r in results:
        if r.get("error"):
            faults.append(f"{r['target']}: {r['error'].splitlines()[0]}")
            continue
        for e in r["errors"]:
            if e.startswith("unsupported"):
                undecided.append(f"{r['target']}: {e}")
            else:
                faults.append(f"{r['target']}: {e}")
        obs = [o for o in r["obligations"] if pid in o["props"]]
        if not r["obligations"] and not any(e.startswith("unsupported") for e in r["errors"]):
            faults.append(f"{r['target']}: zero obligations generated (vacuity guard)")
        if r["vacuity"] and all(s == "discharged" for s in r["vacuity"]):
            faults.append(f"{r['target']}: every exit is unreachable under the contract's preconditions (vacuity guard)")
        if not r["vacuity"] and not r["errors"]:
            faults.append(f"{r['target']}: no exit reached (vacuity guard)")
        nf = nd = 0
        for o in obs:
            solver_ms += o["ms"] or 0
            if o["status"] == "discharged":
                total += 1
                discharged += 1
                nd += 1
                backends[o["backend"]] = backends.get(o["backend"], 0) + 1
            elif o["status"] == "refuted":
                k = match_known(known, pid, ob_id=o["id"])
                if k:
                    known_hits.append((k, o))
                    nf += 1
                    total += 1
                elif not in_baseline(r["target"], o["id"]):
                    # refuted, but this obligation has no counterpart that was proved on the baseline tree (e.g. an assertion or a
                    # call introduced by the change, which the abstraction of the contract cannot decide): undecided, not a violation
                    total += 1
                    undecided.append(f"{o['id']}#p{o['path']} (refuted by {o['backend']}, but the obligation is not part of the proved baseline: "
                                     f"no verdict without a native failing input)")
                else:
                    violations.append(("obligation", r, o))
                    nf += 1
                    total += 1
            else:
                # not discharged and not refuted by a solver: look for a native failing input of the function (bounded search)
                code = None
                try:
                    import bounded

                    key = ("witness", r["target"])
                    if key not in _WITNESS_CACHE:
                        _WITNESS_CACHE[key] = bounded.native_witness(r["target"], o)
                    code = _WITNESS_CACHE[key]
                except Exception:
                    code = None
                if code:
                    o = dict(o, status="unknown+native-witness", native_code=code)
                    k = match_known(known, pid, ob_id=o["id"])
                    if k:
                        known_hits.append((k, o))
                    else:
                        violations.append(("obligation", r, o))
                    nf += 1
                else:
                    total += 1
                    undecided.append(f"{o['id']}#p{o['path']} ({o['backend']}: {o['detail']})")
        functions.append(r["target"])
        per_function.append(dict(function=r["target"], file=r["file"].replace("/repo/", ""), lines=r["span"], source_sha256_16=r["src_hash"],
                                 paths=r["paths"], obligations_for_property=len(obs), discharged=nd, refuted=nf, wall_s=r["wall"],
                                 callees_by_contract=r["contracts_used"], inlined=r["inlined"], havoc_calls=r["havoced"],
                                 assumed_externals=r["externals_used"]))
        inlined |= set(r["inlined"])
        havoced |= set(r["havoced"])
        for s in r.get("samples", [])[:1]:
            samples.append(s)
    lemma_total = len(lemma_results)
    lemma_ok = sum(1 for l in lemma_results if l["discharged"])
    for l in lemma_results:
        solver_ms += l["ms"]
        if not l["discharged"]:
            undecided.append(f"lemma {l['lemma']} not discharged: {l['stages']}")
    if lemma_results:
        total += lemma_total
        discharged += lemma_ok
        backends["z3-5.1 (induction)"] = lemma_ok

    static_out = []
    for sr in static_results:
        if sr["error"]:
            faults.append(f"static check {sr['name']}: {sr['error'].splitlines()[0]}")
            continue
        if not sr["rows"]:
            faults.append(f"static check {sr['name']}: zero rows (vacuity guard)")
        okc = 0
        for row in sr["rows"]:
            total += 1
            if row["ok"]:
                discharged += 1
                okc += 1
                backends["static-evaluation"] = backends.get("static-evaluation", 0) + 1
            else:
                total -= 1
                k = match_known(known, pid, ob_id=row["id"])
                if k:
                    known_hits.append((k, row))
                else:
                    violations.append(("static", sr, row))
        static_out.append(dict(name=sr["name"], rows=len(sr["rows"]), ok=okc, sample=sr["rows"][:2]))

    bounded_out = []
    for s in standin_results:
        if s.get("error"):
            faults.append(f"stand-in {s['name']}: {s['error']}")
            continue
        fails = []
        for f in s.get("failures", []):
            k = match_known(known, pid, finding=f.get("finding"))
            if k:
                known_hits.append((k, f))
            else:
                fails.append(f)
                violations.append(("standin", s, f))
        bounded_out.append(dict(name=s["name"], label="bounded", bound=s.get("bound"), evaluated=s.get("evaluated", 0),
                                distinct=s.get("distinct", 0), failures=len(fails), samples=s.get("samples", [])[:3],
                                assumptions_cross_checked=s.get("cross_checks", [])))

    from pyvc.contract import REGISTRY

    for t in functions:
        for a in REGISTRY[t].assumes:
            trusted.add(a)
        if REGISTRY[t].uses:
            trusted.add("X9" if "gsum" in REGISTRY[t].uses else "PS1")
    trusted |= {"PS1", "PS2", "PS8"}

    # ---- report lines
    seen_k = set()
    for k, o in known_hits:
        key = k.get("id") or k.get("obligation") or k.get("finding")
        if key in seen_k:
            continue
        seen_k.add(key)
        print(f"KNOWN-FINDING: property={pid} {k.get('what', key)}")
    vcount = 0
    reported = set()
    for kind, r, o in violations:
        if kind == "obligation":
            key = o["id"]
            if key in reported:
                continue
            reported.add(key)
            code = o.get("native_code")
            try:
                import bounded

                if code is None:
                    code = bounded.native_witness(r["target"], o)
            except Exception as ex:  # the witness search must never turn into an alarm of its own
                code = None
            hdr = dict(property=pid, failed_obligation=o["id"], path=o["path"], function=r["target"], verdict=o["status"], backend=o["backend"],
                       solver_model=o["model"], where=o["where"])
            p = write_replay(pid, o["id"], hdr, code)
            tail = "" if code else " no-failing-input-found"
            print(f"VIOLATION property={pid} replay={p} obligation={o['id']}{tail}")
            vcount += 1
        elif kind == "static":
            if o["id"] in reported:
                continue
            reported.add(o["id"])
            hdr = dict(property=pid, failed_obligation=o["id"], detail=o.get("detail"), backend="static-evaluation of the class/literal tables read from /repo")
            p = write_replay(pid, o["id"], hdr, o.get("replay_code"))
            print(f"VIOLATION property={pid} replay={p} obligation={o['id']}" + ("" if o.get("replay_code") else " no-failing-input-found"))
            vcount += 1
        else:
            key = (r["name"], str(o.get("input"))[:200])
            if key in reported:
                continue
            reported.add(key)
            hdr = dict(property=pid, standin=r["name"], bound=r.get("bound"), input=o.get("input"), detail=o.get("detail"))
            p = write_replay(pid, f"{r['name']}_{vcount}", hdr, o.get("replay_code"))
            print(f"VIOLATION property={pid} replay={p} standin={r['name']} input={str(o.get('input'))[:160]}")
            vcount += 1
    for u in undecided[:40]:
        print(f"UNDECIDED property={pid} {u}")
    for f in faults:
        print(f"CHECKER-FAULT property={pid} {f}")

    wall = time.time() - t0
    ev = dict(
        property_id=pid, tier=tier, seed=seed, level="proof",
        coverage=dict(
            obligations=total, discharged=discharged,
            checker_cmd=f"./check.py {pid} --tier {tier}",
            trusted_base=sorted(trusted),
            backends=backends, solver_time_s=round(solver_ms / 1000, 2),
            functions_under_contract=per_function,
            lemmas=[dict(lemma=l["lemma"], discharged=l["discharged"], ms=l["ms"]) for l in lemma_results],
            bounded=bounded_out,
            static_checks=static_out,
            known_findings=[dict(id=k.get("id"), what=k.get("what")) for k in {id(k): k for k, _ in known_hits}.values()],
            undecided=undecided[:40],
            samples=samples[:4] or [{"note": "no VC sample (stand-ins only)"}],
            explanation="obligations/discharged count only VCs generated from /repo's current source for this property and discharged (unsat) by a solver, "
                        "plus inductive lemma VCs; bounded stand-ins and known findings are listed separately and never counted",
        ),
        assumptions=[ASSUMPTION_TEXT.get(t, t) for t in sorted(trusted)]
        + ([f"inlined real bodies at call sites: {sorted(inlined)}"] if inlined else [])
        + ([f"calls treated as havoc (result unconstrained, assumed not to touch tracked state): {sorted(havoced)}"] if havoced else []),
        wall_s=round(wall, 2),
        violations=vcount,
    )
    (_out_dir() / "evidence").mkdir(parents=True, exist_ok=True)
    (_out_dir() / "evidence" / f"{pid}.json").write_text(json.dumps(ev, indent=1, default=str))
    print(f"property={pid} tier={tier} obligations={total} discharged={discharged} violations={vcount} known={len(seen_k)} "
          f"undecided={len(undecided)} faults={len(faults)} functions={len(functions)} wall={wall:.1f}s")
    if vcount:
        return 1
    if faults:
        return 3
    if undecided:
        return 2
    return 0
