"""Replay file written by /verif/check.py
{
 "property": "C20",
 "failed_obligation": "_rewrite_code.SourceFile.new_code/post:not-clean-and-no-command-means-plain-splice",
 "path": 4,
 "function": "inline_snapshot._rewrite_code.SourceFile.new_code",
 "verdict": "refuted",
 "backend": "z3-5.1",
 "solver_model": "code!1 = Txt!val!0\nenforce!14 = False\nfmt = [Txt!val!3 -> Txt!val!4, else -> Txt!val!1]\nrepls!2 = Repls!val!0\nrstrip_txt = [else -> Txt!val!2]\nsorted_repls = [else -> Repls!val!1]\nsplice = [else -> Txt!val!3]",
 "where": ""
}
"""

print('no native failing input was found for this obligation; see the header for the solver output')
