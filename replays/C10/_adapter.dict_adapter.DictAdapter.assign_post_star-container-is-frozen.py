"""Replay file written by /verif/check.py
{
 "property": "C10",
 "failed_obligation": "_adapter.dict_adapter.DictAdapter.assign/post:star-container-is-frozen",
 "path": 1,
 "function": "inline_snapshot._adapter.dict_adapter.DictAdapter.assign",
 "verdict": "refuted",
 "backend": "z3-5.1 finite-scope k=2",
 "solver_model": "DictV_as_val = [DictV!e0 -> Val!e0, else -> Val!e1]\nDictV_keys = [else ->\n mk_List_Val(Store(Store(K(Int, Val!e0), -1, Val!e1),\n                   1,\n                   Val!e1),\n             0)]\nFalseVal = Val!e1\nNode_keys = [else ->\n mk_List_Node(Store(K(Int, Node!e1), 33953, Node!e0), 33954)]\nNode_values = [else ->\n mk_List_Node(Store(K(Int, Node!e1), 6, Node!e0), 33954)]\nNoneVal = Val!e1\nNone_Node = Node!e0\nTrueVal = Val!e0\n_adapter.value_adapter.ValueAdapter.assign_result!17 = Val!e1\n_adapter.value_adapter.ValueAdapter.assign_trace!18 = mk_List_Rec_Chg(Store(K(Int,\n                        mk_Rec_Chg(\"!0!\",\n                                   \"!0!\",\n                                   Node!e1,\n                                   Val!e0,\n                                   Val!e0,\n                                   Code!e1,\n                                   3)),\n                      0,\n                      mk_Rec_Chg(\"!0!\",\n                                 \"!0!\",\n                                 Node!e1,\n                                 Val!e0,\n                                 Val!e1,\n                                 Code!e1,\n                                 4)),\n                0)\narray-ext = [else -> 6]\ncode_from = [else -> Code!e0]\ndeepcopy_Val = [else -> Var(0)]\neq_Val = [else -> Val!e0]\nisinst_Dict = [Node!e1 -> True, else -> False]\nnew_value!3 = DictV!e0\nnode_tokens = [else -> Toks!e0]\nold_node!2 = Node!e1\nold_value!1 = DictV!e1\ntokens_of = [else -> Toks!e1]\ntruthy_Val = [Val!e0 -> True, else -> False]\nundefined_Val = Val!e0\nupdate_allowed = [else -> False]",
 "where": ""
}
"""

print('no native failing input was found for this obligation; see the header for the solver output')
