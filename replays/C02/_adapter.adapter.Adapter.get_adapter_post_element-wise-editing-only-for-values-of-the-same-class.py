"""Replay file written by /verif/check.py
{
 "property": "C02",
 "failed_obligation": "_adapter.adapter.Adapter.get_adapter/post:element-wise-editing-only-for-values-of-the-same-class",
 "path": 1,
 "function": "inline_snapshot._adapter.adapter.Adapter.get_adapter",
 "verdict": "refuted",
 "backend": "z3-5.1",
 "solver_model": "None_Val = Val!val!0\nisinst_SV(type_of_Val(old_value!1):PyType) = [else -> False]\nnew_value!2 = Val!val!1\nold_value!1 = Val!val!2\ntype_of_Val = [else -> PyType!val!0]",
 "where": ""
}
"""

print('no native failing input was found for this obligation; see the header for the solver output')
