"""Replay file written by /verif/check.py
{
 "property": "C07",
 "failed_obligation": "pytest_plugin.snapshot_check/post:green-only-if-nothing-counted",
 "path": 8,
 "function": "inline_snapshot.pytest_plugin.snapshot_check",
 "verdict": "refuted",
 "backend": "z3-5.1",
 "solver_model": "incorrect_after_test!14 = 1\nmissing_after_test!13 = 0\nstate.update_flags.create!3 = False\nstate.update_flags.fix!4 = False\nstate.update_flags.update!6 = False\nxfail!12 = False",
 "where": ""
}
"""

print('no native failing input was found for this obligation; see the header for the solver output')
