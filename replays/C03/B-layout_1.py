"""Replay file written by /verif/check.py
{
 "property": "C03",
 "standin": "B-layout",
 "bound": "generated test files through Example.run_inline: 23 statement layouts x 6 headers x 21 argument edits x 6 flag sets, LF/CRLF, formatter-clean and not clean (C03); 9 pyproject [tool.black] variants x 5 shapes x values around the line limit (C20); Is()/f-string/star-expression/nested-snapshot name inside list/tuple/dict/call at every position (C10); containers of hand-written element expressions, depth<=2, width<=4, random edit scripts + all sequence pairs over 3 symbols up to length 3 (C11)",
 "input": {
  "prop": "C03",
  "name": "unicode_ident/pagebreak",
  "flags": "create,fix",
  "source": "from inline_snapshot import snapshot\n\f\n# page two \u2028 same comment\nsep = 'a\u0085b'\ngr\u00f6\u00dfe = \"\u00e4\"\ndef test_a():\n    assert {\"k\": [1, (2, 3)], \"\u00e4\": None} == snapshot(), gr\u00f6\u00dfe\n"
 },
 "detail": "[C03 unicode_ident/pagebreak flags=create,fix] [other] rewritten file is not valid Python: invalid syntax. Perhaps you forgot a comma? (test_something.py, line 7)\n--- before ---\nfrom inline_snapshot import snapshot\n\f\n# page two \u2028 same comment\nsep = 'a\u0085b'\ngr\u00f6\u00dfe = \"\u00e4\"\ndef test_a():\n    assert {\"k\": [1, (2, 3)], \"\u00e4\": None} == snapshot(), gr\u00f6\u00dfe\n\n--- after ---\nfrom inline_snapshot import snapshot\n\f\n# page two \u2028 same comment\nsep = 'a\u0085b'\ngr\u00f6\u00dfe = \"\u00e4\"\ndef test_a():\n    assert {\"k\": [1, (2,{\"k\": [1, (2, 3)], \"\u00e4\": None} 3)], \"\u00e4\": None} == snapshot(), gr\u00f6\u00dfe\n"
}
"""

# stand-alone replay against /repo (run with /verif/.venv/bin/python); exits non-zero / AssertionError when it fails
import sys, io, os, contextlib, tempfile, shutil
from inline_snapshot.testing import Example
import inline_snapshot

class _Cap:
    text = None
    def __eq__(self, o):
        self.text = o
        return True

class _Ex(Example):
    def dump_files(self):
        pass
    def _read_files(self, dir):
        return {str(p.relative_to(dir)): p.read_bytes().decode("utf-8") for p in [*dir.iterdir(), *dir.rglob("*.py")] if p.is_file()}

def run_inline(files, flags, cwd_files=None):
    cap = _Cap()
    old = os.getcwd()
    tmp = None
    try:
        if cwd_files is not None:
            tmp = tempfile.mkdtemp()
            for n, c in cwd_files.items():
                open(os.path.join(tmp, n), "w", encoding="utf-8", newline="").write(c)
            os.chdir(tmp)
        with contextlib.redirect_stdout(io.StringIO()), contextlib.redirect_stderr(io.StringIO()):
            res = _Ex(dict(files)).run_inline(["--inline-snapshot=" + flags], raises=cap)
    finally:
        os.chdir(old)
        if tmp:
            shutil.rmtree(tmp, ignore_errors=True)
    return dict(res.files), cap.text

def rerun_identity(src):
    """exec the rewritten module with snapshot := identity and run every test_* function"""
    real = inline_snapshot.snapshot
    inline_snapshot.snapshot = lambda x=...: x
    try:
        ns = {}
        exec(compile(src.replace("\r\n", "\n"), "<rewritten>", "exec"), ns)
        for k, v in list(ns.items()):
            if (k.startswith("test_") or k == "test") and callable(v):
                v()
    finally:
        inline_snapshot.snapshot = real

import ast
SRC = 'from inline_snapshot import snapshot\n\x0c\n# page two \u2028 same comment\nsep = \'a\x85b\'\ngröße = "ä"\ndef test_a():\n    assert {"k": [1, (2, 3)], "ä": None} == snapshot(), größe\n'
FLAGS = 'create,fix'
CWD_FILES = {}
files = {'test_something.py': SRC}
files.update(CWD_FILES)
after, raised = run_inline(files, FLAGS, cwd_files=CWD_FILES)
new = after['test_something.py']
print(new)
compile(new.replace('\r\n', '\n'), 'test_something.py', 'exec')  # C03: still valid Python
# the detail text of the failure names the violated oracle; the generic checks that can be replayed stand-alone follow
EXPECT_GREEN = True
if EXPECT_GREEN:
    rerun_identity(new)
import black
mode = black.Mode(**{})
lf = SRC.replace('\r\n', '\n')
if black.format_str(lf, mode=mode) == lf:
    assert black.format_str(new, mode=mode) == new, 'C20: file was formatter-clean before and is not afterwards'
import asttokens
def masked(src, changed):
    atok = asttokens.ASTTokens(src, parse=True)
    spans = []
    for n in ast.walk(atok.tree):
        if isinstance(n, ast.Call) and isinstance(n.func, ast.Name) and n.func.id == 'snapshot':
            spans.append((atok.next_token(list(atok.get_tokens(n.func))[-1]).endpos, list(atok.get_tokens(n))[-1].startpos))
    spans.sort()
    out, pos = [], 0
    for i, (a, b) in enumerate(spans):
        if i in changed and a >= pos:
            out.append(src[pos:a] + chr(0))
            pos = b
    return ''.join(out) + src[pos:]
CHANGED = [0]
if black.format_str(lf, mode=mode) != lf:  # not formatter-clean: byte for byte outside the changed arguments
    assert masked(SRC, CHANGED) == masked(new, CHANGED), 'C03: text outside the parentheses of the changed snapshot() calls differs'
# finally the exact oracle of the stand-in (needs /verif on sys.path)
sys.path.insert(0, '/verif')
from bounded import b_layout
CASE = {'prop': 'C03', 'name': 'unicode_ident/pagebreak', 'src': 'from inline_snapshot import snapshot\n\x0c\n# page two \u2028 same comment\nsep = \'a\x85b\'\ngröße = "ä"\ndef test_a():\n    assert {"k": [1, (2, 3)], "ä": None} == snapshot(), größe\n', 'flags': 'create,fix', 'changed': [0], 'crlf': False, 'make_clean': False, 'mode_opts': {}, 'expect_green': True}
out = b_layout.eval_case(CASE)
assert out['status'] != 'fail', out['detail']

