"""Replay file written by /verif/check.py
{
 "property": "C20",
 "failed_obligation": "_format.format_code/post:successful-command-returns-its-output",
 "path": 2,
 "function": "inline_snapshot._format.format_code",
 "verdict": "refuted",
 "backend": "z3-5.1",
 "solver_model": "inline_snapshot._config.config.format_command!13 = some_Opt_Str(\"!0!\")\nreturncode!15 = 0",
 "where": ""
}
"""

print('no native failing input was found for this obligation; see the header for the solver output')
