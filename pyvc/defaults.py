"""Process-wide defaults filled by contracts/common.py."""
DEFAULT_POLICIES: dict = {"attrs": {}, "globals": {}}
SHAPES: dict = {}
