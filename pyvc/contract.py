"""Sidecar contract objects.  Contracts live in /verif/contracts/*.py and never touch /repo.

Clause expressions are Python source strings.  They are parsed with `ast` and evaluated by the same
symbolic interpreter that executes the real function body, in the function's own environment plus
`result`, `old(...)` and the spec functions of pyvc/specs.py.

Clause labels may carry property tags: "count-old [C11,C02]".  An obligation generated from the clause
is attributed to every tagged property; safety obligations (index in range, assert holds, no undeclared
exception) are attributed to `safety_props`.
"""
from __future__ import annotations

import re
from dataclasses import dataclass, field


@dataclass
class Loop:
    index: str | None = None  # ghost iteration index for `for` loops
    inv: dict = field(default_factory=dict)  # label -> expr
    modifies: list | None = None  # None: computed syntactically from the loop body
    decreases: str | None = None
    unroll: bool = False  # iterate a concretely known iterable completely (complete, not bounded)
    elem_ty: str | None = None  # element sort for cutting a loop over a concretely known list (e.g. "Str")
    ghost_modifies: list | None = None
    iter_init: dict = field(default_factory=dict)  # ghost name -> python value assigned at the start of every iteration
    iter_post: dict = field(default_factory=dict)  # label -> clause checked at the normal end of every iteration  # ghost variables the body may change (None: all of them)


@dataclass
class Shape:
    """Template of a heap object handed to the function (self, state(), recorder ...)."""

    cls: str
    fields: dict = field(default_factory=dict)  # name -> type string | "@Shape" | python constant


@dataclass
class Contract:
    target: str
    params: dict = field(default_factory=dict)  # name -> type string | "@Shape"
    returns: str | None = None
    requires: dict = field(default_factory=dict)
    ensures: dict = field(default_factory=dict)
    raises: dict = field(default_factory=dict)  # exception class name -> {label: expr that must hold when raised}
    loops: dict = field(default_factory=dict)  # ordinal -> Loop
    frame: list | None = None  # "self._new_value", "state.incorrect_values", ...; None = unchecked
    callees: dict = field(default_factory=dict)  # name/qualname -> policy string
    uses: list = field(default_factory=list)  # axiom sets from specs
    shapes: dict = field(default_factory=dict)
    globals_: dict = field(default_factory=dict)  # name -> "@Shape" | constant: module-level state
    safety_props: list = field(default_factory=lambda: ["C18"])
    ghost: dict = field(default_factory=dict)
    attrs: dict = field(default_factory=dict)  # "Sort.attr" -> type string (attributes of abstract sorts)
    pure: bool = False  # callers may assume the function has no effect on the heap
    notes: str = ""
    max_paths: int = 4000
    kind: str = "function"  # function | lemma
    self_cls: str | None = None
    extern_patterns: dict = field(default_factory=dict)
    trace_name: str | None = None
    result_name: str = "result"
    name: str | None = None  # registry key when several contracts (variants) exist for one target
    assumes: list = field(default_factory=list)  # ids of assumed contracts / semantics assumptions (X.., PS.., E..)


_TAG = re.compile(r"\[([A-Z0-9, ]+)\]\s*$")


_USING = re.compile(r"\{using:([^}]*)\}")


def split_using(label: str):
    m = _USING.search(label)
    if not m:
        return label, None
    return (label[: m.start()] + label[m.end():]).strip(), [x.strip() for x in m.group(1).split(",") if x.strip()]


def split_label(label: str):
    label, _ = split_using(label)
    m = _TAG.search(label)
    if not m:
        return label.strip(), []
    return label[: m.start()].strip(), [p.strip() for p in m.group(1).split(",") if p.strip()]


def contract_props(c: Contract):
    """All properties served by a contract: union of the tags of its clauses (+ safety_props)."""
    out = []
    labels = list(c.requires) + list(c.ensures)
    for cl in c.raises.values():
        labels += list(cl)
    for lp in c.loops.values():
        labels += list(lp.inv)
    for lb in labels:
        for p in split_label(lb)[1]:
            if p not in out:
                out.append(p)
    for p in list(c.safety_props) + list(c.ghost.get("props", [])):
        if p not in out:
            out.append(p)
    return out


REGISTRY: dict[str, Contract] = {}


def contract(target, **kw) -> Contract:
    c = Contract(target=target, **kw)
    REGISTRY[c.name or target] = c
    return c


STATIC: dict = {}


def static_check(name, props):
    """Obligations decided by evaluating a finite table read from the repo AST (class table, literal sets):
    fn() -> list of dict(id, ok: bool, detail).  Complete over a finite domain, back end `static-evaluation`."""

    def deco(fn):
        STATIC[name] = dict(name=name, props=list(props), fn=fn)
        return fn

    return deco
