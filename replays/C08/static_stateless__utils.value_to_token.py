"""Replay file written by /verif/check.py
{
 "property": "C08",
 "failed_obligation": "static/stateless:_utils.value_to_token",
 "detail": "reads module-level `_token_cache` (assigned 1x, `{}`): mutable state shared between calls",
 "backend": "static-evaluation of the class/literal tables read from /repo"
}
"""

print('no native failing input was found for this obligation; see the header for the solver output')
