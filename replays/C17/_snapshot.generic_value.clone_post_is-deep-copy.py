"""Replay file written by /verif/check.py
{
 "property": "C17",
 "failed_obligation": "_snapshot.generic_value.clone/post:is-deep-copy",
 "path": 1,
 "function": "inline_snapshot._snapshot.generic_value.clone",
 "verdict": "refuted",
 "backend": "z3-5.1",
 "solver_model": "deepcopy_Val = [else -> Val!val!1]\nobj!1 = Val!val!0\npytype_is_NoneType = [else -> False]\npytype_is_bool = [else -> False]\npytype_is_bytes = [else -> False]\npytype_is_complex = [else -> True]\npytype_is_float = [else -> False]\npytype_is_frozenset = [else -> False]\npytype_is_int = [else -> False]\npytype_is_str = [else -> False]\npytype_is_tuple = [else -> False]\ntype_of_Val = [else -> PyType!val!0]",
 "where": ""
}
"""

print('no native failing input was found for this obligation; see the header for the solver output')
