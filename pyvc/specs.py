"""Spec functions shared by the sidecar contracts (symbolic semantics) and their lemmas.

Spec functions are callables f(I, *args) over interpreter values.  Axiomatised ones come with
*lemmas* that are themselves proved by induction with z3 (pyvc/lemmas.py) before they are used as
axioms, so nothing in here is an unproved assumption except where a name starts with `X` (assumed
contracts on dependencies, DESIGN.md section 7).
"""
from __future__ import annotations

import z3

from .core import forall, Unsupported, as_slist, is_sym, pack, unpack, zint
from .interp import _MISSING, PyList
from .types import BOOL, CHAR, INT, Abs, Opaque, SList, SV, sort_of

CharArr = z3.ArraySort(z3.IntSort(), z3.IntSort())


def letters_member(x, letters: str):
    return z3.Or([x == ord(c) for c in letters])


def cnt_fn(letters: str):
    """cnt_<letters>(a, n) = number of i < n with a[i] in letters"""
    return z3.Function("cnt_" + "".join(sorted(letters)), CharArr, z3.IntSort(), z3.IntSort())


def cnt_def(letters):
    f = cnt_fn(letters)
    a = z3.Const("cd!a", CharArr)
    n = z3.Int("cd!n")
    return [
        z3.ForAll([a, n], z3.Implies(n <= 0, f(a, n) == 0), patterns=[f(a, n)]),
        z3.ForAll([a, n], z3.Implies(n > 0, f(a, n) == f(a, n - 1) + z3.If(letters_member(z3.Select(a, n - 1), letters), 1, 0)),
                  patterns=[f(a, n)]),
    ]


def cat_char():
    return z3.Function("cat_Int", CharArr, z3.IntSort(), CharArr, CharArr)


def rev_char():
    return z3.Function("rev_Int", CharArr, z3.IntSort(), CharArr)


def rep_char():
    return z3.Function("rep_Int", z3.IntSort(), CharArr)


def slc_char():
    return z3.Function("slc_Int", CharArr, z3.IntSort(), CharArr)


def cnt_lemmas(letters):
    """Lemmas about cnt, each proved by induction in pyvc/lemmas.py (name -> formula)."""
    f = cnt_fn(letters)
    a, b = z3.Consts("cl!a cl!b", CharArr)
    n, m, v, an, lo = z3.Ints("cl!n cl!m cl!v cl!an cl!lo")
    mem = lambda x: z3.If(letters_member(x, letters), 1, 0)
    L = {}
    L["range"] = z3.ForAll([a, n], z3.And(f(a, n) >= 0, z3.Implies(n >= 0, f(a, n) <= n)), patterns=[f(a, n)])
    L["mono"] = z3.ForAll([a, n, m], z3.Implies(z3.And(0 <= m, m <= n), z3.And(f(a, m) <= f(a, n), f(a, n) - f(a, m) <= n - m)),
                          patterns=[z3.MultiPattern(f(a, n), f(a, m))])
    L["store"] = z3.ForAll([a, n, m, v], z3.Implies(m >= n, f(z3.Store(a, m, v), n) == f(a, n)), patterns=[f(z3.Store(a, m, v), n)])
    rep = rep_char()
    L["const"] = z3.ForAll([v, n], z3.Implies(n >= 0, f(rep(v), n) == z3.If(letters_member(v, letters), n, 0)), patterns=[f(rep(v), n)])
    cat = cat_char()
    L["cat-low"] = z3.ForAll([a, an, b, m], z3.Implies(m <= an, f(cat(a, an, b), m) == f(a, m)), patterns=[f(cat(a, an, b), m)])
    L["cat-high"] = z3.ForAll([a, an, b, m], z3.Implies(z3.And(0 <= an, an <= m), f(cat(a, an, b), m) == f(a, an) + f(b, m - an)),
                              patterns=[f(cat(a, an, b), m)])
    rev = rev_char()
    L["rev"] = z3.ForAll([a, n, m], z3.Implies(z3.And(0 <= m, m <= n), f(rev(a, n), m) == f(a, n) - f(a, n - m)), patterns=[f(rev(a, n), m)])
    slc = slc_char()
    L["slc"] = z3.ForAll([a, lo, m], z3.Implies(z3.And(0 <= lo, 0 <= m), f(slc(a, lo), m) == f(a, lo + m) - f(a, lo)), patterns=[f(slc(a, lo), m)])
    return L


def char_defs():
    """Definitional axioms of cat/rev/slc on character arrays (same text as core.*_fn emits)."""
    a, b = z3.Consts("df!a df!b", CharArr)
    n, i = z3.Ints("df!n df!i")
    cat, rev, slc, rep = cat_char(), rev_char(), slc_char(), rep_char()
    return [
        z3.ForAll([n, i], z3.Select(rep(n), i) == n, patterns=[z3.Select(rep(n), i)]),
        z3.ForAll([a, n, b, i], z3.Select(cat(a, n, b), i) == z3.If(i < n, z3.Select(a, i), z3.Select(b, i - n)), patterns=[z3.Select(cat(a, n, b), i)]),
        z3.ForAll([a, n, i], z3.Select(rev(a, n), i) == z3.Select(a, n - 1 - i), patterns=[z3.Select(rev(a, n), i)]),
        z3.ForAll([a, n, i], z3.Select(slc(a, n), i) == z3.Select(a, n + i), patterns=[z3.Select(slc(a, n), i)]),
    ]


CNT_SETS = ["md", "mi", "mxd", "mxi", "m"]


def axioms_cnt():
    out = []
    for s in CNT_SETS:
        out.extend(cnt_def(s))
        out.extend(cnt_lemmas(s).values())
    return out


# ------------------------------------------------------------------------------------------------
# spec functions (symbolic semantics)


def s_T(I, v):
    t = I.truth(v)
    return t if isinstance(t, bool) else SV(t, BOOL)


def s_implies(I, a, b):
    return SV(z3.Implies(I.zbool(a), I.zbool(b)), BOOL)


def s_iff(I, a, b):
    return SV(I.zbool(a) == I.zbool(b), BOOL)


def s_ite(I, c, a, b):
    from .calls import _ite

    return _ite(I, I.zbool(c), a, b)


def s_cnt(I, s, letters, upto=None):
    l = as_slist(I.ctx, s)
    n = l.nz() if upto is None else zint(upto)
    return SV(cnt_fn(letters)(l.arr, n), INT)


def s_all_in(I, s, letters):
    l = as_slist(I.ctx, s)
    i = z3.Int(I.ctx.fresh_name("ai"))
    return SV(forall([i], z3.Implies(z3.And(0 <= i, i < l.nz()), letters_member(z3.Select(l.arr, i), letters)),
                     patterns=[z3.Select(l.arr, i)]), BOOL)


def val_fn(name, *sorts):
    return z3.Function(name, *sorts)


def Val():
    return z3.DeclareSort("Val")


def s_eq(I, a, b):
    return user_cmp_hook(I, "eq", a, b, None)


def user_cmp_hook(I, opname, a, b, node):
    """`a OP b` on abstract values: an uninterpreted, deterministic, side-effect free function of the
    operands (PS7) returning a Val; truthiness via truthy_Val."""
    V = Val()
    if isinstance(a, Opaque) or isinstance(b, Opaque):
        return Opaque(f"{opname}(...)")
    za = val_term(I, a)
    zb = val_term(I, b)
    if opname == "ne":
        f = z3.Function("ne_Val", V, V, V)
    else:
        f = z3.Function(f"{opname}_Val", V, V, V)
    hook = I.V.c.ghost.get("cmp_may_raise")
    if hook:
        hook(I, opname, za, zb, node)
    return SV(f(za, zb), Abs("Val"))


def val_term(I, v):
    if isinstance(v, SV) and v.ty == Abs("Val"):
        return v.t
    if v is Ellipsis:
        return I.V.undefined_const(Abs("Val"))
    if v is None:
        return z3.Const("NoneVal", Val())
    if isinstance(v, bool):
        return z3.Const("TrueVal" if v else "FalseVal", Val())
    if isinstance(v, SV) and v.ty == BOOL:
        return z3.If(v.t, z3.Const("TrueVal", Val()), z3.Const("FalseVal", Val()))
    if isinstance(v, SList) and v.ety == Abs("Val"):
        f = z3.Function("listval", sort_of(v.ty), Val())
        return f(pack(I.ctx, v, v.ty))
    raise Unsupported(f"not an abstract value: {v!r}")


def user_contains_hook(I, lst, item, node):
    """`item in lst` for a list of abstract values: exists i. lst[i] is item or lst[i] == item"""
    V = Val()
    eqf = z3.Function("eq_Val", V, V, V)
    tr = z3.Function("truthy_Val", V, z3.BoolSort())
    it = val_term(I, item)
    i = z3.Int(I.ctx.fresh_name("ci"))
    return SV(z3.Exists([i], z3.And(0 <= i, i < lst.nz(), z3.Or(z3.Select(lst.arr, i) == it, tr(eqf(z3.Select(lst.arr, i), it))))), BOOL)


SPEC_NS = {
    "T": s_T,
    "implies": s_implies,
    "iff": s_iff,
    "ite": s_ite,
    "cnt": s_cnt,
    "all_in": s_all_in,
    "eq": s_eq,
    "user_cmp_hook": user_cmp_hook,
    "user_contains_hook": user_contains_hook,
}

AXIOM_SETS = {
    "cnt": axioms_cnt,
}
