"""B-align: small-scope enumeration of the real alignment kernels (bounded stand-in and native witness search).

Bound: all pairs of sequences over a 3-letter alphabet up to length 4 (quick) / 5 (thorough) for align and nw_align;
all scripts over {m,i,d} up to length 7 (quick) / 9 (thorough) for add_x."""
from __future__ import annotations

import itertools

from bounded import NATIVE_WITNESS, standin


def _lcs(a, b):
    t = [[0] * (len(b) + 1) for _ in range(len(a) + 1)]
    for i, x in enumerate(a, 1):
        for j, y in enumerate(b, 1):
            t[i][j] = max(t[i - 1][j], t[i][j - 1], (t[i - 1][j - 1] + 1) if x == y else 0)
    return t[len(a)][len(b)]


def check_script(a, b, s, maximal):
    """-> None or a message: is s a valid edit script from a to b (every m pairs equal elements)?"""
    if any(c not in "mid" for c in s):
        return f"letters outside m,i,d: {s!r}"
    ia = ib = 0
    for c in s:
        if c == "m":
            if ia >= len(a) or ib >= len(b) or a[ia] != b[ib]:
                return f"'m' pairs unequal / missing elements at ({ia},{ib})"
            ia += 1
            ib += 1
        elif c == "d":
            ia += 1
        else:
            ib += 1
    if ia != len(a) or ib != len(b):
        return f"consumes {ia}/{len(a)} old and {ib}/{len(b)} new elements"
    if maximal and s.count("m") != _lcs(a, b):
        return f"keeps {s.count('m')} elements, a longest common subsequence has {_lcs(a, b)}"
    return None


def check_align(a, b, s):
    msg = check_script(a, b, s, maximal=False)
    if msg:
        return msg
    p = 0
    while p < min(len(a), len(b)) and a[p] == b[p]:
        p += 1
    if s[:p] != "m" * p:
        return f"common prefix of length {p} not kept"
    q = 0
    while q < min(len(a), len(b)) - p and a[len(a) - 1 - q] == b[len(b) - 1 - q]:
        q += 1
    if q and s[-q:] != "m" * q:
        return f"common suffix of length {q} not kept"
    return None


def check_add_x(t, r):
    if any(c not in "midx" for c in r):
        return "letters"
    if sum(c in "mxd" for c in r) != sum(c in "md" for c in t) or sum(c in "mxi" for c in r) != sum(c in "mi" for c in t):
        return "consumption changed"
    return None


def seqs(alpha, n):
    for k in range(n + 1):
        yield from itertools.product(alpha, repeat=k)


def search(which, n):
    from inline_snapshot import _align

    count = 0
    if which in ("align", "nw_align"):
        fn = getattr(_align, which)
        for a in seqs("abc", n):
            for b in seqs("abc", n):
                count += 1
                try:
                    s = fn(list(a), list(b))
                    msg = check_align(a, b, s) if which == "align" else check_script(a, b, s, maximal=True)
                except Exception as ex:
                    msg = f"{type(ex).__name__}: {ex}"
                if msg:
                    return count, (list(a), list(b)), msg
    else:
        for k in range(n + 1):
            for t in itertools.product("mid", repeat=k):
                count += 1
                t = "".join(t)
                try:
                    msg = check_add_x(t, _align.add_x(t))
                except Exception as ex:
                    msg = f"{type(ex).__name__}: {ex}"
                if msg:
                    return count, (t,), msg
    return count, None, None


REPLAY = '''from inline_snapshot import _align
import sys
sys.path.insert(0, "/verif")
from bounded.b_align import check_align, check_script, check_add_x
args = {args!r}
which = {which!r}
r = getattr(_align, which)(*args)
msg = check_align(*args, r) if which == "align" else check_script(*args, r, True) if which == "nw_align" else check_add_x(*args, r)
print(which, args, "->", r, "::", msg)
assert msg is None, msg
'''


def _witness(which):
    def f(obligation):
        _, args, msg = search(which, 4 if which != "add_x" else 8)
        if args is None:
            return None
        return REPLAY.format(args=args, which=which)

    return f


for _w in ("align", "nw_align", "add_x"):
    NATIVE_WITNESS[f"inline_snapshot._align.{_w}"] = _witness(_w)
NATIVE_WITNESS["inline_snapshot._align.nw_align#lcs"] = _witness("nw_align")


@standin("B-align", props=["C11"], bound="all pairs of sequences over 3 letters up to length 4 (quick) / 5 (thorough); add_x scripts up to length 7 / 9")
def run(tier, seed):
    n = 4 if tier == "quick" else 5
    fails, total, samples = [], 0, []
    for which, m in (("align", n), ("nw_align", n), ("add_x", 7 if tier == "quick" else 9)):
        c, args, msg = search(which, m)
        total += c
        samples.append(f"{which}: {c} inputs")
        if args is not None:
            fails.append(dict(finding=None, input=f"{which}{args!r}", detail=msg, replay_code=REPLAY.format(args=args, which=which)))
    return dict(evaluated=total, distinct=total, failures=fails, samples=samples,
                cross_checks=["X9 max/groupby/zip/reversed on the enumerated inputs"])
