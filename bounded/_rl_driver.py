"""Shared driver for the B-rt / B-layout stand-ins (not a stand-in itself: name does not start with b_).

Everything here only *drives and observes* the real pipeline of /repo:

* run_case()          -> inline_snapshot.testing.Example(...).run_inline([...]) in a worker process
* rerun_identity()    -> exec of the rewritten module with `inline_snapshot.snapshot` := identity
* snapshot_calls()    -> ast + asttokens positions of the `snapshot(...)` calls of a source text
* pool_run()          -> fork pool with a wall-clock deadline (falls back to in-process when forking is impossible)

No part of the rewriting (value -> code, alignment, text replacement, formatting) is re-implemented.
"""
from __future__ import annotations

import ast
import contextlib
import io
import os
import shutil
import sys
import tempfile
import time
import traceback
import warnings



# --------------------------------------------------------------------------------------------------
# the in-process driver
# --------------------------------------------------------------------------------------------------
class _Capture:
    """`raises=` argument accepting whatever the tests raised (records the text)."""

    def __init__(self):
        self.text = None

    def __eq__(self, other):
        self.text = other
        return True

    def __ne__(self, other):  # pragma: no cover
        return False

    __hash__ = None


def _example_class():
    from inline_snapshot.testing import Example

    class QuietExample(Example):
        # observation only: no printing, and files are read back without newline translation
        def dump_files(self):
            pass

        def _read_files(self, dir):
            res = {}
            for p in [*dir.iterdir(), *dir.rglob("*.py")]:
                if p.is_file():
                    try:
                        res[str(p.relative_to(dir))] = p.read_bytes().decode("utf-8")
                    except UnicodeDecodeError:
                        pass
            return res

    return QuietExample


def run_case(files, flags, chdir_files=None):
    """Run Example(files).run_inline(["--inline-snapshot=<flags>"]).

    chdir_files: optional {name: content}; when given the worker chdir()s into a fresh directory holding these
    files for the duration of the run (black looks for pyproject.toml starting at the *cwd*, see B-layout notes).

    returns dict(files=<after>, raised=<text of exceptions raised by tests | None>, error=<traceback | None>,
                 warnings=[...])
    """
    QE = _example_class()
    cap = _Capture()
    out = dict(files=None, raised=None, error=None, warnings=[])
    old_cwd = os.getcwd()
    tmp = None
    sink = io.StringIO()
    try:
        if chdir_files is not None:
            tmp = tempfile.mkdtemp(prefix="bnd_cwd_")
            for n, c in chdir_files.items():
                with open(os.path.join(tmp, n), "w", encoding="utf-8", newline="") as f:
                    f.write(c)
            os.chdir(tmp)
        _clear_black_caches()
        with warnings.catch_warnings(record=True) as wlist, contextlib.redirect_stdout(sink), contextlib.redirect_stderr(sink):
            warnings.simplefilter("always")
            try:
                res = QE(dict(files)).run_inline(["--inline-snapshot=" + flags], raises=cap)
                out["files"] = dict(res.files)
            except BaseException as ex:  # noqa: B902 - everything is a finding of the case, never of the harness
                if isinstance(ex, (KeyboardInterrupt, SystemExit)):
                    raise
                out["error"] = "".join(traceback.format_exception(type(ex), ex, ex.__traceback__))[-4000:]
        out["raised"] = cap.text
        out["warnings"] = [f"{w.category.__name__}: {w.message}" for w in wlist]
    finally:
        os.chdir(old_cwd)
        if tmp is not None:
            shutil.rmtree(tmp, ignore_errors=True)
    return out


def _clear_black_caches():
    try:
        import black.files as bf

        for name in ("find_project_root", "find_user_pyproject_toml"):
            f = getattr(bf, name, None)
            if f is not None and hasattr(f, "cache_clear"):
                f.cache_clear()
    except Exception:
        pass


# --------------------------------------------------------------------------------------------------
# "inline-snapshot disabled": snapshot := identity
# --------------------------------------------------------------------------------------------------
def rerun_identity(src, filename="<rewritten test_something.py>"):
    """exec `src` with inline_snapshot.snapshot replaced by the identity and call every test_* function.

    returns dict(compiles, compile_error, errors=[(where, exc type name, str(exc), short traceback)],
                 snap_args=[values passed to snapshot(), in call order], ns=<module globals>)
    """
    import inline_snapshot

    res = dict(compiles=True, compile_error=None, errors=[], snap_args=[], ns=None)
    try:
        code = compile(src.replace("\r\n", "\n"), filename, "exec")
    except SyntaxError as ex:
        res["compiles"] = False
        res["compile_error"] = f"{type(ex).__name__}: {ex}"
        return res

    rec = res["snap_args"]

    def identity(x=...):
        rec.append(x)
        return x

    real = inline_snapshot.snapshot
    inline_snapshot.snapshot = identity
    sink = io.StringIO()
    try:
        ns: dict = {}
        with warnings.catch_warnings(), contextlib.redirect_stdout(sink), contextlib.redirect_stderr(sink):
            warnings.simplefilter("ignore")
            try:
                exec(code, ns)
            except Exception as ex:
                res["errors"].append(("<module>", type(ex).__name__, str(ex)[:500], traceback.format_exc()[-1200:]))
                res["ns"] = ns
                return res
            tests = [(k, v) for k, v in ns.items() if (k.startswith("test_") or k == "test") and callable(v)]
            for k, v in tests:
                try:
                    v()
                except Exception as ex:
                    res["errors"].append((k, type(ex).__name__, str(ex)[:500], traceback.format_exc()[-1200:]))
        res["ns"] = ns
    finally:
        inline_snapshot.snapshot = real
    return res


# --------------------------------------------------------------------------------------------------
# locating snapshot(...) calls
# --------------------------------------------------------------------------------------------------
def snapshot_calls(src, names=("snapshot",)):
    """[(open_paren_end_offset, close_paren_start_offset, call node)] of every `snapshot(...)` call, in text order.

    Offsets are str offsets into `src`; src[a-1] == "(" and src[b] == ")".  Uses ast + asttokens only.
    """
    import asttokens

    atok = asttokens.ASTTokens(src, parse=True)
    res = []
    for node in ast.walk(atok.tree):
        if isinstance(node, ast.Call) and isinstance(node.func, ast.Name) and node.func.id in names:
            func_last = list(atok.get_tokens(node.func))[-1]
            lpar = atok.next_token(func_last)
            rpar = list(atok.get_tokens(node))[-1]
            if lpar.string != "(" or rpar.string != ")":
                raise AssertionError(f"cannot locate the parentheses of {ast.dump(node)[:80]}")
            a, b = lpar.endpos, rpar.startpos
            if src[a - 1] != "(" or src[b] != ")":
                raise AssertionError("asttokens offsets do not point at the parentheses")
            res.append((a, b, node))
    res.sort(key=lambda t: t[0])
    return res


def mask_calls(src, which=None, placeholder="\x00"):
    """src with the text between the parentheses of the selected snapshot calls (indices in text order; None = all)
    replaced by a placeholder; nested selected calls are handled by masking the outermost only."""
    calls = snapshot_calls(src)
    spans = [(a, b) for i, (a, b, _) in enumerate(calls) if which is None or i in which]
    spans.sort()
    out = []
    pos = 0
    for a, b in spans:
        if a < pos:
            continue  # nested inside a span that is masked already
        out.append(src[pos:a])
        out.append(placeholder)
        pos = b
    out.append(src[pos:])
    return "".join(out), calls


# --------------------------------------------------------------------------------------------------
# pool
# --------------------------------------------------------------------------------------------------
def _init_worker(base=None):
    try:
        sys.stdout = open(os.devnull, "w")
        sys.stderr = open(os.devnull, "w")
    except Exception:
        pass
    if base:
        # every temp dir of the worker (its own and run_inline's) lives under `base`, which the parent removes
        tempfile.tempdir = base
        os.environ["TMPDIR"] = base


def _guarded(fn, arg):
    try:
        return fn(arg)
    except BaseException as ex:  # noqa: B902
        if isinstance(ex, (KeyboardInterrupt, SystemExit)):
            raise
        return dict(_harness_error="".join(traceback.format_exception(type(ex), ex, ex.__traceback__))[-3000:], _arg=arg)


def pool_run(fn, args, workers, deadline):
    """Apply the module-level function fn to every arg in worker processes until `deadline` (time.time()).

    returns (results, not_run) — results in completion order, each paired (arg, result)."""
    args = list(args)
    results = []
    if not args:
        return results, 0
    pool = None
    base = tempfile.mkdtemp(prefix="bnd_pool_")
    try:
        import multiprocessing as mp

        ctx = mp.get_context("fork")
        pool = ctx.Pool(processes=max(1, min(workers, len(args))), initializer=_init_worker, initargs=(base,), maxtasksperchild=400)
    except Exception:
        pool = None
    if pool is None:
        # last resort: in-process (snapshot_env() isolates the state, but this is not the preferred mode)
        old_tmp = tempfile.tempdir
        tempfile.tempdir = base
        try:
            for a in args:
                if time.time() > deadline:
                    break
                results.append((a, _guarded(fn, a)))
        finally:
            tempfile.tempdir = old_tmp
            shutil.rmtree(base, ignore_errors=True)
        return results, len(args) - len(results)
    try:
        k = max(1, min(6, len(args) // (workers * 10) or 1))
        batches = [(fn, args[i : i + k]) for i in range(0, len(args), k)]
        it = pool.imap_unordered(_call_batch, batches, chunksize=1)
        while True:
            remaining = deadline - time.time()
            if remaining <= 0:
                break
            try:
                results.extend(it.next(timeout=max(0.05, remaining)))
            except StopIteration:
                break
            except Exception as ex:
                if type(ex).__name__ == "TimeoutError":
                    break
                raise
    finally:
        pool.terminate()
        pool.join()
        shutil.rmtree(base, ignore_errors=True)
    return results, len(args) - len(results)


def _call_batch(packed):
    import copy

    fn, batch = packed
    out = []
    for arg in batch:
        keep = copy.deepcopy(arg)  # the function may decorate its argument with unpicklable values
        out.append((keep, _guarded(fn, arg)))
    return out


def requested_props(all_props, explicit=None):
    """Which properties of a multi-property stand-in to run.

    bounded.run_standin(name, pid, tier, seed) calls fn(tier, seed) and does not hand the property id over, so it is taken,
    in this order, from: the optional third argument of run(), the environment variable BOUNDED_ONLY_PROPS (comma separated),
    the local variable `pid` of the calling run_standin frame.  Unknown / absent -> all properties."""
    all_props = list(all_props)
    if explicit:
        return [explicit] if explicit in all_props else all_props
    env = os.environ.get("BOUNDED_ONLY_PROPS")
    if env:
        sel = [p for p in all_props if p in env.split(",")]
        return sel or all_props
    try:
        f = sys._getframe(2)
        for _ in range(4):
            if f is None:
                break
            if f.f_code.co_name == "run_standin" and "pid" in f.f_locals:
                pid = f.f_locals["pid"]
                return [pid] if pid in all_props else all_props
            f = f.f_back
    except Exception:
        pass
    return all_props


def short(s, n=300):
    s = str(s)
    return s if len(s) <= n else s[: n - 3] + "..."


REPLAY_PRELUDE = '''\
# stand-alone replay against /repo (run with /verif/.venv/bin/python); exits non-zero / AssertionError when it fails
import sys, io, os, contextlib, tempfile, shutil
from inline_snapshot.testing import Example
import inline_snapshot

class _Cap:
    text = None
    def __eq__(self, o):
        self.text = o
        return True

class _Ex(Example):
    def dump_files(self):
        pass
    def _read_files(self, dir):
        return {str(p.relative_to(dir)): p.read_bytes().decode("utf-8") for p in [*dir.iterdir(), *dir.rglob("*.py")] if p.is_file()}

def run_inline(files, flags, cwd_files=None):
    cap = _Cap()
    old = os.getcwd()
    tmp = None
    try:
        if cwd_files is not None:
            tmp = tempfile.mkdtemp()
            for n, c in cwd_files.items():
                open(os.path.join(tmp, n), "w", encoding="utf-8", newline="").write(c)
            os.chdir(tmp)
        with contextlib.redirect_stdout(io.StringIO()), contextlib.redirect_stderr(io.StringIO()):
            res = _Ex(dict(files)).run_inline(["--inline-snapshot=" + flags], raises=cap)
    finally:
        os.chdir(old)
        if tmp:
            shutil.rmtree(tmp, ignore_errors=True)
    return dict(res.files), cap.text

def rerun_identity(src):
    """exec the rewritten module with snapshot := identity and run every test_* function"""
    real = inline_snapshot.snapshot
    inline_snapshot.snapshot = lambda x=...: x
    try:
        ns = {}
        exec(compile(src.replace("\\r\\n", "\\n"), "<rewritten>", "exec"), ns)
        for k, v in list(ns.items()):
            if (k.startswith("test_") or k == "test") and callable(v):
                v()
    finally:
        inline_snapshot.snapshot = real
'''
