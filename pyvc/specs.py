"""Spec functions shared by the sidecar contracts (symbolic semantics) and their lemmas.

Spec functions are callables f(I, *args) over interpreter values.  Axiomatised ones come with
*lemmas* that are themselves proved by induction with z3 (pyvc/lemmas.py) before they are used as
axioms, so nothing in here is an unproved assumption except where a name starts with `X` (assumed
contracts on dependencies, DESIGN.md section 7).
"""
from __future__ import annotations

import z3

from .core import forall, Unsupported, as_slist, is_sym, pack, unpack, zint
from .interp import _MISSING, PyList
from .types import BOOL, CHAR, INT, STR, Abs, Opaque, SList, SV, sort_of

CharArr = z3.ArraySort(z3.IntSort(), z3.IntSort())


def letters_member(x, letters: str):
    return z3.Or([x == ord(c) for c in letters])


def cnt_fn(letters: str):
    """cnt_<letters>(a, n) = number of i < n with a[i] in letters"""
    return z3.Function("cnt_" + "".join(sorted(letters)), CharArr, z3.IntSort(), z3.IntSort())


def cnt_def(letters):
    f = cnt_fn(letters)
    a = z3.Const("cd!a", CharArr)
    n = z3.Int("cd!n")
    return [
        z3.ForAll([a, n], z3.Implies(n <= 0, f(a, n) == 0), patterns=[f(a, n)]),
        z3.ForAll([a, n], z3.Implies(n > 0, f(a, n) == f(a, n - 1) + z3.If(letters_member(z3.Select(a, n - 1), letters), 1, 0)),
                  patterns=[f(a, n)]),
    ]


def cat_char():
    return z3.Function("cat_Int", CharArr, z3.IntSort(), CharArr, CharArr)


def rev_char():
    return z3.Function("rev_Int", CharArr, z3.IntSort(), CharArr)


def rep_char():
    return z3.Function("rep_Int", z3.IntSort(), CharArr)


def slc_char():
    return z3.Function("slc_Int", CharArr, z3.IntSort(), CharArr)


def cnt_lemmas(letters):
    """Lemmas about cnt, each proved by induction in pyvc/lemmas.py (name -> formula)."""
    f = cnt_fn(letters)
    a, b = z3.Consts("cl!a cl!b", CharArr)
    n, m, v, an, lo = z3.Ints("cl!n cl!m cl!v cl!an cl!lo")
    mem = lambda x: z3.If(letters_member(x, letters), 1, 0)
    L = {}
    L["range"] = z3.ForAll([a, n], z3.And(f(a, n) >= 0, z3.Implies(n >= 0, f(a, n) <= n)), patterns=[f(a, n)])
    L["mono"] = z3.ForAll([a, n, m], z3.Implies(z3.And(0 <= m, m <= n), z3.And(f(a, m) <= f(a, n), f(a, n) - f(a, m) <= n - m)),
                          patterns=[z3.MultiPattern(f(a, n), f(a, m))])
    L["store"] = z3.ForAll([a, n, m, v], z3.Implies(m >= n, f(z3.Store(a, m, v), n) == f(a, n)), patterns=[f(z3.Store(a, m, v), n)])
    rep = rep_char()
    L["const"] = z3.ForAll([v, n], z3.Implies(n >= 0, f(rep(v), n) == z3.If(letters_member(v, letters), n, 0)), patterns=[f(rep(v), n)])
    cat = cat_char()
    L["cat-low"] = z3.ForAll([a, an, b, m], z3.Implies(m <= an, f(cat(a, an, b), m) == f(a, m)), patterns=[f(cat(a, an, b), m)])
    L["cat-high"] = z3.ForAll([a, an, b, m], z3.Implies(z3.And(0 <= an, an <= m), f(cat(a, an, b), m) == f(a, an) + f(b, m - an)),
                              patterns=[f(cat(a, an, b), m)])
    rev = rev_char()
    L["rev"] = z3.ForAll([a, n, m], z3.Implies(z3.And(0 <= m, m <= n), f(rev(a, n), m) == f(a, n) - f(a, n - m)), patterns=[f(rev(a, n), m)])
    slc = slc_char()
    L["slc"] = z3.ForAll([a, lo, m], z3.Implies(z3.And(0 <= lo, 0 <= m), f(slc(a, lo), m) == f(a, lo + m) - f(a, lo)), patterns=[f(slc(a, lo), m)])
    return L


def char_defs():
    """Definitional axioms of cat/rev/slc on character arrays (same text as core.*_fn emits)."""
    a, b = z3.Consts("df!a df!b", CharArr)
    n, i = z3.Ints("df!n df!i")
    cat, rev, slc, rep = cat_char(), rev_char(), slc_char(), rep_char()
    return [
        z3.ForAll([n, i], z3.Select(rep(n), i) == n, patterns=[z3.Select(rep(n), i)]),
        z3.ForAll([a, n, b, i], z3.Select(cat(a, n, b), i) == z3.If(i < n, z3.Select(a, i), z3.Select(b, i - n)), patterns=[z3.Select(cat(a, n, b), i)]),
        z3.ForAll([a, n, i], z3.Select(rev(a, n), i) == z3.Select(a, n - 1 - i), patterns=[z3.Select(rev(a, n), i)]),
        z3.ForAll([a, n, i], z3.Select(slc(a, n), i) == z3.Select(a, n + i), patterns=[z3.Select(slc(a, n), i)]),
    ]


CNT_SETS = ["md", "mi", "mxd", "mxi", "m"]


def axioms_cnt():
    out = []
    for s in CNT_SETS:
        out.extend(cnt_def(s))
        out.extend(cnt_lemmas(s).values())
    return out


# ------------------------------------------------------------------------------------------------
# spec functions (symbolic semantics)


def s_T(I, v):
    t = I.truth(v)
    return t if isinstance(t, bool) else SV(t, BOOL)


def s_implies(I, a, b):
    return SV(z3.Implies(I.zbool(a), I.zbool(b)), BOOL)


def s_iff(I, a, b):
    return SV(I.zbool(a) == I.zbool(b), BOOL)


def s_ite(I, c, a, b):
    from .calls import _ite

    return _ite(I, I.zbool(c), a, b)


def s_cnt(I, s, letters, upto=None):
    l = as_slist(I.ctx, s)
    n = l.nz() if upto is None else zint(upto)
    return SV(cnt_fn(letters)(l.arr, n), INT)


def s_all_in(I, s, letters):
    l = as_slist(I.ctx, s)
    i = z3.Int(I.ctx.fresh_name("ai"))
    return SV(forall([i], z3.Implies(z3.And(0 <= i, i < l.nz()), letters_member(z3.Select(l.arr, i), letters)),
                     patterns=[z3.Select(l.arr, i)]), BOOL)


def val_fn(name, *sorts):
    return z3.Function(name, *sorts)


def Val():
    return z3.DeclareSort("Val")


def s_eq(I, a, b):
    return user_cmp_hook(I, "eq", a, b, None)


def user_cmp_hook(I, opname, a, b, node):
    """`a OP b` on abstract values: an uninterpreted, deterministic, side-effect free function of the
    operands (PS7) returning a Val; truthiness via truthy_Val."""
    V = Val()
    if isinstance(a, Opaque) or isinstance(b, Opaque):
        return Opaque(f"{opname}(...)")
    za = val_term(I, a)
    zb = val_term(I, b)
    if opname == "ne":
        f = z3.Function("ne_Val", V, V, V)
    else:
        f = z3.Function(f"{opname}_Val", V, V, V)
    hook = I.V.c.ghost.get("cmp_may_raise")
    if hook:
        hook(I, opname, za, zb, node)
    return SV(f(za, zb), Abs("Val"))


def val_term(I, v):
    if isinstance(v, SV) and v.ty == Abs("Val"):
        return v.t
    if v is Ellipsis:
        return I.V.undefined_const(Abs("Val"))
    if v is None:
        return z3.Const("NoneVal", Val())
    if isinstance(v, bool):
        return z3.Const("TrueVal" if v else "FalseVal", Val())
    if isinstance(v, SV) and v.ty == BOOL:
        return z3.If(v.t, z3.Const("TrueVal", Val()), z3.Const("FalseVal", Val()))
    if isinstance(v, SV) and isinstance(v.ty, Abs) and v.ty.key in ("DictV", "SeqV"):
        # a dict / sequence value seen as a plain value (injection into Val)
        return z3.Function(f"{v.ty.key}_as_val", sort_of(v.ty), Val())(v.t)
    if isinstance(v, SList) and v.ety == Abs("Val"):
        f = z3.Function("listval", sort_of(v.ty), Val())
        return f(pack(I.ctx, v, v.ty))
    if isinstance(v, SV) and v.ty == STR:
        return z3.Function("strval", z3.StringSort(), Val())(v.t)  # a string seen as a plain value (injection into Val)
    raise Unsupported(f"not an abstract value: {v!r}")


def user_contains_hook(I, lst, item, node):
    """`item in lst` for a list of abstract values: exists i. lst[i] is item or lst[i] == item"""
    V = Val()
    eqf = z3.Function("eq_Val", V, V, V)
    tr = z3.Function("truthy_Val", V, z3.BoolSort())
    it = val_term(I, item)
    i = z3.Int(I.ctx.fresh_name("ci"))
    return SV(z3.Exists([i], z3.And(0 <= i, i < lst.nz(), z3.Or(z3.Select(lst.arr, i) == it, tr(eqf(z3.Select(lst.arr, i), it))))), BOOL)


SPEC_NS = {
    "T": s_T,
    "implies": s_implies,
    "iff": s_iff,
    "ite": s_ite,
    "cnt": s_cnt,
    "all_in": s_all_in,
    "eq": s_eq,
    "user_cmp_hook": user_cmp_hook,
    "user_contains_hook": user_contains_hook,
}

AXIOM_SETS = {
    "cnt": axioms_cnt,
}


# ------------------------------------------------------------------------------------------------
# run-length groups (itertools.groupby), assumed contract X9

def _groups_sorts():
    from .types import parse_ty

    gt = parse_ty("Tuple[Char,Int]")
    return gt, sort_of(gt), z3.ArraySort(z3.IntSort(), sort_of(gt))


def gsum_fn(letters):
    gt, gs, GA = _groups_sorts()
    return z3.Function("gsum_" + "".join(sorted(letters)), GA, z3.IntSort(), z3.IntSort())


def gsum_def(letters):
    """gsum(G, i) = sum over j < i of (G[j].n if G[j].c in letters else 0)"""
    gt, gs, GA = _groups_sorts()
    f = gsum_fn(letters)
    g = z3.Const("gd!g", GA)
    n = z3.Int("gd!n")
    c = gs.accessor(0, 0)
    k = gs.accessor(0, 1)
    return [
        z3.ForAll([g, n], z3.Implies(n <= 0, f(g, n) == 0), patterns=[f(g, n)]),
        z3.ForAll([g, n], z3.Implies(n > 0, f(g, n) == f(g, n - 1) + z3.If(letters_member(c(z3.Select(g, n - 1)), letters), k(z3.Select(g, n - 1)), 0)),
                  patterns=[f(g, n)]),
    ]


def axioms_gsum():
    out = []
    for s in ("md", "mi"):
        out.extend(gsum_def(s))
    return out


def s_gsum(I, groups, letters, upto):
    from .core import as_slist

    return SV(gsum_fn(letters)(groups.arr, zint(upto)), INT)


def x9_groupby_runs(I, n, env):
    """Assumed contract X9 for `[(c, len(list(v))) for c, v in groupby(track)]`:
    the result G is the run-length encoding of track -- every run is non-empty, adjacent runs have
    different letters, every letter of G occurs in track, and for each letter set S the number of
    letters of track in S equals the sum of the lengths of the runs whose letter is in S."""
    from .core import fresh_value
    from .types import parse_ty

    gen = n.generators[0]
    track = I.eval(gen.iter.args[0], env)
    tl = as_slist(I.ctx, track)
    gty = parse_ty("List[Tuple[Char,Int]]")
    G = fresh_value(I.ctx, gty, "groups")
    G.immutable = False
    gt, gs, GA = _groups_sorts()
    c = gs.accessor(0, 0)
    k = gs.accessor(0, 1)
    i = z3.Int(I.ctx.fresh_name("gi"))
    I.ctx.assume(forall([i], z3.Implies(z3.And(0 <= i, i < G.nz()), k(z3.Select(G.arr, i)) >= 1), patterns=[z3.Select(G.arr, i)]), tag="X9")
    j = z3.Int(I.ctx.fresh_name("gj"))
    I.ctx.assume(forall([j], z3.Implies(z3.And(0 <= j, j + 1 < G.nz()), c(z3.Select(G.arr, j)) != c(z3.Select(G.arr, j + 1))), patterns=[z3.Select(G.arr, j)]), tag="X9")
    for S in ("md", "mi"):
        I.ctx.assume(cnt_fn(S)(tl.arr, tl.nz()) == gsum_fn(S)(G.arr, G.nz()), tag="X9")
    # letters of the groups are letters of the track
    q = z3.Int(I.ctx.fresh_name("gq"))
    w = z3.Int(I.ctx.fresh_name("gw"))
    I.ctx.assume(forall([q], z3.Implies(z3.And(0 <= q, q < G.nz()), z3.Exists([w], z3.And(0 <= w, w < tl.nz(), z3.Select(tl.arr, w) == c(z3.Select(G.arr, q))))), patterns=[z3.Select(G.arr, q)]), tag="X9")
    I.ctx.assume(z3.Implies(tl.nz() == 0, G.nz() == 0), tag="X9")
    return G


SPEC_NS["gsum"] = s_gsum
AXIOM_SETS["gsum"] = axioms_gsum


# ------------------------------------------------------------------------------------------------
# abstract values: deepcopy, truth constants, order axioms (E1/E2 are used only where a contract says so)

def _V():
    return Val()


def s_deepcopy(I, v):
    f = z3.Function("deepcopy_Val", _V(), _V())
    return SV(f(val_term(I, v)), Abs("Val"))


def _cmpf(name):
    return z3.Function(f"{name}_Val", _V(), _V(), _V())


def _tr():
    return z3.Function("truthy_Val", _V(), z3.BoolSort())


def axioms_val():
    """Python's True/False as abstract values."""
    V = _V()
    x = z3.Const("vx!x", V)
    dc = z3.Function("deepcopy_Val", V, V)
    und = z3.Const("undefined_Val", V)
    return [_tr()(z3.Const("TrueVal", V)), z3.Not(_tr()(z3.Const("FalseVal", V))),
            z3.Not(_tr()(z3.Const("NoneVal", V))),
            # X14: a deep copy of a value is never the `...` sentinel unless the value is
            z3.ForAll([x], (dc(x) == und) == (x == und), patterns=[dc(x)])]


def axioms_E2():
    """E2 (property scope 'totally ordered values'): <= is a total preorder, >= its converse,
    and (E1, copy part) a deep copy compares like the original."""
    V = _V()
    a, b, c = z3.Consts("e2!a e2!b e2!c", V)
    le, ge, tr = _cmpf("le"), _cmpf("ge"), _tr()
    dc = z3.Function("deepcopy_Val", V, V)
    return [
        z3.ForAll([a], tr(le(a, a)), patterns=[le(a, a)]),
        z3.ForAll([a, b], z3.Or(tr(le(a, b)), tr(le(b, a))), patterns=[z3.MultiPattern(le(a, b), le(b, a))]),
        z3.ForAll([a, b], z3.Or(tr(le(a, b)), tr(le(b, a))), patterns=[le(a, b)]),
        z3.ForAll([a, b, c], z3.Implies(z3.And(tr(le(a, b)), tr(le(b, c))), tr(le(a, c))), patterns=[z3.MultiPattern(le(a, b), le(b, c))]),
        z3.ForAll([a, b], tr(ge(a, b)) == tr(le(b, a)), patterns=[ge(a, b)]),
        z3.ForAll([a, b], z3.And(tr(le(dc(a), b)) == tr(le(a, b)), tr(le(b, dc(a))) == tr(le(b, a))), patterns=[le(dc(a), b), le(b, dc(a))]),
    ]


def raises_ord():
    V = _V()
    return z3.Function("raises_ord_Val", V, V, z3.BoolSort())


def axioms_PS11():
    """PS11: whether an order comparison (<=, >=) of two values raises is a deterministic function of the two values, does not
    depend on the side a value is on, and a deep copy behaves like the original."""
    V = _V()
    a, b = z3.Consts("ps8!a ps8!b", V)
    r = raises_ord()
    dc = z3.Function("deepcopy_Val", V, V)
    return [
        z3.ForAll([a, b], r(a, b) == r(b, a), patterns=[r(a, b)]),
        z3.ForAll([a, b], r(dc(a), b) == r(a, b), patterns=[r(dc(a), b)]),
    ]


def s_cmp_raises(I, a, b):
    return SV(raises_ord()(val_term(I, a), val_term(I, b)), BOOL)


def ord_may_raise(I, opname, za, zb, node):
    """ghost option cmp_may_raise: an order comparison of two abstract values raises iff raises_ord(a, b) (PS11)"""
    from .core import RaiseSig

    if opname not in ("le", "ge", "lt", "gt") or I.V.in_contract_expr:
        return
    if I.ctx.branch(raises_ord()(za, zb)):
        raise RaiseSig("CmpError", info=[f"{opname} raised"])


def axioms_E1():
    """E1: == on recorded values is an equivalence relation, invariant under deepcopy."""
    V = _V()
    a, b, c = z3.Consts("e1!a e1!b e1!c", V)
    eq, tr = _cmpf("eq"), _tr()
    dc = z3.Function("deepcopy_Val", V, V)
    return [
        z3.ForAll([a], tr(eq(a, a)), patterns=[eq(a, a)]),
        z3.ForAll([a, b], tr(eq(a, b)) == tr(eq(b, a)), patterns=[eq(a, b)]),
        z3.ForAll([a, b, c], z3.Implies(z3.And(tr(eq(a, b)), tr(eq(b, c))), tr(eq(a, c))), patterns=[z3.MultiPattern(eq(a, b), eq(b, c))]),
        z3.ForAll([a, b], tr(eq(dc(a), b)) == tr(eq(a, b)), patterns=[eq(dc(a), b)]),
    ]


def s_le(I, a, b):
    return user_cmp_hook(I, "le", a, b, None)


def s_ge(I, a, b):
    return user_cmp_hook(I, "ge", a, b, None)


def s_contains(I, c, x):
    return user_cmp_hook(I, "contains", c, x, None)


def s_same(I, a, b):
    """identity of abstract values (term equality)"""
    from .interp import PyList as _PL

    return I.identical(a, b)


SPEC_NS.update({"deepcopy": s_deepcopy, "le": s_le, "ge": s_ge, "contains": s_contains, "same": s_same, "undefined": Ellipsis})
AXIOM_SETS.update({"val": axioms_val, "E2": axioms_E2, "E1": axioms_E1, "PS11": axioms_PS11})
SPEC_NS.update({"cmp_raises": s_cmp_raises})


def s_all_obs(I, obs, body, ety_name=None):
    """forall x. obs(x) => body(x)   (obs: ghost set of observed values)"""
    from .calls import call_value

    from .types import parse_ty as _pt

    ety = getattr(obs, "ety", None) or (_pt(ety_name) if ety_name else Abs("Val"))
    x = z3.Const(I.ctx.fresh_name("ox"), sort_of(ety))
    r = call_value(I, body, [SV(x, ety)], {})
    if isinstance(obs, (set, frozenset)):
        mem = z3.Or([x == pack(I.ctx, e, ety) for e in obs]) if obs else z3.BoolVal(False)
    else:
        mem = z3.Select(obs.pred, x)
    return SV(z3.ForAll([x], z3.Implies(mem, I.zbool(r))), BOOL)


SPEC_NS["all_obs"] = s_all_obs


# ------------------------------------------------------------------------------------------------
# the adapter layer seen from the value objects: assign() as a deterministic function of its arguments

def _N():
    return z3.DeclareSort("Node")


def _chg_list_sort():
    from .types import parse_ty

    return sort_of(parse_ty("List[Chg]"))


def assign_result_fn():
    return z3.Function("assign_result", _V(), _N(), _V(), _V())


def assign_trace_fn():
    return z3.Function("assign_trace", _V(), _N(), _V(), _chg_list_sort())


def _nt(I, node):
    if node is None:
        return I.V.none_const(Abs("Node"))
    if isinstance(node, Opaque):
        return z3.Const(I.ctx.fresh_name("unknown_node"), _N())
    if not (isinstance(node, SV) and node.t.sort() == _N()):
        # a value of another sort where an ast node is expected (e.g. an element of an untyped local list): nothing is known of it
        I.V.cover(I, "node-of-unknown-sort")
        return z3.Const(I.ctx.fresh_name("unknown_node"), _N())
    return node.t


def s_assign_result(I, old, node, new):
    return SV(assign_result_fn()(val_term(I, old), _nt(I, node), val_term(I, new)), Abs("Val"))


def s_assign_trace(I, old, node, new):
    from .types import parse_ty

    return unpack(I.ctx, assign_trace_fn()(val_term(I, old), _nt(I, node), val_term(I, new)), parse_ty("List[Chg]"))


def abstract_assign(I, args, kwargs, node):
    """`adapter.assign(old, node, new)` as seen by EqValue: a generator whose yielded changes and return value
    are deterministic functions of (old, node, new) -- the adapters themselves are verified separately (Layer C)."""
    from .types import Obj as _Obj

    old, nd, new = args[-3], args[-2], args[-1]
    return _Obj("generator", {"trace": s_assign_trace(I, old, nd, new), "value": s_assign_result(I, old, nd, new)})


SPEC_NS.update({"assign_result": s_assign_result, "assign_trace": s_assign_trace})


def s_is_container(I, v):
    return SV(z3.Function("is_container", _V(), z3.BoolSort())(val_term(I, v)), BOOL)


SPEC_NS["is_container"] = s_is_container


# ------------------------------------------------------------------------------------------------
# length of a longest common subsequence (independent recursive specification; C11 "longest-common-subsequence alignment")

def _VA():
    return z3.ArraySort(z3.IntSort(), _V())


def lcs_fn():
    return z3.Function("lcs", _VA(), _VA(), z3.IntSort(), z3.IntSort(), z3.IntSort())


def axioms_lcs():
    f = lcs_fn()
    a, b = z3.Consts("lc!a lc!b", _VA())
    p, q = z3.Ints("lc!p lc!q")
    eq, tr = _cmpf("eq"), _tr()
    m = lambda x, y: z3.If(x >= y, x, y)
    same = tr(eq(z3.Select(a, p - 1), z3.Select(b, q - 1)))
    side = m(f(a, b, p, q - 1), f(a, b, p - 1, q))
    return [
        z3.ForAll([a, b, p, q], z3.Implies(z3.Or(p <= 0, q <= 0), f(a, b, p, q) == 0), patterns=[f(a, b, p, q)]),
        z3.ForAll([a, b, p, q], z3.Implies(z3.And(p > 0, q > 0), f(a, b, p, q) == z3.If(same, m(side, f(a, b, p - 1, q - 1) + 1), side)), patterns=[f(a, b, p, q)]),
    ]


def s_lcs(I, a, b, p, q):
    la, lb = as_slist(I.ctx, a), as_slist(I.ctx, b)
    return SV(lcs_fn()(la.arr, lb.arr, zint(p), zint(q)), INT)


SPEC_NS["lcs"] = s_lcs
AXIOM_SETS["lcs"] = axioms_lcs


def s_use_cnt_facts(I, s, letters, t):
    """Ghost lemma application (sound: instances of the proved lemmas cnt.mono / cnt.range and of the definition):
    for the prefix count at t and t+1 relative to the full count."""
    l = as_slist(I.ctx, s)
    f = cnt_fn(letters)
    t_ = zint(t)
    n = l.nz()
    mem = z3.If(letters_member(z3.Select(l.arr, t_), letters), 1, 0)
    I.ctx.assume(z3.Implies(z3.And(0 <= t_, t_ < n), z3.And(f(l.arr, t_ + 1) == f(l.arr, t_) + mem, f(l.arr, t_ + 1) <= f(l.arr, n), f(l.arr, t_) >= 0)), tag="lemma-instance")
    return True


SPEC_NS["use_cnt_facts"] = s_use_cnt_facts
