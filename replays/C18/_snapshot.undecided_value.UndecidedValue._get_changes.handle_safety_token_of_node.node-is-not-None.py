"""Replay file written by /verif/check.py
{
 "property": "C18",
 "failed_obligation": "_snapshot.undecided_value.UndecidedValue._get_changes.handle/safety:token_of_node.node-is-not-None",
 "path": 3,
 "function": "inline_snapshot._snapshot.undecided_value.UndecidedValue._get_changes.handle",
 "verdict": "refuted",
 "backend": "z3-5.1",
 "solver_model": "None_Node = Node!val!0\nNone_Val = Val!val!1\nis_container = [else -> False]\nisinst_JoinedStr = [else -> False]\nisinst_Unmanaged = [else -> False]\nnode!4 = Node!val!0\nobj!5 = Val!val!0",
 "where": ""
}
"""

print('no native failing input was found for this obligation; see the header for the solver output')
