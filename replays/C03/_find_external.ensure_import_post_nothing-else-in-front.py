"""Replay file written by /verif/check.py
{
 "property": "C03",
 "failed_obligation": "_find_external.ensure_import/post:nothing-else-in-front",
 "path": 14,
 "function": "inline_snapshot._find_external.ensure_import",
 "verdict": "refuted",
 "backend": "z3-5.1",
 "solver_model": "AstV_value = [else -> PyV!val!0]\nStmt_col_offset = [else -> 4]\nStmt_first_token = [else ->\n mk_Rec_Token(mk_Tuple_Int_Int(2436, 8855),\n              mk_Tuple_Int_Int(2, 3))]\nStmt_last_token = [else ->\n mk_Rec_Token(mk_Tuple_Int_Int(2436, 8365),\n              mk_Tuple_Int_Int(2437, 11797))]\nStmt_value = [else -> AstV!val!0]\nbody!12 = mk_List_Stmt(K(Int, Stmt!val!0), 1)\nisinst_Constant = [else -> True]\nisinst_Expr = [else -> True]\nisinst_Import = [else -> False]\nisinst_ImportFrom = [else -> False]\nisinst_str = [else -> False]\nk!17 = 0\nlast_import!16 = none_Opt_Stmt",
 "where": ""
}
"""

print('no native failing input was found for this obligation; see the header for the solver output')
