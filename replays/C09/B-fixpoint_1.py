"""Replay file written by /verif/check.py
{
 "property": "C09",
 "standin": "B-fixpoint",
 "bound": "real pytest sessions: rerun after all four categories / after the same subset (template project + fixed zoo of ~45 builtin values; thorough adds 3 x 30 random nested values and all 15 subsets); approval orders: quick 2 category triples x 6 orders, thorough all 24 orders of 4 (+ all sub-orders) on 3 templates, plus trailing-comma layouts",
 "input": {
  "project": "call: default-valued first keyword (update), changed and new keywords (fix)",
  "categories": [
   "fix",
   "update"
  ],
  "orders_differing_from_combined": [
   [
    "update",
    "fix"
   ]
  ],
  "orders_differing_among_themselves": [
   [
    "update",
    "fix"
   ]
  ]
 },
 "detail": "C09: combined run --inline-snapshot=fix,update differs from one-at-a-time approval in 1/2 orders; e.g. order ['update', 'fix'] file test_a.py:\nfrom inline_snapshot import snapshot\nfrom dataclasses import dataclass\n\n\n@dataclass\nclass A:\n    x: int = 0\n    b: int = 0\n    c: int = 0\n    d: int = 0\n\n\ndef test_a():\n    assert A(x=2, d=4) == snapshot(A(x=2, d=4))\n\n--- combined:\nfrom inline_snapshot import snapshot\nfrom dataclasses import dataclass\n\n\n@dataclass\nclass A:\n    x: int = 0\n    b: int = 0\n    c: int = 0\n    d: int = 0\n\n\ndef test_a():\n    assert A(x=2, d=4) == snapshot(A(d=4, x=2))\n\n--- combined output (tail)\n+------------------------------------------------------------------------------+\nThese changes will be applied, because you used update\n\n\n\n==================================== ERRORS ====================================\n_________________________ ERROR at teardown of test_a __________________________\nsome snapshots in this test have incorrect values.\n==================================== PASSES ====================================\n------------ generated xml file: /tmp/bsess-out-73c_9iz9/junit.xml -------------\n=========================== short test summary info ============================\nPASSED test_a.py::test_a\nERROR test_a.py::test_a - Failed: some snapshots in this test have incorrect ...\n========================== 1 passed, 1 error in 1.07s =========================="
}
"""


# stand-alone replay: runs real pytest sessions of the plugin installed for this interpreter
# (run with /verif/.venv/bin/python, which sees the editable install of /repo).
import ast, os, shutil, subprocess, sys, tempfile
import xml.etree.ElementTree as ET
from pathlib import Path

CI_VARS = ('CI', 'bamboo.buildKey', 'BUILD_ID', 'BUILD_NUMBER', 'BUILDKITE', 'CIRCLECI', 'CONTINUOUS_INTEGRATION', 'GITHUB_ACTIONS', 'HUDSON_URL', 'JENKINS_URL', 'TEAMCITY_VERSION', 'TRAVIS', 'PYCHARM_HOSTED')
OTHER = ('INLINE_SNAPSHOT_DEFAULT_FLAGS', 'FORCE_COLOR', 'NO_COLOR', 'PYTEST_ADDOPTS', 'PYTEST_PLUGINS', 'PYTHONHASHSEED')
BASE_ARGS = ('-p', 'no:cacheprovider', '-p', 'no:benchmark', '-rA')


def _env(extra, tty):
    env = dict(os.environ)
    for v in CI_VARS + OTHER:
        env.pop(v, None)
    env.update(TERM="unknown", COLUMNS="80", PYTHONDONTWRITEBYTECODE="1")
    if tty:
        env["FORCE_COLOR"] = "true"
    env.update(extra or {})
    return env


def tree(root):
    return {p.relative_to(root).as_posix(): p.read_bytes() for p in sorted(Path(root).rglob("*"))
            if p.is_file() and "__pycache__" not in p.parts}


def write(root, files):
    for n, c in files.items():
        p = Path(root) / n
        p.parent.mkdir(parents=True, exist_ok=True)
        p.write_bytes(c if isinstance(c, bytes) else c.encode())


def outcomes(path):
    out = {}
    try:
        r = ET.parse(path).getroot()
    except Exception:
        return None
    for tc in r.iter("testcase"):
        k = out.setdefault(tc.get("classname") + "::" + tc.get("name"), set())
        kinds = {"failed" if c.tag == "failure" else c.tag for c in tc if c.tag in ("failure", "error", "skipped")}
        k.update(kinds or {"passed"})
    return out


def session(proj, args=(), env=None, stdin=b"", tty=None):
    out = tempfile.mkdtemp()
    try:
        before = tree(proj)
        p = subprocess.run([sys.executable, "-m", "pytest", *BASE_ARGS, "--junitxml=" + out + "/j.xml", *args],
                           cwd=proj, env=_env(env, bool(stdin) if tty is None else tty), input=stdin,
                           capture_output=True)
        return dict(rc=p.returncode, out=p.stdout.decode("utf-8", "replace"), err=p.stderr.decode("utf-8", "replace"),
                    outcomes=outcomes(out + "/j.xml"), before=before, after=tree(proj))
    finally:
        shutil.rmtree(out, ignore_errors=True)


def dump(src):
    return ast.dump(ast.parse(src.decode() if isinstance(src, bytes) else src))


ROOT = tempfile.mkdtemp()
PROJ = os.path.join(ROOT, "proj")
os.mkdir(PROJ)
try:
    FILES = {'test_a.py': 'from inline_snapshot import snapshot\nfrom dataclasses import dataclass\n\n\n@dataclass\nclass A:\n    x: int = 0\n    b: int = 0\n    c: int = 0\n    d: int = 0\n\n\ndef test_a():\n    assert A(x=2, d=4) == snapshot(A(b=0, x=1))\n', 'pyproject.toml': '[tool.inline-snapshot]\n'}
    write(PROJ, FILES)
    for c in ['update', 'fix']:
        r = session(PROJ, ['--inline-snapshot=' + c])
    one_by_one = tree(PROJ)
    P2 = os.path.join(ROOT, 'p2'); os.mkdir(P2); write(P2, FILES)
    r = session(P2, ['--inline-snapshot=fix,update'])
    print(r['out'][-3000:])
    together = tree(P2)
    assert 'INTERNALERROR' not in r['out'] + r['err'] and 'Traceback' not in r['err'], 'combined run crashed'
    for k in together:
        if k.endswith('.py'): assert dump(one_by_one[k]) == dump(together[k]), (k, one_by_one[k].decode(), together[k].decode())
finally:
    shutil.rmtree(ROOT, ignore_errors=True)
print("replay: no violation observed")

