#!/verif/.venv/bin/python
"""Regenerates contracts/obligation_pins.json: the obligations (function / kind : label, line numbers stripped) that are discharged on
the tree the contracts were proved on (VERIF_REPO, default /repo).  report.py reports a refuted obligation as a VIOLATION only when it
is one of these ("an obligation that passed on the unchanged tree and now fails"); a refuted obligation that has no counterpart in the
baseline (e.g. an assertion added by a refactoring that the abstraction cannot prove) is UNDECIDED.  The file records a digest of
the sidecars and the engine; a stale file is ignored (then every refuted obligation is a violation, as before)."""
import hashlib
import json
import pathlib
import sys
from concurrent.futures import ProcessPoolExecutor

HERE = pathlib.Path(__file__).resolve().parent.parent
sys.path.insert(0, str(HERE))


def digest():
    h = hashlib.sha256()
    for p in sorted(list((HERE / "contracts").glob("*.py")) + list((HERE / "pyvc").glob("*.py"))):
        h.update(p.name.encode())
        h.update(p.read_bytes())
    return h.hexdigest()[:20]


def norm(oid):
    import re

    return re.sub(r"@\d+", "@", oid.split("#p")[0])


def one(t):
    from pyvc import run as R

    R.load_sidecars()
    v, obs = R.verify_target(t)
    return t, sorted({norm(o.oid) for o in obs if o.status == "discharged"}), [o.oid for o in obs if o.status != "discharged"], v.errors


def main():
    from pyvc import run as R
    from pyvc.contract import REGISTRY

    R.load_sidecars()
    targets = list(REGISTRY)
    pins, bad = {}, []
    with ProcessPoolExecutor(max_workers=8) as ex:
        for t, ids, notd, errs in ex.map(one, targets):
            pins[t] = ids
            if notd or errs:
                bad.append((t, notd[:3], errs[:2]))
    out = dict(digest=digest(), functions=pins)
    (HERE / "contracts" / "obligation_pins.json").write_text(json.dumps(out, indent=0, sort_keys=True) + "\n")
    print(f"{len(pins)} contracts, {sum(len(v) for v in pins.values())} distinct obligations pinned")
    for b in bad:
        print("NOT CLEAN ON THE BASELINE:", b)
    return 1 if bad else 0


if __name__ == "__main__":
    sys.exit(main())
