"""Mechanical extraction of the real functions from /repo on every run.

Nothing from /repo is copied into /verif: modules are re-read and parsed each time, functions are
looked up by qualified name, and the sha256 of the exact source segment is recorded in the evidence.
What extraction drops (DESIGN.md section 3): docstrings, type annotations, `__tracebackhide__`.
"""
from __future__ import annotations

import ast
import hashlib
import os
from pathlib import Path

REPO = Path(os.environ.get("VERIF_REPO", "/repo"))
SRC = REPO / "src"


class ClassInfo:
    def __init__(self, qual, node, module):
        self.qual = qual
        self.name = node.name
        self.node = node
        self.module = module
        self.methods: dict[str, ast.FunctionDef] = {}
        self.attrs: dict[str, ast.expr] = {}
        self.bases: list[ast.expr] = list(node.bases)
        self.decorators = list(node.decorator_list)
        self.ann_fields: list[str] = []
        for st in node.body:
            if isinstance(st, (ast.FunctionDef, ast.AsyncFunctionDef)):
                self.methods[st.name] = st
            elif isinstance(st, ast.Assign):
                for t in st.targets:
                    if isinstance(t, ast.Name):
                        self.attrs[t.id] = st.value
                        # `__le__ = MinMaxValue._generic_cmp` style aliases are resolved lazily
            elif isinstance(st, ast.AnnAssign) and isinstance(st.target, ast.Name):
                self.ann_fields.append(st.target.id)
                if st.value is not None:
                    self.attrs[st.target.id] = st.value

    def dataclass_order(self):
        for d in self.decorators:
            if isinstance(d, ast.Call) and getattr(d.func, "id", getattr(d.func, "attr", "")) == "dataclass":
                for kw in d.keywords:
                    if kw.arg == "order" and isinstance(kw.value, ast.Constant) and kw.value.value:
                        return True
        return False

    def is_dataclass(self):
        for d in self.decorators:
            n = d.func if isinstance(d, ast.Call) else d
            if getattr(n, "id", getattr(n, "attr", "")) == "dataclass":
                return True
        return False


class Module:
    def __init__(self, name: str, path: Path):
        self.name = name
        self.path = path
        self.source = path.read_text("utf-8")
        self.tree = ast.parse(self.source)
        self.package = name.rsplit(".", 1)[0] if "." in name else name
        if path.name == "__init__.py":
            self.package = name
        self.funcs: dict[str, ast.FunctionDef] = {}
        self.classes: dict[str, ClassInfo] = {}
        self.imports: dict[str, str] = {}  # local name -> dotted target
        self.consts: dict[str, ast.expr] = {}
        self._scan(self.tree.body)

    def _scan(self, body):
        for st in body:
            if isinstance(st, (ast.FunctionDef, ast.AsyncFunctionDef)):
                self.funcs.setdefault(st.name, st)
            elif isinstance(st, ast.ClassDef):
                self.classes.setdefault(st.name, ClassInfo(f"{self.name}.{st.name}", st, self))
            elif isinstance(st, ast.ImportFrom):
                base = self._resolve_from(st)
                for a in st.names:
                    self.imports[a.asname or a.name] = f"{base}.{a.name}" if base else a.name
            elif isinstance(st, ast.Import):
                for a in st.names:
                    self.imports[a.asname or a.name.split(".")[0]] = a.name if a.asname else a.name.split(".")[0]
            elif isinstance(st, ast.Assign):
                for t in st.targets:
                    if isinstance(t, ast.Name):
                        self.consts[t.id] = st.value
            elif isinstance(st, ast.AnnAssign) and isinstance(st.target, ast.Name) and st.value is not None:
                self.consts[st.target.id] = st.value
            elif isinstance(st, (ast.If, ast.Try)):
                # module-level `if sys.version_info ...` / `try: import x`: scan all arms; first binding wins
                for sub in ("body", "orelse", "finalbody"):
                    self._scan(getattr(st, sub, []))
                for h in getattr(st, "handlers", []):
                    self._scan(h.body)

    def _resolve_from(self, st: ast.ImportFrom) -> str:
        if st.level == 0:
            return st.module or ""
        parts = self.package.split(".")
        if st.level > 1:
            parts = parts[: -(st.level - 1)]
        base = ".".join(parts)
        return f"{base}.{st.module}" if st.module else base


_modules: dict[str, Module] = {}


def reset():
    _modules.clear()


def load_module(name: str) -> Module | None:
    if name in _modules:
        return _modules[name]
    rel = Path(*name.split("."))
    for cand in (SRC / rel.with_suffix(".py"), SRC / rel / "__init__.py"):
        if cand.exists():
            m = Module(name, cand)
            _modules[name] = m
            return m
    return None


def split_qual(qual: str):
    """'inline_snapshot._align.add_x' -> (Module, ['add_x']); handles Class.method and f.<inner>."""
    parts = qual.split(".")
    for i in range(len(parts), 0, -1):
        m = load_module(".".join(parts[:i]))
        if m is not None:
            return m, parts[i:]
    raise LookupError(qual)


def find_function(qual: str):
    """Returns (module, FunctionDef, ClassInfo|None, enclosing FunctionDef|None)."""
    m, rest = split_qual(qual)
    if len(rest) == 1:
        if rest[0] in m.funcs:
            return m, m.funcs[rest[0]], None, None
        raise LookupError(qual)
    if rest[0] in m.classes:
        ci = m.classes[rest[0]]
        if len(rest) == 2 and rest[1] in ci.methods:
            return m, ci.methods[rest[1]], ci, None
        if len(rest) == 3 and rest[1] in ci.methods:
            outer = ci.methods[rest[1]]
            for n in ast.walk(outer):
                if isinstance(n, ast.FunctionDef) and n.name == rest[2] and n is not outer:
                    return m, n, ci, outer
        raise LookupError(qual)
    if rest[0] in m.funcs and len(rest) == 2:
        outer = m.funcs[rest[0]]
        for n in ast.walk(outer):
            if isinstance(n, ast.FunctionDef) and n.name == rest[1] and n is not outer:
                return m, n, None, outer
    raise LookupError(qual)


def source_hash(m: Module, node: ast.AST) -> str:
    seg = ast.get_source_segment(m.source, node) or ""
    return hashlib.sha256(seg.encode()).hexdigest()[:16]


def span(node) -> tuple[int, int]:
    return node.lineno, getattr(node, "end_lineno", node.lineno)


def strip_docstring(body):
    if body and isinstance(body[0], ast.Expr) and isinstance(body[0].value, ast.Constant) and isinstance(body[0].value.value, str):
        return body[1:]
    return body


def loops_preorder(fn: ast.FunctionDef):
    """Loop statements of fn in source pre-order, not descending into nested function definitions."""
    out = []

    def walk(stmts):
        for st in stmts:
            if isinstance(st, (ast.For, ast.While)):
                out.append(st)
                walk(st.body)
                walk(st.orelse)
            elif isinstance(st, (ast.FunctionDef, ast.ClassDef, ast.AsyncFunctionDef)):
                continue
            else:
                for f in ("body", "orelse", "finalbody"):
                    walk(getattr(st, f, []) or [])
                for h in getattr(st, "handlers", []) or []:
                    walk(h.body)

    walk(fn.body)
    return out


def loop_keys(loops):
    """[(header, n-th occurrence of that header)] for loop statements: `for <iter>` (the target is left out, so renaming a
    loop variable does not move a spec) / `while <test>`."""
    out, seen = [], {}
    for st in loops:
        h = ("for " + ast.unparse(st.iter)) if isinstance(st, ast.For) else ("while " + ast.unparse(st.test))
        n = seen.get(h, 0)
        seen[h] = n + 1
        out.append((h, n))
    return out
