"""Replay file written by /verif/check.py
{
 "property": "C18",
 "failed_obligation": "_rewrite_code.SourceFile.new_code/safety:assert@len(offset_replacements) == len(replacements)",
 "path": 1,
 "function": "inline_snapshot._rewrite_code.SourceFile.new_code",
 "verdict": "refuted",
 "backend": "z3-5.1",
 "solver_model": "enforce!14 = True\nlen_opq!17 = 1\noffset_replacements!15 = mk_List_Any(K(Int, Any!val!0), 0)",
 "where": "line 182"
}
"""

print('no native failing input was found for this obligation; see the header for the solver output')
