"""Replay file written by /verif/check.py
{
 "property": "C10",
 "standin": "B-layout",
 "bound": "generated test files through Example.run_inline: 23 statement layouts x 5 headers x 21 argument edits x 6 flag sets, LF/CRLF, formatter-clean and not clean (C03); 9 pyproject [tool.black] variants x 5 shapes x values around the line limit (C20); Is()/f-string/star-expression/nested-snapshot name inside list/tuple/dict/call at every position (C10); containers of hand-written element expressions, depth<=2, width<=4, random edit scripts + all sequence pairs over 3 symbols up to length 3 (C11)",
 "input": {
  "prop": "C10",
  "name": "Is/dcd/pos0/bad",
  "flags": "fix",
  "source": "from inline_snapshot import snapshot, Is\nfrom dataclasses import dataclass, field\n\n\n@dataclass\nclass DC:\n    a: object\n    b: list = field(default_factory=list)\n\n\n@dataclass\nclass DD:\n    b: list = field(default_factory=list)\n    a: object = 5\n\n\ndyn_a = 5\n\ndef test_a():\n    assert DD(b=[7], a=6) == snapshot(DD(b=[0+1], a=Is(dyn_a)))\n"
 },
 "detail": "[C10 Is/dcd/pos0/bad flags=fix] unmanaged text 'Is(dyn_a)' must survive verbatim but is gone/changed (1 -> 0 occurrences)\n--- before ---\nfrom inline_snapshot import snapshot, Is\nfrom dataclasses import dataclass, field\n\n\n@dataclass\nclass DC:\n    a: object\n    b: list = field(default_factory=list)\n\n\n@dataclass\nclass DD:\n    b: list = field(default_factory=list)\n    a: object = 5\n\n\ndyn_a = 5\n\ndef test_a():\n    assert DD(b=[7], a=6) == snapshot(DD(b=[0+1], a=Is(dyn_a)))\n\n--- after ---\nfrom inline_snapshot import snapshot, Is\nfrom dataclasses import dataclass, field\n\n\n@dataclass\nclass DC:\n    a: object\n    b: list = field(default_factory=list)\n\n\n@dataclass\nclass DD:\n    b: list = field(default_factory=list)\n    a: object = 5\n\n\ndyn_a = 5\n\ndef test_a():\n    assert DD(b=[7], a=6) == snapshot(DD(b=[7], a=6))\n"
}
"""

# stand-alone replay against /repo (run with /verif/.venv/bin/python); exits non-zero / AssertionError when it fails
import sys, io, os, contextlib, tempfile, shutil
from inline_snapshot.testing import Example
import inline_snapshot

class _Cap:
    text = None
    def __eq__(self, o):
        self.text = o
        return True

class _Ex(Example):
    def dump_files(self):
        pass
    def _read_files(self, dir):
        return {str(p.relative_to(dir)): p.read_bytes().decode("utf-8") for p in [*dir.iterdir(), *dir.rglob("*.py")] if p.is_file()}

def run_inline(files, flags, cwd_files=None):
    cap = _Cap()
    old = os.getcwd()
    tmp = None
    try:
        if cwd_files is not None:
            tmp = tempfile.mkdtemp()
            for n, c in cwd_files.items():
                open(os.path.join(tmp, n), "w", encoding="utf-8", newline="").write(c)
            os.chdir(tmp)
        with contextlib.redirect_stdout(io.StringIO()), contextlib.redirect_stderr(io.StringIO()):
            res = _Ex(dict(files)).run_inline(["--inline-snapshot=" + flags], raises=cap)
    finally:
        os.chdir(old)
        if tmp:
            shutil.rmtree(tmp, ignore_errors=True)
    return dict(res.files), cap.text

def rerun_identity(src):
    """exec the rewritten module with snapshot := identity and run every test_* function"""
    real = inline_snapshot.snapshot
    inline_snapshot.snapshot = lambda x=...: x
    try:
        ns = {}
        exec(compile(src.replace("\r\n", "\n"), "<rewritten>", "exec"), ns)
        for k, v in list(ns.items()):
            if (k.startswith("test_") or k == "test") and callable(v):
                v()
    finally:
        inline_snapshot.snapshot = real

import ast
SRC = 'from inline_snapshot import snapshot, Is\nfrom dataclasses import dataclass, field\n\n\n@dataclass\nclass DC:\n    a: object\n    b: list = field(default_factory=list)\n\n\n@dataclass\nclass DD:\n    b: list = field(default_factory=list)\n    a: object = 5\n\n\ndyn_a = 5\n\ndef test_a():\n    assert DD(b=[7], a=6) == snapshot(DD(b=[0+1], a=Is(dyn_a)))\n'
FLAGS = 'fix'
CWD_FILES = {}
files = {'test_something.py': SRC}
files.update(CWD_FILES)
after, raised = run_inline(files, FLAGS, cwd_files=CWD_FILES)
new = after['test_something.py']
print(new)
compile(new.replace('\r\n', '\n'), 'test_something.py', 'exec')  # C03: still valid Python
# the detail text of the failure names the violated oracle; the generic checks that can be replayed stand-alone follow
EXPECT_GREEN = False
if EXPECT_GREEN:
    rerun_identity(new)
for ut in ['Is(dyn_a)']:
    assert new.count(ut) <= SRC.count(ut), ('unmanaged text multiplied', ut)
for ut in ['Is(dyn_a)']:
    assert new.count(ut) == SRC.count(ut), ('unmanaged text not kept verbatim', ut)
# finally the exact oracle of the stand-in (needs /verif on sys.path)
sys.path.insert(0, '/verif')
from bounded import b_layout
CASE = {'prop': 'C10', 'name': 'Is/dcd/pos0/bad', 'src': 'from inline_snapshot import snapshot, Is\nfrom dataclasses import dataclass, field\n\n\n@dataclass\nclass DC:\n    a: object\n    b: list = field(default_factory=list)\n\n\n@dataclass\nclass DD:\n    b: list = field(default_factory=list)\n    a: object = 5\n\n\ndyn_a = 5\n\ndef test_a():\n    assert DD(b=[7], a=6) == snapshot(DD(b=[0+1], a=Is(dyn_a)))\n', 'flags': 'fix', 'utexts': ['Is(dyn_a)'], 'markers': ['dyn_a'], 'u_correct': False, 'whole': None, 'inner_expect': None, 'survive': True, 'old': 'DD(b=[0+1], a=Is(dyn_a))', 'new': 'DD(b=[7], a=6)'}
out = b_layout.eval_case(CASE)
assert out['status'] != 'fail', out['detail']

