"""Leaf functions added in the extension round: pytest_plugin.is_xfail, the position helpers of _rewrite_code
(SourcePosition.offset, start_of / end_of / range_of, SourceRange.__post_init__), Change.replace / insert / delete / _replace,
SourceFile._check, ChangeRecorder.get_source / num_fixes / virtual_write, SourceFile.virtual_write / diff."""
import z3

from pyvc.contract import Loop, Shape, contract
from pyvc.core import RaiseSig, fresh_value, pack, unpack
from pyvc.defaults import DEFAULT_POLICIES, SHAPES
from pyvc.interp import _MISSING, PyList
from pyvc.specs import SPEC_NS, val_term
from pyvc.types import BOOL, INT, STR, Abs, Obj, Opaque, SV, parse_ty, sort_of

PP = "inline_snapshot.pytest_plugin"
RW = "inline_snapshot._rewrite_code"
VAL = Abs("Val")

# ---------------------------------------------------------------------------------------------- is_xfail
#
# Environment (X13, pytest): `request.keywords` is the NodeKeywords view of the test item: it contains the name of every marker
# applied to the item *or inherited from its class / module / package* (`pytestmark`), `request.keywords[name]` is the closest such
# marker; `request.node.own_markers` lists only the markers applied to the function itself, `request.node.get_closest_marker(name)`
# / `iter_markers(name)` again see the inherited ones.  `marked` = some xfail marker applies to the test at any level; `own` = one is
# applied to the function itself (own => marked).  The marker's first positional argument is its condition.


def _mark(I):
    return I.ghost["_mark"]


def _lookup(I, name, default, missing_raises):
    if name == "xfail":
        if not I.ctx.branch(I.ghost["marked"].t):
            if missing_raises:
                raise RaiseSig("KeyError", info=["request.keywords['xfail'] without an xfail marker"])
            return default
        return _mark(I)
    return Opaque("keyword")


def _xf_setup(I, env):
    I.ghost["_mark"] = Obj("Mark", {"name": "xfail", "args": I.ghost["args"], "kwargs": Opaque("kwargs")})

    def contains(I2, item):
        if item == "xfail":
            return I2.ghost["marked"]
        return SV(z3.Bool(I2.ctx.fresh_name("kw")), BOOL)

    kw = Obj("NodeKeywords", {"__contains__": contains, "__getitem__": lambda I2, idx: _lookup(I2, idx, None, True),
                              "get": lambda I2, idx, default=None: _lookup(I2, idx, default, False)})

    def own(I2):
        # the function's own markers: holds the xfail marker only when it is applied to the function itself
        return PyList([_mark(I2)]) if I2.ctx.branch(I2.ghost["own"].t) else PyList([])

    def iter_markers(I2, name=None):
        return PyList([_mark(I2)]) if I2.ctx.branch(I2.ghost["marked"].t) else PyList([])

    node = Obj("Item", {"get_closest_marker": lambda I2, name, default=None: _lookup(I2, name, default, False),
                        "iter_markers": iter_markers, "keywords": kw})
    node.fields["own_markers"] = Opaque("own_markers")
    req = env.vars["request"]
    req.fields["keywords"] = kw
    req.fields["node"] = node


SHAPES.update({"XRequest": Shape("pytest.FixtureRequest", {})})

contract(
    PP + ".is_xfail",
    params={"request": "@XRequest"},
    ghost={"vars": {"marked": "Bool", "own": "Bool", "args": "TupleSeq[Val]"}, "setup": _xf_setup},
    requires={"own-markers-are-markers": "implies(own, marked)"},
    returns=None,
    result_name="ret",
    ensures={
        # C04/C06/C07: "when disabled (flag, CI, xdist, xfail) snapshot(v) returns v itself": a test counts as xfail when an xfail
        # marker applies to it at *any* level (function, class, module), unless the marker's condition is literally False
        "xfail-iff-a-marker-applies-at-any-level [C06,C04,C07]": "ret == (marked and not (len(args) > 0 and T(eq(args[0], False))))",
    },
    frame=[],
    safety_props=["C18"],
    assumes=["X13"],
)

# ---------------------------------------------------------------------------------------------- start_of / end_of / range_of
#
# The position helpers every replacement range goes through (C03: "offsets are computed from (line, column) token positions").
# `Token` is the record declared in contracts/change.py (asttokens Token: start / end as (line, column) pairs, X3).

import contracts.change  # noqa: F401  (declares the Token record)

SHAPES.update({
    "Pos": Shape(RW + ".SourcePosition", {"lineno": "Int", "col_offset": "Int"}),
    "Rng": Shape(RW + ".SourceRange", {"start": "@Pos", "end": "@Pos"}),
})

_IS_POS = "cls_is(ret, 'SourcePosition')"
for fn, tok_field in (("start_of", "start"), ("end_of", "end")):
    for variant, pty, post in (
        ("token", "Token", f"ret.lineno == obj.{tok_field}[0] and ret.col_offset == obj.{tok_field}[1]"),
        ("pair", "Tuple[Int,Int]", "ret.lineno == obj[0] and ret.col_offset == obj[1]"),
        ("position", "@Pos", "ret.lineno == old(obj.lineno) and ret.col_offset == old(obj.col_offset)"),
        ("range", "@Rng", f"ret.lineno == old(obj.{tok_field}.lineno) and ret.col_offset == old(obj.{tok_field}.col_offset)"),
    ):
        contract(
            RW + "." + fn,
            name=f"{RW}.{fn}#{variant}",
            params={"obj": pty},
            callees={RW + ".start_of": "inline"},
            returns=None,
            result_name="ret",
            ensures={f"the-{tok_field}-position-of-its-argument [C03,C18]": _IS_POS + " and " + post},
            raises={},
            frame=[],
            safety_props=["C18"],
            assumes=["X3"],
        )

for variant, pty, s0, s1, e0, e1 in (
    ("token", "Token", "obj.start[0]", "obj.start[1]", "obj.end[0]", "obj.end[1]"),
    ("token-pair", "Tuple[Token,Token]", "obj[0].start[0]", "obj[0].start[1]", "obj[1].end[0]", "obj[1].end[1]"),
    ("position-pair", "Tuple[Tuple[Int,Int],Tuple[Int,Int]]", "obj[0][0]", "obj[0][1]", "obj[1][0]", "obj[1][1]"),
    ("position", "@Pos", "old(obj.lineno)", "old(obj.col_offset)", "old(obj.lineno)", "old(obj.col_offset)"),
):
    _ordered = f"({s0} < {e0} or ({s0} == {e0} and {s1} <= {e1}))"
    contract(
        RW + ".range_of",
        name=f"{RW}.range_of#{variant}",
        params={"obj": pty},
        callees={RW + ".start_of": "inline", RW + ".end_of": "inline"},
        returns=None,
        result_name="ret",
        ensures={
            # the range starts where the (first) object starts and ends where the (second) object ends
            "from-the-start-of-the-first-to-the-end-of-the-last [C03,C18]":
                f"ret.start.lineno == {s0} and ret.start.col_offset == {s1} and ret.end.lineno == {e0} and ret.end.col_offset == {e1}",
            # SourceRange.__post_init__: a range never ends in front of its start (C18: such a range cannot be spliced)
            "well-formed [C18,C03]": _ordered,
        },
        raises={"ValueError": {"only-for-an-inverted-range [C18]": "not " + _ordered}},
        frame=[],
        safety_props=["C18"],
        assumes=["X3"],
    )

# ---------------------------------------------------------------------------------------------- SourcePosition.offset


def _line_to_offset(I2, line, col):
    """X4 (asttokens.LineNumbers.line_to_offset): the character offset of (line, column), column counted in characters"""
    I2.ghost["n_l2o"] = I2.ghost["n_l2o"] + 1
    f = z3.Function("line_to_offset", z3.IntSort(), z3.IntSort(), z3.IntSort())
    from pyvc.core import zint
    return SV(f(zint(line), zint(col)), INT)


def s_l2o(I, line, col):
    from pyvc.core import zint
    return SV(z3.Function("line_to_offset", z3.IntSort(), z3.IntSort(), z3.IntSort())(zint(line), zint(col)), INT)


SPEC_NS["line_to_offset"] = s_l2o
SHAPES.update({"LineNumbers": Shape("asttokens.LineNumbers", {"line_to_offset": _line_to_offset})})

contract(
    RW + ".SourcePosition.offset",
    params={"self": "@Pos", "line_numbers": "@LineNumbers"},
    ghost={"vars": {"n_l2o": "=0"}},
    returns=None,
    result_name="ret",
    ensures={
        # C03: the splice offset of a position is the *character* offset of its (line, column) in the text that is spliced:
        # token columns are character columns (ast columns are utf-8 byte columns - they must never be used here)
        "character-offset-of-line-and-column [C03,C12,C18]": "ret == line_to_offset(self.lineno, self.col_offset) and n_l2o == 1",
    },
    frame=[],
    safety_props=["C18"],
    assumes=["X4"],
)

# ---------------------------------------------------------------------------------------------- Change.replace / insert / delete / _replace
#
# Every edit of a test file is one Replacement appended to the SourceFile of that file (C03: "replacements are (range, text) pairs,
# checked non-overlapping, applied in one pass on the original text").  The recorder hands out one SourceFile per file name
# (`get_source`, under contract below); here it is a policy that returns the ghost file `src` and records the name it was asked for.


def _check_method(I2):
    I2.ghost["n_check"] = I2.ghost["n_check"] + 1
    I2.ghost["len_at_check"] = len(I2.ghost["src"].fields["replacements"].items)
    I2.V.may_raise(I2, "SourceFile._check")  # AssertionError for overlapping replacements
    return None


def _chg_setup(I, env):
    prior = Opaque("earlier replacement")
    I.ghost["prior"] = prior
    src = Obj(RW + ".SourceFile", {"replacements": PyList([prior]), "_check": _check_method, "filename": Opaque("filename")})
    I.ghost["src"] = src

    def get_source(I2, filename):
        I2.ghost["n_get_source"] = I2.ghost["n_get_source"] + 1
        I2.ghost["asked_for"] = filename
        return src

    env.vars["self"].fields["change_recorder"] = Obj(RW + ".ChangeRecorder", {"get_source": get_source})


SHAPES.update({"ChangeObj": Shape(RW + ".Change", {"change_id": "Int"})})
_CHG_GHOST = {"vars": {"n_check": "=0", "len_at_check": "=-1", "n_get_source": "=0", "asked_for": "=None"}, "setup": _chg_setup, "may_raise": True}
_CHG_CALLEES = {RW + ".start_of": "inline", RW + ".end_of": "inline", RW + ".range_of": "inline",
                "Change.replace": "inline", "Change._replace": "inline"}
_ONE = ("len(src.replacements) == 2 and src.replacements[0] is prior and n_get_source == 1 and asked_for is filename"
        " and n_check == 1 and len_at_check == 2 and src.replacements[1].change_id == self.change_id")
_KEPT = {"earlier-replacements-are-kept [C03,C18]": "len(src.replacements) >= 1 and src.replacements[0] is prior"}
R1 = "src.replacements[1]"

contract(
    RW + ".Change._replace",
    params={"self": "@ChangeObj", "filename": "Opaque", "range": "@Rng", "new_contend": "Str"},
    callees=_CHG_CALLEES, ghost=_CHG_GHOST,
    ensures={
        # exactly one replacement, carrying the range, the text and the id of this change set, goes to the file that was named;
        # the non-overlap check runs after it was added (so an overlapping edit is an AssertionError, never a silent splice)
        "appends-exactly-this-replacement-and-checks [C03,C18]": _ONE + f" and {R1}.range is range and {R1}.text == new_contend",
    },
    raises={"Exception": _KEPT},
    safety_props=["C18"],
)

contract(
    RW + ".Change.replace",
    name=RW + ".Change.replace#token-pair",
    params={"self": "@ChangeObj", "node": "Tuple[Token,Token]", "new_contend": "Str", "filename": "Opaque"},
    callees=_CHG_CALLEES, ghost=_CHG_GHOST,
    ensures={
        "replaces-from-the-first-token-to-the-last [C03,C18,C10]": _ONE + f" and {R1}.text == new_contend"
            f" and {R1}.range.start.lineno == node[0].start[0] and {R1}.range.start.col_offset == node[0].start[1]"
            f" and {R1}.range.end.lineno == node[1].end[0] and {R1}.range.end.col_offset == node[1].end[1]",
    },
    raises={"Exception": _KEPT},
    safety_props=["C18"],
)

contract(
    RW + ".Change.replace",
    name=RW + ".Change.replace#position-pair",
    params={"self": "@ChangeObj", "node": "Tuple[Tuple[Int,Int],Tuple[Int,Int]]", "new_contend": "Str", "filename": "Opaque"},
    callees=_CHG_CALLEES, ghost=_CHG_GHOST,
    ensures={
        "replaces-exactly-the-given-positions [C03,C18,C10]": _ONE + f" and {R1}.text == new_contend"
            f" and {R1}.range.start.lineno == node[0][0] and {R1}.range.start.col_offset == node[0][1]"
            f" and {R1}.range.end.lineno == node[1][0] and {R1}.range.end.col_offset == node[1][1]",
    },
    raises={"Exception": _KEPT},
    safety_props=["C18"],
)

contract(
    RW + ".Change.insert",
    params={"self": "@ChangeObj", "node": "Token", "new_content": "Str", "filename": "Opaque"},
    callees=_CHG_CALLEES, ghost=_CHG_GHOST,
    ensures={
        # an insertion replaces the empty range in front of the node: nothing of the old text is removed
        "empty-range-in-front-of-the-node [C03,C18]": _ONE + f" and {R1}.text == new_content"
            f" and {R1}.range.start.lineno == node.start[0] and {R1}.range.start.col_offset == node.start[1]"
            f" and {R1}.range.end.lineno == node.start[0] and {R1}.range.end.col_offset == node.start[1]",
    },
    raises={"Exception": _KEPT},
    safety_props=["C18"],
)

contract(
    RW + ".Change.delete",
    params={"self": "@ChangeObj", "node": "Tuple[Token,Token]", "filename": "Opaque"},
    callees=_CHG_CALLEES, ghost=_CHG_GHOST,
    ensures={
        "replaces-the-node-by-nothing [C03,C18]": _ONE + f" and {R1}.text == ''"
            f" and {R1}.range.start.lineno == node[0].start[0] and {R1}.range.start.col_offset == node[0].start[1]"
            f" and {R1}.range.end.lineno == node[1].end[0] and {R1}.range.end.col_offset == node[1].end[1]",
    },
    raises={"Exception": _KEPT},
    safety_props=["C18"],
)

# ---------------------------------------------------------------------------------------------- SourceFile._check
#
# C18: "the edits computed for one file never overlap".  Abstraction: a SourcePosition is the pair (lineno, col_offset) and
# `@dataclass(order=True)` compares such pairs lexicographically (PS12); `list.sort()` (X9) reorders the list in place - the only
# fact used about it is that the length is unchanged; the sorted list is the ghost `srt` the clauses talk about.

from pyvc.types import declare_record
from pyvc.core import SList

declare_record("RRange", {"start": parse_ty("Tuple[Int,Int]"), "end": parse_ty("Tuple[Int,Int]")})
declare_record("Repl", {"range": parse_ty("RRange"), "text": STR, "change_id": INT})


def _slist_sort(I, base, args, kwargs, node):
    I.ghost["n_sort"] = I.ghost["n_sort"] + 1
    if args or kwargs:
        # a key function / reverse order changes which neighbours are compared: not the modelled sort
        I.oblige("safety", "replacements-sorted-by-their-natural-order [C18]", z3.BoolVal(False))
    fresh = fresh_value(I.ctx, parse_ty("List[Repl]"), "sorted_replacements")
    I.ctx.assume(fresh.nz() == base.nz())
    base.arr = fresh.arr
    I.ghost["srt"] = base
    return None


def p_pairwise(I, args, kwargs, node):
    """itertools.pairwise(xs) == zip(xs, xs[1:])"""
    from pyvc.calls import b_zip
    from pyvc.core import list_slice
    xs = args[0]
    return b_zip(I, xs, list_slice(I.ctx, xs, 1, None))


_WF = "all(srt[j].range.start <= srt[j].range.end for j in range(0, {n}))"
_CHAIN = "all(srt[j].range.end <= srt[j + 1].range.start for j in range(0, {n}))"

contract(
    RW + ".SourceFile._check",
    params={"self": "@CheckFile"},
    shapes={"CheckFile": Shape(RW + ".SourceFile", {"replacements": "List[Repl]", "filename": "Opaque", "source": "Opaque"})},
    callees={"pairwise": p_pairwise, RW + ".pairwise": p_pairwise},
    ghost={"vars": {"n_sort": "=0", "srt": "=None"}, "slist_sort": _slist_sort, "asserts_raise": True},
    loops={
        0: Loop(index="k", ghost_modifies=[], inv={"wellformed-so-far": "n_sort == 1 and " + _WF.format(n="k")}),
        1: Loop(index="k", ghost_modifies=[], inv={"wellformed": "n_sort == 1 and " + _WF.format(n="len(srt)"),
                                "disjoint-so-far": _CHAIN.format(n="k")}),
    },
    ensures={
        # a normal return certifies: in sorted order every range is well-formed and ends before the next one starts - with the
        # order of the sort (by start) no two replacements of the file overlap, so the one-pass splice is well defined
        "sorted-replacements-are-wellformed-and-disjoint [C18,C03,C09]":
            "n_sort == 1 and len(srt) == len(old(self.replacements)) and " + _WF.format(n="len(srt)") + " and " + _CHAIN.format(n="len(srt) - 1"),
    },
    raises={"AssertionError": {
        # the check never rejects a well-formed, disjoint set of edits (C18: session end completes)
        "only-for-an-inverted-or-overlapping-range [C18]": "not (" + _WF.format(n="len(srt)") + " and " + _CHAIN.format(n="len(srt) - 1") + ")",
    }},
    frame=[],
    safety_props=["C18"],
    assumes=["X9", "PS12"],
)

# ---------------------------------------------------------------------------------------------- SourceFile.virtual_write / diff, ChangeRecorder.virtual_write / get_source
#
# The preview a session shows (and on which it decides whether a category has anything to apply: C04/C19) is the unified diff
# between the text the file had when the recorder first saw it and the complete new text.  X16 (difflib): unified_diff(a, b)
# yields nothing iff the two line lists are equal; `str.splitlines` is a function of the text (`lines`).

from .files import TXT, _txt

LINES = parse_ty("List[Line]")


def _lines_term(t):
    return z3.Function("lines", sort_of(TXT), sort_of(LINES))(t.t)


def _lines_of(I, t):
    return unpack(I.ctx, _lines_term(t), LINES)


DEFAULT_POLICIES["attrs"].update({"Txt.splitlines": lambda I, a, k, n: _lines_of(I, a[0]) if len(a) == 1 and not k else Opaque("lines")})


def p_new_code_value(I, args, kwargs, node):
    I.ghost["n_new_code"] = I.ghost["n_new_code"] + 1
    I.V.may_raise(I, "new_code")
    return I.ghost["new_text"]


def p_unified_diff(I, args, kwargs, node):
    from pyvc.core import SList
    I.ghost["n_diff"] = I.ghost["n_diff"] + 1
    ok = len(args) == 2 and not kwargs and all(isinstance(a, SList) and a.ety == LINES.elem for a in args)
    I.ghost["diff_of_old_and_new_lines"] = (
        SV(z3.And(pack(I.ctx, args[0], LINES) == _lines_term(I.ghost["old_text"]), pack(I.ctx, args[1], LINES) == _lines_term(I.ghost["new_text"])), BOOL)
        if ok else False)
    return Opaque("unified_diff")


def _vw_setup(I, env):
    env.vars["self"].fields["source"] = I.ghost["old_text"]


_VW = {"vars": {"old_text": "Txt", "new_text": "Txt", "n_new_code": "=0", "n_diff": "=0", "diff_of_old_and_new_lines": "=False"},
       "setup": _vw_setup, "may_raise": True, "havoc_unknown_externals": True}
SHAPES.update({"VFile": Shape(RW + ".SourceFile", {"filename": "Opaque", "replacements": "Opaque", "source": "Opaque"})})

contract(
    RW + ".SourceFile.virtual_write",
    params={"self": "@VFile"},
    callees={"SourceFile.new_code": p_new_code_value, "open": "forbidden"},
    ghost=_VW,
    ensures={
        # the in-memory text becomes the complete new text; nothing is opened or written (C04: a preview never touches the disk)
        "remembers-the-complete-new-text [C19,C04,C15]": "self.source == new_text and n_new_code == 1",
    },
    raises={"Exception": {"text-unchanged-when-the-new-code-cannot-be-computed [C15]": "self.source == old_text"}},
    safety_props=["C18"],
)

contract(
    RW + ".SourceFile.diff",
    params={"self": "@VFile"},
    callees={"SourceFile.new_code": p_new_code_value, "unified_diff": p_unified_diff, "difflib.unified_diff": p_unified_diff, "open": "forbidden",
             "islice": "havoc", "itertools.islice": "havoc"},
    ghost=_VW,
    returns=None,
    result_name="ret",
    ensures={
        # C19/C04: "report the same pending categories": the preview compares the unmodified lines of the old and the new text -
        # a change is pending exactly when the two texts differ, whatever the difference is (trailing blanks, blank lines ...)
        "compares-the-old-and-the-new-text-line-by-line [C19,C04,C08]": "n_diff == 1 and n_new_code == 1 and diff_of_old_and_new_lines",
        "does-not-change-the-file-object [C19]": "self.source == old_text",
    },
    raises={"Exception": {}},
    safety_props=["C18"],
    assumes=["X16"],
)


def _p_path(I, args, kwargs, node):
    """pathlib.Path(filename): equal file names give equal (and equally hashing) paths - the key of the recorder's table"""
    I.ghost["keyed_by_path_of"] = args[0]
    return "<path of filename>"


def _p_new_sourcefile(I, args, kwargs, node):
    I.ghost["n_created"] = I.ghost["n_created"] + 1
    I.ghost["created_for"] = args[0]
    I.V.may_raise(I, "SourceFile()")  # reads the file
    return Obj(RW + ".SourceFile", {"filename": args[0], "replacements": PyList([])})


from pyvc.interp import PyDict


def _gs_setup_present(I, env):
    I.ghost["fn_arg"] = env.vars["filename"]
    I.ghost["existing"] = Obj(RW + ".SourceFile", {"filename": "<path of filename>", "replacements": Opaque("replacements")})
    I.ghost["other"] = Obj(RW + ".SourceFile", {"filename": "<other path>", "replacements": Opaque("replacements")})
    env.vars["self"].fields["_source_files"] = PyDict({"<other path>": I.ghost["other"], "<path of filename>": I.ghost["existing"]})


def _gs_setup_absent(I, env):
    I.ghost["fn_arg"] = env.vars["filename"]
    I.ghost["existing"] = None
    I.ghost["other"] = Obj(RW + ".SourceFile", {"filename": "<other path>", "replacements": Opaque("replacements")})
    env.vars["self"].fields["_source_files"] = PyDict({"<other path>": I.ghost["other"]})


SHAPES.update({"RecGS": Shape(RW + ".ChangeRecorder", {"_changes": "Opaque"})})
_GS_KEPT = "self._source_files['<other path>'] is other"
for variant, setup, post in (
    ("known-file", _gs_setup_present, "ret is existing and n_created == 0 and len(self._source_files) == 2"),
    ("new-file", _gs_setup_absent, "n_created == 1 and created_for == '<path of filename>' and self._source_files['<path of filename>'] is ret and len(self._source_files) == 2"),
):
    contract(
        RW + ".ChangeRecorder.get_source",
        name=f"{RW}.ChangeRecorder.get_source#{variant}",
        params={"self": "@RecGS", "filename": "Opaque"},
        callees={"pathlib.Path": _p_path, "SourceFile": _p_new_sourcefile, RW + ".SourceFile": _p_new_sourcefile},
        ghost={"vars": {"n_created": "=0", "created_for": "=None", "keyed_by_path_of": "=None"}, "setup": setup, "may_raise": True},
        returns=None,
        result_name="ret",
        ensures={
            # C03/C18: all replacements of one file meet in one SourceFile (that is where overlaps are checked and the single
            # splice is computed): the table is keyed by the path, an entry is created only when there is none, others are kept
            "one-source-file-per-path [C03,C18,C09]": post + " and " + _GS_KEPT + " and keyed_by_path_of is fn_arg",
        },
        raises={"Exception": {"table-unchanged-when-the-file-cannot-be-read [C15]": _GS_KEPT + " and '<path of filename>' not in self._source_files"}},
        safety_props=["C18"],
    )

contract(
    RW + ".ChangeRecorder.virtual_write",
    params={"self": "@Rec"},
    shapes={"Rec": Shape(RW + ".ChangeRecorder", {"_source_files": "@FileMap", "_changes": "Opaque"}),
            "FileMap": Shape("filemap", {"values": lambda I: fresh_value(I.ctx, parse_ty("List[RFile]"), "files")})},
    attrs={"RFile.virtual_write": lambda I, a, k, n: _vw_call(I), "RFile.rewrite": lambda I, a, k, n: _rw_call(I)},
    ghost={"vars": {"n_virtual": "=0", "n_disk": "=0"}, "may_raise": True, "light_feasibility": True},
    loops={0: Loop(index="k", ghost_modifies=["n_virtual"], inv={"one-preview-per-file-so-far": "n_virtual == k and n_disk == 0"})},
    ensures={
        # C04: computing the preview of a category touches no file on disk (the real write is fix_all, after approval)
        "previews-every-file-and-writes-none [C04,C19,C15]": "n_virtual == len(_iter0) and n_disk == 0",
    },
    raises={"Exception": {"writes-none [C04,C15]": "n_disk == 0"}},
    safety_props=["C18"],
)


def _vw_call(I):
    from .files import _ginc
    _ginc(I, "n_virtual")
    I.V.may_raise(I, "virtual_write")
    return None


def _rw_call(I):
    from .files import _ginc
    _ginc(I, "n_disk")
    return None

# ---------------------------------------------------------------------------------------------- DiscStorage.lookup_all / list
#
# X8 (pathlib): `directory.glob(pattern)` yields exactly the entries of the directory whose name matches the pattern,
# `directory.iterdir()` yields exactly its entries; `path.name == path.stem + path.suffix`.  `stored(x)`: a file named x is in the
# storage directory.  These two functions are the callee contracts `unused_externals` is verified against.

import contracts.external  # noqa: F401  (declares PathRec)
from pyvc.types import SSet
from .find_external import GLOB_MATCH

EX = "inline_snapshot._external"
STORED = z3.Function("stored", z3.StringSort(), z3.BoolSort())
_PL = parse_ty("List[PathRec]")


def _name_of(rec_term):
    s = sort_of(parse_ty("PathRec"))
    return z3.Concat(s.accessor(0, 0)(rec_term), s.accessor(0, 1)(rec_term))


DEFAULT_POLICIES["attrs"].update({"PathRec.name": ("property", lambda I, o: SV(_name_of(pack(I.ctx, o, parse_ty("PathRec"))), STR))})


def _entries(I, what, member):
    """a list of directory entries whose names are exactly the strings x with member(x): every entry is a member, and every
    member has a position in the list (Skolem function `pos`, no quantifier alternation)"""
    files = fresh_value(I.ctx, _PL, what)
    x = z3.String(I.ctx.fresh_name("x"))
    j = z3.Int(I.ctx.fresh_name("j"))
    pos = z3.Function(I.ctx.fresh_name("pos"), z3.StringSort(), z3.IntSort())
    I.ctx.assume(z3.ForAll([j], z3.Implies(z3.And(0 <= j, j < files.nz()), member(_name_of(z3.Select(files.arr, j))))))
    I.ctx.assume(z3.ForAll([x], z3.Implies(member(x), z3.And(0 <= pos(x), pos(x) < files.nz(), _name_of(z3.Select(files.arr, pos(x))) == x))))
    return files


def _dir_glob(I2, pat):
    I2.ghost["n_glob"] = I2.ghost["n_glob"] + 1
    I2.ghost["globbed"] = pat
    return _entries(I2, "matching_files", lambda x: z3.And(STORED(x), GLOB_MATCH(pack(I2.ctx, pat, STR), x)))


def _dir_iterdir(I2):
    I2.ghost["n_iterdir"] = I2.ghost["n_iterdir"] + 1
    return _entries(I2, "directory_entries", lambda x: STORED(x))


def _dir_exists(I2):
    return I2.ghost["dir_exists"]


def _set_is(I, s, member, direction):
    x = z3.String(I.ctx.fresh_name("m"))
    if isinstance(s, (set, frozenset)):
        inside = z3.Or([x == z3.StringVal(e) for e in s]) if s else z3.BoolVal(False)
    elif isinstance(s, SSet):
        inside = z3.Select(s.pred, x)
    else:
        return False
    return SV(z3.ForAll([x], z3.Implies(inside, member(x)) if direction == "only" else z3.Implies(member(x), inside)), BOOL)


def _m_match(I, name):
    return lambda x: z3.And(STORED(x), GLOB_MATCH(pack(I.ctx, name, STR), x))


def _m_files(I, ex):
    return lambda x: z3.And(I.zbool(ex), STORED(x), x != z3.StringVal(".gitignore"))


SPEC_NS["only_stored_matches"] = lambda I, s, name: _set_is(I, s, _m_match(I, name), "only")
SPEC_NS["all_stored_matches"] = lambda I, s, name: _set_is(I, s, _m_match(I, name), "all")
SPEC_NS["only_stored_files"] = lambda I, s, ex: _set_is(I, s, _m_files(I, ex), "only")
SPEC_NS["all_stored_files"] = lambda I, s, ex: _set_is(I, s, _m_files(I, ex), "all")

SHAPES.update({"QStorage": Shape(EX + ".DiscStorage", {"directory": "@QDir"}),
               "QDir": Shape("pathlib.Path", {"glob": _dir_glob, "iterdir": _dir_iterdir, "exists": _dir_exists})})
_QG = {"vars": {"n_glob": "=0", "n_iterdir": "=0", "globbed": "=None", "dir_exists": "Bool"}}

contract(
    EX + ".DiscStorage.lookup_all",
    params={"self": "@QStorage", "name": "Str"},
    ghost=_QG,
    returns=None,
    result_name="ret",
    ensures={
        # C13: "a persisted file is removed only ... if no test file that took part in the session references it": a reference
        # (possibly a shortened hash: a glob) stands for exactly the stored files whose name matches it
        "only-names-of-stored-files-matching-the-reference [C13,C04]": "only_stored_matches(ret, name) and globbed == name and n_glob == 1",
        "every-stored-file-matching-the-reference [C13,C04]": "all_stored_matches(ret, name)",
    },
    frame=[],
    safety_props=["C18"],
    assumes=["X8"],
)

contract(
    EX + ".DiscStorage.list",
    params={"self": "@QStorage"},
    ghost=_QG,
    returns=None,
    result_name="ret",
    ensures={
        # the trim candidates start from exactly the files of the storage directory (never the .gitignore inline-snapshot wrote itself)
        "only-names-of-stored-files [C13,C04]": "only_stored_files(ret, dir_exists)",
        "every-stored-file [C13,C04]": "all_stored_files(ret, dir_exists)",
    },
    frame=[],
    safety_props=["C18"],
    assumes=["X8"],
)

# ---------------------------------------------------------------------------------------------- Adapter.get_adapter
#
# C02/C11: a container is edited in place (elements kept, constructor name kept) only when the old and the new value have *the same
# class*; any other pair - also a subclass instance, bool vs int, namedtuple vs tuple - is replaced as a whole by the ValueAdapter,
# so that the text written evaluates to a value of the new class.  `type(v)` is the uninterpreted `type_of_Val` (PS7).

AD = "inline_snapshot._adapter.adapter"


def _p_adapter_type(I, args, kwargs, node):
    I.ghost["n_type_lookup"] = I.ghost["n_type_lookup"] + 1
    I.ghost["looked_up"] = args[0]

    def make(I2, ctx):
        return Obj("AdapterForTheClassOfTheValue", {"context": ctx})

    return make


def _p_value_adapter(I, args, kwargs, node):
    return Obj("inline_snapshot._adapter.value_adapter.ValueAdapter", {"context": args[0]})


def s_same_class(I, a, b):
    f = z3.Function("type_of_Val", sort_of(VAL), sort_of(Abs("PyType")))
    return SV(f(val_term(I, a)) == f(val_term(I, b)), BOOL)


SPEC_NS["same_class"] = s_same_class
SHAPES.update({"AnAdapter": Shape(AD + ".Adapter", {"context": "Opaque"})})

contract(
    AD + ".Adapter.get_adapter",
    params={"self": "@AnAdapter", "old_value": "Val", "new_value": "Val"},
    callees={AD + ".get_adapter_type": _p_adapter_type, "ValueAdapter": _p_value_adapter,
             "inline_snapshot._adapter.value_adapter.ValueAdapter": _p_value_adapter},
    ghost={"vars": {"n_type_lookup": "=0", "looked_up": "=None"}},
    returns=None,
    result_name="ret",
    ensures={
        "element-wise-editing-only-for-values-of-the-same-class [C02,C11,C01]":
            "implies(not same_class(old_value, new_value), cls_is(ret, 'ValueAdapter'))"
            " and implies(same_class(old_value, new_value), cls_is(ret, 'AdapterForTheClassOfTheValue') and looked_up is old_value)",
        "adapter-works-in-the-same-context [C14]": "ret.context is self.context",
    },
    frame=[],
    safety_props=["C18"],
    assumes=["PS7"],
)

# ---------------------------------------------------------------------------------------------- get_adapter_type
#
# Which values are edited element by element (C02/C11) and which are replaced as a whole: a registered constructor-call adapter
# for the *exact class* first, then lists (any list subclass), *exact* tuples only (a namedtuple / tuple subclass must not be edited
# as a plain tuple: its text is a constructor call), dicts; everything else is a leaf.


def _p_adapter_for_type(I, args, kwargs, node):
    I.ghost["for_type_of"] = args[0]
    if I.ctx.branch(z3.Bool("has_registered_adapter")):
        I.ghost["registered"] = True
        return Obj("RegisteredCallAdapter", {})
    I.ghost["registered"] = False
    return None


def _classref_is(I, r, name):
    from pyvc.types import ClassRef
    return isinstance(r, ClassRef) and r.name == name


SPEC_NS["classref_is"] = _classref_is

contract(
    AD + ".get_adapter_type",
    params={"value": "Val"},
    callees={"inline_snapshot._adapter.generic_call_adapter.get_adapter_for_type": _p_adapter_for_type},
    ghost={"vars": {"registered": "=False", "for_type_of": "=None"}},
    returns=None,
    result_name="ret",
    ensures={
        "registered-class-first [C02,C11,C01]": "implies(registered, cls_is(ret, 'RegisteredCallAdapter'))",
        "containers-by-kind-leaves-otherwise [C02,C11,C01,C10]":
            "implies(not registered, ite(isinst(value, 'list'), classref_is(ret, 'ListAdapter'), ite(type(value) is tuple, classref_is(ret, 'TupleAdapter'),"
            " ite(isinst(value, 'dict'), classref_is(ret, 'DictAdapter'), classref_is(ret, 'ValueAdapter')))))",
        "asks-for-the-class-of-the-value [C02]": "for_type_of is type(value)",
    },
    frame=[],
    safety_props=["C18"],
    assumes=["PS7"],
)

# ---------------------------------------------------------------------------------------------- used_externals
#
# C13: "a persisted file is removed only ... if no test file that took part in the session references it": the references of the
# session are the union over *every* file with snapshots of the references found in its current text.  `used_in(text, x)`:
# `used_externals_in(text)` contains x (ast.parse / ast.walk: not under contract); `text_of(f)`: content of file f (X5).

FE = "inline_snapshot._find_external"
USED_IN = z3.Function("used_in", sort_of(TXT), z3.StringSort(), z3.BoolSort())
TEXT_OF = z3.Function("text_of_file", z3.StringSort(), sort_of(TXT))


def _p_used_in(I, args, kwargs, node):
    t = args[0]
    from .files import _ginc
    _ginc(I, "n_scanned")
    x = z3.String(I.ctx.fresh_name("u"))
    if not (isinstance(t, SV) and t.ty == TXT):
        # not the text of a file: the references of that file are not what is collected
        I.oblige("safety", "scans-the-text-of-each-file [C13]", z3.BoolVal(False))
        return fresh_value(I.ctx, parse_ty("Set[Str]"), "refs")
    return SSet(z3.Lambda([x], USED_IN(t.t, x)), STR)


def _p_path_of(I, args, kwargs, node):
    name = args[0]

    def read_text(I2, enc=None):
        return SV(TEXT_OF(pack(I2.ctx, name, STR)), TXT)

    return Obj("pathlib.Path", {"read_text": read_text})


def _member_of(s, x):
    if isinstance(s, SSet):
        return z3.Select(s.pred, x)
    if isinstance(s, (set, frozenset)):
        return z3.Or([x == z3.StringVal(e) for e in s]) if s else z3.BoolVal(False)
    return None


def s_has_refs_of_first(I, result, files, k):
    """every reference found in files[0..k) is in result"""
    x, j = z3.String(I.ctx.fresh_name("x")), z3.Int(I.ctx.fresh_name("j"))
    m = _member_of(result, x)
    if m is None:
        return False
    kk = k.t if isinstance(k, SV) else z3.IntVal(k)
    return SV(z3.ForAll([x, j], z3.Implies(z3.And(0 <= j, j < kk, USED_IN(TEXT_OF(z3.Select(files.arr, j)), x)), m)), BOOL)


def s_only_refs_of_first(I, result, files, k):
    """everything in result is a reference found in one of files[0..k)"""
    x, j = z3.String(I.ctx.fresh_name("x")), z3.Int(I.ctx.fresh_name("j"))
    m = _member_of(result, x)
    if m is None:
        return False
    kk = k.t if isinstance(k, SV) else z3.IntVal(k)
    return SV(z3.ForAll([x], z3.Implies(m, z3.Exists([j], z3.And(0 <= j, j < kk, USED_IN(TEXT_OF(z3.Select(files.arr, j)), x))))), BOOL)


SPEC_NS.update({"has_refs_of_first": s_has_refs_of_first, "only_refs_of_first": s_only_refs_of_first})
SHAPES.update({"FState": Shape("inline_snapshot._global_state.State", {"files_with_snapshots": "Set[Str]"})})

contract(
    FE + ".used_externals",
    params={},
    globals_={"state": "@FState"},
    callees={FE + ".used_externals_in": _p_used_in, "pathlib.Path": _p_path_of},
    ghost={"vars": {"n_scanned": "=0"}, "locals": {"result": "Set[Str]"}},
    loops={0: Loop(index="k", ghost_modifies=["n_scanned"], inv={
        "references-of-the-files-seen-so-far": "has_refs_of_first(result, _iter0, k)",
        "nothing-else": "only_refs_of_first(result, _iter0, k)",
    })},
    returns=None,
    result_name="ret",
    ensures={
        # no file of the session is skipped: a reference in any of them protects the stored file from trim
        "every-reference-of-every-file-of-the-session [C13,C04]": "has_refs_of_first(ret, _iter0, len(_iter0))",
        "only-references-found-in-those-files [C13]": "only_refs_of_first(ret, _iter0, len(_iter0))",
    },
    frame=[],
    safety_props=["C18"],
    assumes=["X5"],
)

# ---------------------------------------------------------------------------------------------- DataclassAdapter / PydanticContainer / AttrAdapter .arguments
#
# C01/C02: "the text written ... makes that same comparison hold": a constructor argument may be left out of the generated call
# only when the value the constructor would use instead - the field's default, or what its default factory returns - equals the
# current value of the attribute.  Environment (third-party introspection, assumed): `fields(value)` / `model_fields.items()` /
# `attrs.fields(type(value))` list the fields with `name`, `repr`, `default`, `default_factory`; `getattr(value, name)` is the
# current attribute value `attr(value, name)`; calling a factory gives `made(factory)` (PS7: deterministic).

GC = "inline_snapshot._adapter.generic_call_adapter"
DF = Abs("DField")
_ATTR = z3.Function("attr_of", sort_of(VAL), z3.StringSort(), sort_of(VAL))
_MADE = z3.Function("made_by", sort_of(VAL), sort_of(VAL))
declare_record("ArgRec", {"value": VAL, "is_default": BOOL})


def _p_getattr(I, args, kwargs, node):
    o, name = args[0], args[1]
    if isinstance(o, SV) and o.ty == VAL:
        return SV(_ATTR(o.t, pack(I.ctx, name, STR)), VAL)
    if isinstance(o, SV) and o.ty == DF and name == "repr":
        return I.V.abs_attr(I, o, "repr", node)
    from pyvc.calls import b_getattr
    return b_getattr(I, o, name, *args[2:])


def _call_value(I, f, args, kwargs, node):
    if f.ty == VAL and not args and not kwargs:
        return SV(_MADE(f.t), VAL)
    if f.ty == VAL:
        # a factory that takes the instance (attrs `takes_self`): a function of factory and instance
        g = z3.Function("made_by_with", sort_of(VAL), sort_of(VAL), sort_of(VAL))
        return SV(g(f.t, val_term(I, args[0])), VAL)
    raise RuntimeError("call of " + repr(f))


def _p_argument(I, args, kwargs, node):
    v = kwargs.get("value", args[0] if args else None)
    d = kwargs.get("is_default", args[1] if len(args) > 1 else False)
    if isinstance(d, SV) and d.ty != BOOL:
        t = I.truth(d)  # the flag is only ever used for its truth value
        d = t if isinstance(t, bool) else SV(t, BOOL)
    I.ghost["arg_value"] = v
    I.ghost["arg_default"] = d
    from pyvc.interp import Obj as _O
    return Obj("ArgRec", {"value": v, "is_default": d}, rec=parse_ty("ArgRec"))


def _any_attr(I, sv, attr):
    if sv.ty == VAL:
        return SV(_ATTR(sv.t, z3.StringVal(attr)), VAL)
    raise RuntimeError(f"attribute {attr} of {sv.ty}")


def _p_fields(I, args, kwargs, node):
    I.ghost["fields_of"] = args[0]
    return fresh_value(I.ctx, parse_ty("List[DField]"), "fields")


def s_attr(I, v, name):
    return SV(_ATTR(val_term(I, v), pack(I.ctx, name, STR)), VAL)


def s_made(I, f):
    return SV(_MADE(val_term(I, f)), VAL)


SPEC_NS.update({"attr": s_attr, "made": s_made, "ne": lambda I, a, b: SPEC_NS["user_cmp_hook"](I, "ne", a, b, None)})
_FATTRS = {"DField.name": "Str", "DField.repr": "Bool", "DField.default": "Val", "DField.default_factory": "Val", "DField.init": "Bool"}
_OMIT_OK = ("implies(T(arg_default), (T(ne(field.default, MISSING)) and T(eq(field.default, attr(value, field.name))))"
            " or (T(ne(field.default_factory, MISSING)) and T(eq(made(field.default_factory), attr(value, field.name)))))")

contract(
    GC + ".DataclassAdapter.arguments",
    params={"cls": "Opaque", "value": "Val"},
    attrs=_FATTRS,
    callees={"getattr": _p_getattr, "dataclasses.fields": _p_fields, "fields": _p_fields, GC + ".Argument": _p_argument, "Argument": _p_argument},
    ghost={"vars": {"arg_value": "=None", "arg_default": "=None", "fields_of": "=None"}, "call_value_hook": _call_value, "abs_attr_default": _any_attr,
           "locals": {"kwargs": "Dict[Str,ArgRec]"}, "names": {"MISSING": lambda I: SV(z3.Const("MISSING_sentinel", sort_of(VAL)), VAL)}},
    loops={0: Loop(index="k", ghost_modifies=["arg_value", "arg_default"], inv={}, iter_post={
        # what is stored for a shown field: the current attribute value, and "default" only when it equals the default / factory result
        "stores-the-current-value [C01,C02]": "implies(field.repr, kwargs[field.name].value is arg_value and same(arg_value, attr(value, field.name)))",
        "omitted-only-when-equal-to-the-default [C01,C02,C11]": "implies(field.repr, kwargs[field.name].is_default == T(arg_default) and " + _OMIT_OK + ")",
    })},
    returns=None,
    result_name="ret",
    ensures={"no-positional-arguments-and-the-fields-of-the-value [C01,C02]": "len(ret[0]) == 0 and fields_of is value"},
    frame=[],
    safety_props=["C18"],
    assumes=["PS7"],
)


def _p_get_fields(I, args, kwargs, node):
    """get_fields(value).items(): (name, field) pairs of the model"""
    I.ghost["fields_of"] = args[0]
    pairs = fresh_value(I.ctx, parse_ty("List[Tuple[Str,DField]]"), "model_fields")
    return Obj("FieldTable", {"items": lambda I2: pairs})


_OMIT_OK_P = ("implies(T(arg_default), (field.default is not PydanticUndefined and T(eq(field.default, attr(value, name))))"
              " or (field.default_factory is not None and T(eq(made(field.default_factory), attr(value, name)))))")

contract(
    GC + ".PydanticContainer.arguments",
    params={"cls": "Opaque", "value": "Val"},
    attrs=_FATTRS,
    callees={"getattr": _p_getattr, GC + ".get_fields": _p_get_fields, "get_fields": _p_get_fields, GC + ".Argument": _p_argument, "Argument": _p_argument},
    ghost={"vars": {"arg_value": "=None", "arg_default": "=None", "fields_of": "=None"}, "call_value_hook": _call_value, "abs_attr_default": _any_attr,
           "locals": {"kwargs": "Dict[Str,ArgRec]"},
           "names": {"PydanticUndefined": lambda I: SV(z3.Const("PydanticUndefined_sentinel", sort_of(VAL)), VAL)}},
    loops={0: Loop(index="k", ghost_modifies=["arg_value", "arg_default"], inv={}, iter_post={
        "stores-the-current-value [C01,C02]": "implies(field.repr, kwargs[name].value is arg_value and same(arg_value, attr(value, name)))",
        # in particular: "never passed to the constructor" (model_fields_set) is no reason to leave a field out - a default list that
        # was changed in place afterwards has to be written
        "omitted-only-when-equal-to-the-default [C01,C02,C11]": "implies(field.repr, kwargs[name].is_default == T(arg_default) and " + _OMIT_OK_P + ")",
    })},
    returns=None,
    result_name="ret",
    ensures={"no-positional-arguments-and-the-fields-of-the-value [C01,C02]": "len(ret[0]) == 0 and fields_of is value"},
    frame=[],
    safety_props=["C18"],
    assumes=["PS7"],
)


def _nt_setup(I, env):
    I.ghost["nt_fields"] = fresh_value(I.ctx, parse_ty("List[Str]"), "_fields")
    I.ghost["nt_defaults"] = fresh_value(I.ctx, parse_ty("Dict[Str,Val]"), "_field_defaults")


def _nt_attr(I, sv, attr):
    if sv.ty == VAL and attr == "_fields":
        return I.ghost["nt_fields"]
    if sv.ty == VAL and attr == "_field_defaults":
        return I.ghost["nt_defaults"]
    return _any_attr(I, sv, attr)


_F = "nt_fields[j]"
contract(
    GC + ".NamedTupleAdapter.arguments",
    params={"cls": "Opaque", "value": "Val"},
    callees={"getattr": _p_getattr, GC + ".Argument": _p_argument, "Argument": _p_argument},
    ghost={"vars": {"arg_value": "=None", "arg_default": "=None"}, "setup": _nt_setup, "abs_attr_default": _nt_attr},
    requires={"field-names-are-distinct (enforced by namedtuple)": "all(all(nt_fields[i] != nt_fields[j] for j in range(i + 1, len(nt_fields))) for i in range(0, len(nt_fields)))"},
    returns=None,
    result_name="ret",
    ensures={
        # a field may be missing from the generated call only if the class has a default for it and the current value is not unequal to it
        # (a required field - also one holding None - is always written)
        "omitted-only-with-a-default-equal-to-the-value [C01,C02,C11]":
            f"all(implies({_F} not in ret[1], {_F} in nt_defaults and not T(ne(attr(value, {_F}), nt_defaults[{_F}]))) for j in range(0, len(nt_fields)))",
        "written-fields-carry-the-current-value [C01,C02]":
            f"all(implies({_F} in ret[1], same(ret[1][{_F}].value, attr(value, {_F})) and not ret[1][{_F}].is_default) for j in range(0, len(nt_fields)))",
        "no-positional-arguments [C01]": "len(ret[0]) == 0",
    },
    frame=[],
    safety_props=["C18"],
    assumes=["PS7"],
)

# AttrAdapter.arguments: `attrs.fields(type(value))`; a default is `attrs.NOTHING` (none), a plain value, or an `attrs.Factory`
# (called without arguments, or with the instance when `takes_self`).  Environment: `isinstance(default, attrs.Factory)` is the
# uninterpreted `isinst_Factory`, `default.factory` / `default.takes_self` are attributes of the default value.


def _p_attrs_fields(I, args, kwargs, node):
    I.ghost["fields_of"] = args[0]
    return fresh_value(I.ctx, parse_ty("List[DField]"), "attrs_fields")


def _attrs_module(I):
    nothing = SV(z3.Const("attrs_NOTHING_sentinel", sort_of(VAL)), VAL)
    from pyvc.types import ClassRef
    from pyvc.types import FuncRef as _FR
    return Obj("attrs-module", {"NOTHING": nothing, "Factory": ClassRef("Factory", "attrs.Factory"), "fields": _p_attrs_fields_m, "has": lambda I2, v: Opaque("attrs.has")})


def _p_attrs_fields_m(I2, t):
    return _p_attrs_fields(I2, [t], {}, None)


def _attr_default_of(I, sv, attr):
    if sv.ty == VAL and attr == "takes_self":
        return SV(z3.Function("takes_self", sort_of(VAL), z3.BoolSort())(sv.t), BOOL)
    return _any_attr(I, sv, attr)


def s_attrs_default(I, field, value):
    """the value the attrs-generated __init__ uses for a field that is not passed"""
    d = I.V.abs_attr(I, field, "default", None)
    isf = z3.Function("isinst_Factory", sort_of(VAL), z3.BoolSort())(d.t)
    fac = _ATTR(d.t, z3.StringVal("factory"))
    ts = z3.Function("takes_self", sort_of(VAL), z3.BoolSort())(d.t)
    g = z3.Function("made_by_with", sort_of(VAL), sort_of(VAL), sort_of(VAL))
    return SV(z3.If(isf, z3.If(ts, g(fac, val_term(I, value)), _MADE(fac)), d.t), VAL)


def s_has_attrs_default(I, field):
    d = I.V.abs_attr(I, field, "default", None)
    return SV(d.t != z3.Const("attrs_NOTHING_sentinel", sort_of(VAL)), BOOL)


SPEC_NS["attrs_default"] = s_attrs_default
SPEC_NS["has_attrs_default"] = s_has_attrs_default

contract(
    GC + ".AttrAdapter.arguments",
    params={"cls": "Opaque", "value": "Val"},
    attrs=_FATTRS,
    callees={"getattr": _p_getattr, GC + ".Argument": _p_argument, "Argument": _p_argument},
    ghost={"vars": {"arg_value": "=None", "arg_default": "=None", "fields_of": "=None"}, "call_value_hook": _call_value, "abs_attr_default": _attr_default_of,
           "locals": {"kwargs": "Dict[Str,ArgRec]"}, "names": {"attrs": _attrs_module}},
    loops={0: Loop(index="k", ghost_modifies=["arg_value", "arg_default"], inv={}, iter_post={
        "stores-the-current-value [C01,C02]": "implies(field.repr, kwargs[field.name].value is arg_value and same(arg_value, attr(value, field.name)))",
        "omitted-only-when-equal-to-the-default [C01,C02,C11]":
            "implies(field.repr, kwargs[field.name].is_default == T(arg_default) and implies(T(arg_default), has_attrs_default(field) and T(eq(attrs_default(field, value), attr(value, field.name)))))",
    })},
    returns=None,
    result_name="ret",
    ensures={"no-positional-arguments [C01,C02]": "len(ret[0]) == 0"},
    frame=[],
    safety_props=["C18"],
    assumes=["PS7"],
)
