"""ensure_import (C03: the only edit allowed outside snapshot() arguments is the import line, and the result stays valid Python)."""
import z3

from pyvc.contract import Loop, Shape, contract
from pyvc.core import fresh_value, pack, unpack
from pyvc.types import BOOL, INT, Abs, Obj, Opaque, SV, parse_ty, sort_of

from . import change as _chg  # declares the Token record

FE = "inline_snapshot._find_external"
TOKEN = parse_ty("Token")
STMT = Abs("Stmt")


def _tok_le(a, b):
    """lexicographic (line, col) <= on packed Tuple[Int,Int] terms"""
    s = sort_of(parse_ty("Tuple[Int,Int]"))
    l, c = s.accessor(0, 0), s.accessor(0, 1)
    return z3.Or(l(a) < l(b), z3.And(l(a) == l(b), c(a) <= c(b)))


def p_for_filename(I, args, kwargs, node):
    """executing.Source.for_filename: tree + asttokens of the file (X3: statements of a module body are ordered,
    every statement's first token starts before its last token ends)."""
    body = fresh_value(I.ctx, parse_ty("List[Stmt]"), "body")
    first = z3.Function("Stmt_first_token", sort_of(STMT), sort_of(TOKEN))
    last = z3.Function("Stmt_last_token", sort_of(STMT), sort_of(TOKEN))
    ts = sort_of(TOKEN)
    st, en = ts.accessor(0, 0), ts.accessor(0, 1)
    i = z3.Int(I.ctx.fresh_name("bi"))
    I.ctx.assume(z3.ForAll([i], z3.Implies(z3.And(0 <= i, i < body.nz()),
                 z3.And(_tok_le(st(first(z3.Select(body.arr, i))), en(last(z3.Select(body.arr, i)))),
                        _tok_le(st(last(z3.Select(body.arr, i))), en(last(z3.Select(body.arr, i)))))),
                 patterns=[z3.Select(body.arr, i)]), tag="X3")
    j, m = z3.Int(I.ctx.fresh_name("bj")), z3.Int(I.ctx.fresh_name("bm"))
    I.ctx.assume(z3.ForAll([j, m], z3.Implies(z3.And(0 <= j, j < m, m < body.nz()),
                 _tok_le(en(last(z3.Select(body.arr, j))), st(first(z3.Select(body.arr, m))))),
                 patterns=[z3.MultiPattern(z3.Select(body.arr, j), z3.Select(body.arr, m))]), tag="X3")
    I.ctx.assume(body.nz() >= 1, tag="a test module has at least one statement")
    I.ghost["stmts"] = body
    tree = Obj("ast.Module", {"body": body})

    def next_token(I2, tok):
        """X3: the next token of the stream starts at or after the end of this one"""
        nt = fresh_value(I2.ctx, TOKEN, "next_token")
        I2.ctx.assume(z3.And(_tok_le(pack(I2.ctx, tok.fields["end"], parse_ty("Tuple[Int,Int]")), pack(I2.ctx, nt.fields["start"], parse_ty("Tuple[Int,Int]"))),
                             _tok_le(pack(I2.ctx, nt.fields["start"], parse_ty("Tuple[Int,Int]")), pack(I2.ctx, nt.fields["end"], parse_ty("Tuple[Int,Int]")))))
        return nt

    toks = Obj("asttokens.ASTTokens", {"next_token": next_token})
    return Obj("executing.Source", {"tree": tree, "asttokens": lambda I2: toks})


def p_new_change(I, args, kwargs, node):
    return Obj("inline_snapshot._rewrite_code.Change", {})


def p_insert(I, args, kwargs, node):
    pos = args[1]
    I.ghost["ins_pos"] = (pos.fields["lineno"], pos.fields["col_offset"])
    I.ghost["n_insert"] = I.ghost["n_insert"] + 1
    return None


def s_is_import(I, st):
    f1 = z3.Function("isinst_ImportFrom", sort_of(STMT), z3.BoolSort())
    f2 = z3.Function("isinst_Import", sort_of(STMT), z3.BoolSort())
    return SV(z3.Or(f1(st.t), f2(st.t)), BOOL)


def s_is_docstring(I, st):
    """a module docstring: an expression statement holding a str constant (the same test the code makes)"""
    AV, PV = Abs("AstV"), Abs("PyV")
    val = z3.Function("Stmt_value", sort_of(STMT), sort_of(AV))
    val2 = z3.Function("AstV_value", sort_of(AV), sort_of(PV))
    e = z3.Function("isinst_Expr", sort_of(STMT), z3.BoolSort())
    c = z3.Function("isinst_Constant", sort_of(AV), z3.BoolSort())
    st_ = z3.Function("isinst_str", sort_of(PV), z3.BoolSort())
    return SV(z3.And(e(st.t), c(val(st.t)), st_(val2(val(st.t)))), BOOL)


from pyvc.specs import SPEC_NS

SPEC_NS.update({"is_import": s_is_import, "is_docstring": s_is_docstring})

contract(
    FE + ".ensure_import",
    params={"filename": "Opaque", "imports": "Opaque", "recorder": "@Recorder"},
    shapes={"Recorder": Shape("inline_snapshot._rewrite_code.ChangeRecorder", {})},
    callees={
        "executing.Source.for_filename": p_for_filename, "Source.for_filename": p_for_filename,
        "ChangeRecorder.new_change": p_new_change, "Change.insert": p_insert,
        "inline_snapshot._find_external.contains_import": "havoc",
        "inline_snapshot._rewrite_code.start_of": "inline", "inline_snapshot._rewrite_code.end_of": "inline",
    },
    # lineno/col_offset of a statement are NOT its first token (a decorated def starts at its first decorator): left unrelated
    attrs={"Stmt.first_token": "Token", "Stmt.last_token": "Token", "Stmt.value": "AstV", "AstV.value": "PyV",
           "Stmt.lineno": "Int", "Stmt.col_offset": "Int", "Stmt.end_lineno": "Int", "Stmt.end_col_offset": "Int"},
    requires={},
    ghost={"vars": {"ins_pos": "=None", "n_insert": "=0", "stmts": "=None"},
           "locals": {"last_import": "Opt[Stmt]", "last_token": "Token"},
           "untracked": ["to_add", "code"], "havoc_unknown_externals": True, "light_feasibility": True,
           "import_ok": None},
    loops={
        2: Loop(index="k", ghost_modifies=[], inv={
            "leading-imports": "all(is_import(body[j]) for j in range(0, k))",
            "last-import-is-previous": "(last_import is None) == (k == 0)",
            "last-import-value": "implies(k > 0, last_import == body[k - 1])",
        }),
        3: Loop(ghost_modifies=[], inv={
            "still-after-the-imports": "implies(last_import is not None, last_import.last_token.end <= last_token.end)",
            "still-after-the-docstring": "implies(docstring is not None, docstring.last_token.end <= last_token.end)",
            "leading-imports": "all(is_import(body[j]) for j in range(0, k))",
            "last-import-value": "(last_import is None) == (k == 0) and implies(k > 0, last_import == body[k - 1]) and k <= len(body)",
        }),
    },
    ensures={
        "inserts-once [C03]": "n_insert == 1",
        # C03: "a rewritten test file is still valid Python": the import goes after the leading import block ...
        "after-the-leading-imports [C03]": "ifdef(['k'], all(body[j].last_token.end <= ins_pos for j in range(0, k)))",
        # ... and never in front of the module docstring (a docstring moved behind an import is no docstring, and a following
        # `from __future__ import` would become a SyntaxError)
        "after-the-module-docstring [C03]": "implies(is_docstring(stmts[0]), stmts[0].last_token.end <= ins_pos)",
        "nothing-else-in-front [C03]": "implies(not is_docstring(stmts[0]) and not is_import(stmts[0]), ins_pos == stmts[0].first_token.start)",
    },
    safety_props=["C18", "C03"],
    assumes=["X3"],
)

# ---------------------------------------------------------------------------------------------- contains_import

from pyvc.types import STR


def s_imports_name(I, st, module, name):
    """statement st is `from <module> import ..., <name>, ...` (the same test the code makes)"""
    f1 = z3.Function("isinst_ImportFrom", sort_of(STMT), z3.BoolSort())
    mod = z3.Function("Stmt_module", sort_of(STMT), z3.StringSort())
    names = z3.Function("Stmt_names", sort_of(STMT), sort_of(parse_ty("List[Alias]")))
    an = z3.Function("Alias_name", sort_of(Abs("Alias")), z3.StringSort())
    ls = sort_of(parse_ty("List[Alias]"))
    arr, ln = ls.accessor(0, 0), ls.accessor(0, 1)
    a = z3.Int(I.ctx.fresh_name("ia"))
    return SV(z3.And(f1(st.t), mod(st.t) == pack(I.ctx, module, STR),
                     z3.Exists([a], z3.And(0 <= a, a < ln(names(st.t)), an(z3.Select(arr(names(st.t)), a)) == pack(I.ctx, name, STR)))), BOOL)


SPEC_NS["imports_name"] = s_imports_name

contract(
    FE + ".contains_import",
    params={"tree": "@ModuleTree", "module": "Str", "name": "Str"},
    shapes={"ModuleTree": Shape("ast.Module", {"body": "List[Stmt]"})},
    attrs={"Stmt.module": "Str", "Stmt.names": "List[Alias]", "Alias.name": "Str"},
    returns=None,
    result_name="ret",
    loops={0: Loop(index="k", inv={"no-earlier-match": "all(not imports_name(tree.body[j], module, name) for j in range(0, k))"})},
    ensures={
        # C03/C01: the import is considered present only if a *module-level* `from <module> import <name>` exists: a function-local
        # or conditional import does not make the name available to the generated code
        "true-iff-a-module-level-import-exists [C03,C01,C13,C09]": "ret == any(imports_name(tree.body[j], module, name) for j in range(0, len(tree.body)))",
    },
    frame=[],
    safety_props=["C18"],
    ghost={"havoc_unknown_externals": True},
)

# ---------------------------------------------------------------------------------------------- unused_externals

from pyvc.defaults import SHAPES
from pyvc.types import SSet

GLOB_MATCH = z3.Function("glob_match", z3.StringSort(), z3.StringSort(), z3.BoolSort())


def _pred(s):
    return s.pred


def p_storage_list(I):
    r = fresh_value(I.ctx, parse_ty("Set[Str]"), "listed")
    I.ghost["listed"] = r
    I.ghost["n_list"] = I.ghost["n_list"] + 1
    return r


def p_storage_lookup_all(I, name):
    """storage.lookup_all(name): the names of all stored files matching the glob `name` (contract of DiscStorage.lookup_all)"""
    x = z3.String(I.ctx.fresh_name("f"))
    return SSet(z3.Lambda([x], GLOB_MATCH(name.t, x)), STR)


def p_used_externals(I, args, kwargs, node):
    r = fresh_value(I.ctx, parse_ty("Set[Str]"), "used")
    I.ghost["used"] = r
    return r


def _member(s, x):
    """membership of x in a set value: a predicate set, a concrete python set of strings, or something else (None: not a set)"""
    if isinstance(s, SSet):
        return z3.Select(s.pred, x)
    if isinstance(s, (set, frozenset)) and all(isinstance(e, str) for e in s):
        return z3.Or([x == z3.StringVal(e) for e in s]) if s else z3.BoolVal(False)
    return None


def s_subset(I, a, b):
    x = z3.String(I.ctx.fresh_name("x"))
    ma, mb = _member(a, x), _member(b, x)
    if ma is None or mb is None:
        return False  # the function no longer returns a set the contract can talk about: the clause does not hold
    return SV(z3.ForAll([x], z3.Implies(ma, mb)), BOOL)


def s_no_match_of_first(I, s, names, k):
    """no member of s matches one of names[0..k)"""
    x = z3.String(I.ctx.fresh_name("x"))
    j = z3.Int(I.ctx.fresh_name("j"))
    kk = k.t if isinstance(k, SV) else z3.IntVal(k)
    ms = _member(s, x)
    if ms is None:
        return False
    return SV(z3.ForAll([x, j], z3.Implies(z3.And(0 <= j, j < kk, GLOB_MATCH(z3.Select(names.arr, j), x)), z3.Not(ms))), BOOL)


def s_no_match_of_any(I, s, names):
    """no member of s matches a member of the set names"""
    x = z3.String(I.ctx.fresh_name("x"))
    n = z3.String(I.ctx.fresh_name("n"))
    if isinstance(s, (set, frozenset)) and not s:
        return True  # nothing is handed to trim at all
    ms, mn = _member(s, x), _member(names, n)
    if ms is None or mn is None:
        return False
    return SV(z3.ForAll([x, n], z3.Implies(z3.And(mn, GLOB_MATCH(n, x)), z3.Not(ms))), BOOL)


SPEC_NS.update({"subset": s_subset, "no_match_of_first": s_no_match_of_first, "no_match_of_any": s_no_match_of_any})

SHAPES.update({"UState": Shape("inline_snapshot._global_state.State", {"storage": "@UStorage"}),
               "UStorage": Shape("inline_snapshot._external.DiscStorage", {"list": p_storage_list, "lookup_all": p_storage_lookup_all})})

contract(
    FE + ".unused_externals",
    params={},
    globals_={"state": "@UState"},
    callees={"used_externals": p_used_externals},
    ghost={"vars": {"listed": "=None", "used": "=None", "n_list": "=0"}, "locals": {"unused_externals": "Set[Str]"}},
    loops={0: Loop(index="k", ghost_modifies=[], inv={
        "still-only-listed-files": "subset(unused_externals, listed)",
        "referenced-so-far-are-kept": "no_match_of_first(unused_externals, _iter0, k)",
    })},
    returns=None,
    result_name="ret",
    ensures={
        # C13: "a persisted file is removed only by an approved trim and only if no test file that took part in the session
        # references it": the candidates handed to trim are stored files ...
        "only-stored-files [C13,C04]": "subset(ret, listed) and n_list == 1",
        # ... and none of them matches a reference found in a file of the session (a reference may be a shortened hash: glob)
        "no-referenced-file [C13,C04]": "no_match_of_any(ret, used)",
    },
    frame=[],
    safety_props=["C18"],
    assumes=["X8"],
)
