"""Replay file written by /verif/check.py
{
 "property": "C04",
 "standin": "B-xfail",
 "bound": "3 xfail marker placements x {create,fix | fix,update,trim | review(all n)} real sessions vs disable",
 "input": "xfail modules with --inline-snapshot=create,fix",
 "detail": "modified although every test is marked xfail: ['test_cls.py', 'test_mod.py']; outcomes differ from --inline-snapshot=disable: [('XFAIL', 'test_cls.py::TestX::test_a'), ('XFAIL', 'test_cls.py::TestX::test_b'), ('XFAIL', 'test_fn.py::test_a'), ('XFAIL', 'test_fn.py::test_b'), ('XFAIL', 'test_mod.py::test_a'), ('XFAIL', 'test_mod.py::test_b'), ('XPASS', 'test_cls.py::TestX::test_a'), ('XPASS', 'test_cls.py::TestX::test_b'), ('XPASS', 'test_mod.py::test_a'), ('XPASS', 'test_mod.py::test_b')] exit 0 vs [('XFAIL', 'test_cls.py::TestX::test_a'), ('XFAIL', 'test_cls.py::TestX::test_b'), ('XFAIL', 'test_fn.py::test_a'), ('XFAIL', 'test_fn.py::test_b'), ('XFAIL', 'test_mod.py::test_a'), ('XFAIL', 'test_mod.py::test_b')] exit 0\n -4,7 +4,7 @@                                                              |\n|                                                                              |\n|  pytestmark = pytest.mark.xfail                                              |\n|                                                                              |\n|  def test_a():                                                               |\n| -    assert 5 == snapshot(4)                                                 |\n| +    assert 5 == snapshot(5)                                                 |\n|                                                                              |\n|  def test_b():                                                               |\n| -    assert 5 in snapshot([3])                                               |\n| +    assert 5 in snapshot([3, 5])                                            |\n+------------------------------------------------------------------------------+\nThese changes will be applied, because you used fix\n\n\n=================================== XPASSES ====================================\n=========================== short test summary info ============================\nXFAIL test_cls.py::TestX::test_a\nXFAIL test_cls.py::TestX::test_b\nXFAIL test_fn.py::test_a\nXFAIL test_fn.py::test_b\nXFAIL test_mod.py::test_a\nXFAIL test_mod.py::test_b\nXPASS test_cls.py::TestX::test_a\nXPASS test_cls.py::TestX::test_b\nXPASS test_mod.py::test_a\nXPASS test_mod.py::test_b\n6 xfailed, 4 xpassed in 1.66s\n"
}
"""

import os, subprocess, sys, tempfile
from pathlib import Path
d = Path(tempfile.mkdtemp())
files = {'test_fn.py': 'import pytest\nfrom inline_snapshot import snapshot\n\n@pytest.mark.xfail\ndef test_a():\n    assert 5 == snapshot(4)\n\n@pytest.mark.xfail\ndef test_b():\n    assert 5 == snapshot()\n', 'test_cls.py': 'import pytest\nfrom inline_snapshot import snapshot\n\n@pytest.mark.xfail\nclass TestX:\n    def test_a(self):\n        assert 5 == snapshot(4)\n\n    def test_b(self):\n        assert 5 <= snapshot(3)\n', 'test_mod.py': 'import pytest\nfrom inline_snapshot import snapshot\n\npytestmark = pytest.mark.xfail\n\ndef test_a():\n    assert 5 == snapshot(4)\n\ndef test_b():\n    assert 5 in snapshot([3])\n', 'pyproject.toml': '[tool.inline-snapshot]\n'}
for k, v in files.items():
    (d / k).write_text(v)
env = {k: v for k, v in os.environ.items() if k not in ('CI', 'bamboo.buildKey', 'BUILD_ID', 'BUILD_NUMBER', 'BUILDKITE', 'CIRCLECI', 'CONTINUOUS_INTEGRATION', 'GITHUB_ACTIONS', 'HUDSON_URL', 'JENKINS_URL', 'TEAMCITY_VERSION', 'TRAVIS', 'PYCHARM_HOSTED', 'INLINE_SNAPSHOT_DEFAULT_FLAGS')}
p = subprocess.run([sys.executable, "-m", "pytest", "-p", "no:cacheprovider", "-q", "-rA", "--inline-snapshot=create,fix"], cwd=d, env=env, capture_output=True, text=True)
print(p.stdout[-1500:])
for k, v in files.items():
    assert (d / k).read_text() == v, k + " was modified although every test in it is marked xfail"

