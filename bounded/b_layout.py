"""B-layout: bounded stand-in for C03 (only the arguments of snapshot() are touched), C20 (formatter-clean stays
formatter-clean), C10 (user-controlled parts are never rewritten) and C11 (fixing a container keeps what did not change).

Every case is a generated test file pushed through the real pipeline (Example.run_inline) in a worker process.
Oracles only *observe* the result (ast / asttokens positions, black invoked independently, re-execution with
snapshot := identity); nothing of the rewriting is re-implemented.

Known defects: F8 (CRLF -> LF), F3 (AttributeError `_changes`, nested snapshot reached only during alignment).
Anything the harness cannot decide precisely is counted as skipped, never as a failure.
"""
from __future__ import annotations

import ast
import io
import os
import random
import re
import shutil
import tempfile
import time
import tokenize
import traceback

from bounded import standin
from bounded import _rl_driver as D

MAIN = "test_something.py"


# ==================================================================================================
# C03 / C20: file layouts
# ==================================================================================================
HDRS = {
    "plain": "from inline_snapshot import snapshot\n",
    "doc": '"""module docstring äöü€"""\nfrom inline_snapshot import snapshot\n',
    "future": "from __future__ import annotations\nfrom inline_snapshot import snapshot\n",
    "docfuture": '"""doc\n\nsecond line\n"""\nfrom __future__ import annotations\n\nimport os\nfrom inline_snapshot import snapshot\n',
    "coding": "#!/usr/bin/env python\n# -*- coding: utf-8 -*-\n# ünïcödé comment 😀\nfrom inline_snapshot import snapshot\n",
    # characters that str.splitlines() treats as line ends but the tokenizer does not (form feed, U+2028, U+0085): line tables must agree
    "pagebreak": "from inline_snapshot import snapshot\n\x0c\n# page two \u2028 same comment\nsep = 'a\x85b'\n",
}

# «Vi» = observed value expression, «Si» = old text of the argument of the i-th snapshot() call (text order)
BODIES = {
    "nonascii_left": 'def test_a():\n    x = "äöü€"; assert «V0» == snapshot(«S0»)\n',
    "astral_left": 'def test_a():\n    x = "😀𝔘"; assert «V0» == snapshot(«S0»)  # 😀\n',
    "tabs": "def test_a():\n\tif True:\n\t\tassert «V0» == snapshot(«S0»)\n\t\tx = 1\n",
    "two_one_line": "def test_a():\n    assert «V0» == snapshot(«S0»); assert «V1» == snapshot(«S1»)\n",
    "three_one_line": 'def test_a():\n    assert «V2» == snapshot(«S2»); assert «V0» == snapshot(«S0»); y = "ß😀"; assert «V1» == snapshot(«S1»)\n',
    "tuple_of_snaps": "def test_a():\n    assert («V0», «V1») == (snapshot(«S0»), snapshot(«S1»))\n",
    "multiline_comments": "def test_a():\n    assert «V0» == snapshot(  # lead\n        «S0»  # trailing\n    )  # after\n    z = 1  # keep\n",
    "nested_calls": "def f(x):\n    return x\ng = f\ndef test_a():\n    assert «V0» == f(g(snapshot(«S0»)))\n",
    "odd_spacing": "def test_a( ) :\n    assert   «V0»==snapshot( «S0» )   # c\n    y=[ 1,2 ,3 ]\n",
    "call_spaced": "def test_a():\n    assert «V0» == snapshot  (  «S0»  )\n",
    "backslash": "def test_a():\n    assert «V0» == \\\n        snapshot(«S0»)\n",
    "no_eof_newline": "def test_a():\n    assert «V0» == snapshot(«S0»)",
    "triple_before": 'def test_a():\n    x = """a\näö😀"""; assert «V0» == snapshot(«S0»)\n',
    "decoys": "def test_a():\n    s = \"snapshot(1)\"  # snapshot(2)\n    assert «V0» == snapshot(«S0»)  # snapshot(3)\n    t = 'snapshot()'\n",
    "correct_neighbours": 'def test_a():\n    assert 1 == snapshot(1); assert «V0» == snapshot(«S0»); assert "ä" == snapshot("ä")\n',
    "module_level": "S = snapshot(«S0»)  # module level ä\ndef test_a():\n    assert «V0» == S\ndef test_b():\n    assert «V0» == S\n",
    "one_line_compound": "def test_a():\n    if True: assert «V0» == snapshot(«S0»)\n",
    "trailing_ws_formfeed": "def test_a():   \n    assert «V0» == snapshot(«S0»)   \n\x0c\n\n\n\ndef test_b():\n    pass   \n",
    "unicode_ident": 'größe = "ä"\ndef test_a():\n    assert «V0» == snapshot(«S0»), größe\n',
    "helper_arg": "def check(a, b): assert a == b\ndef test_a():\n    check(«V0»,snapshot(«S0»)) ; check(«V1» , snapshot(«S1»))\n",
    "in_loop": "def test_a():\n    for i in range(3) :\n        assert «V0» == snapshot(«S0») # ä\n",
    "second_stmt_after": 'def test_a():\n    assert «V0» == snapshot(«S0»)\n    assert «V1» == snapshot(\n«S1»\n    )\n    x = "ä"  # tail\n',
    "two_tests": 'def test_a():\n    assert «V0» == snapshot(«S0»)  # first ä\n\n\n# between 😀\ndef test_b():\n    assert «V1» == snapshot(«S1»)\n',
}
N_SLOTS = {k: len(set(re.findall(r"«S(\d)»", v))) for k, v in BODIES.items()}

LONG_LIST = "[" + ", ".join(str(i * 1001) for i in range(30)) + "]"
LONG_STR = repr(("word " * 30).strip())  # no leading/trailing blank: that would be F1 (B-rt)
# (old text, value expression, category)
EDITS = [
    ("", "1", "create"),
    ("", '"ä😀"', "create"),
    ("", "[1, 2]", "create"),
    ("", LONG_LIST, "create"),
    ("", "'a\\nbä'", "create"),
    ("", '{"k": [1, (2, 3)], "ä": None}', "create"),
    ("2", "1", "fix"),
    ('"ö"', '"ä😀"', "fix"),
    ("[1, 2, 3]", "[1, 3, 4, 5]", "fix"),
    ("[ 1 ,2 ]", "[0, 1, 2, 3]", "fix"),
    ('{"a": 1, "b": 2}', '{"b": 2, "c": 3}', "fix"),
    ("(1,)", "(1, 2)", "fix"),
    ("[1]", "[]", "fix"),
    ("[1, 2]", "[2]", "fix"),
    ('["ä", "ö"]', '["ä", "ü😀", "ö"]', "fix"),
    ("[\n        1,  # one\n        2,\n    ]", "[2, 3]", "fix"),
    ("5", LONG_STR, "fix"),
    ("1", "1", "none"),
    ('{"a": [1, 2]}', '{"a": [1, 2]}', "none"),
    ("0+1", "1", "update"),
    ("[1, 0+2]", "[1, 2]", "update"),
]
FLAG_SETS = ["create,fix", "create", "fix", "update", "create,fix,update,trim", "trim"]


def fill(body, edits):
    src = body
    for i, (s, v, _) in enumerate(edits):
        src = src.replace(f"«S{i}»", s).replace(f"«V{i}»", v)
    return src


def c03_cases(tier, seed):
    rng = random.Random(seed * 31337 + 3)
    cases = []
    hdr_names = list(HDRS)

    def mk(body_name, hdr, edits, flags, crlf=False, clean=False, tag=""):
        src = HDRS[hdr] + fill(BODIES[body_name], edits)
        cats = [c for _, _, c in edits]
        if body_name == "correct_neighbours":
            cats = ["none", cats[0], "none"]
        if body_name == "three_one_line":
            # text order of the calls: S2, S0, S1
            cats = [edits[2][2], edits[0][2], edits[1][2]]
        fl = set(flags.split(","))
        changed = [i for i, c in enumerate(cats) if c in fl]
        return dict(prop="C03", name=f"{body_name}/{hdr}{'/crlf' if crlf else ''}{'/clean' if clean else ''}{tag}", src=src, flags=flags,
                    changed=changed, crlf=crlf, make_clean=clean, mode_opts={}, expect_green=("create" in fl and "fix" in fl))

    # every body x every edit (header rotating), flags create,fix
    i = 0
    for b in BODIES:
        n = N_SLOTS[b]
        for e in EDITS:
            edits = [e] + [EDITS[(i + 7 * k) % len(EDITS)] for k in range(1, n)]
            cases.append(mk(b, hdr_names[i % len(hdr_names)], edits, "create,fix"))
            i += 1
    # every body x every header
    for b in BODIES:
        n = N_SLOTS[b]
        for h in hdr_names:
            edits = [rng.choice(EDITS) for _ in range(n)]
            cases.append(mk(b, h, edits, "create,fix"))
    # flag sets
    for b in BODIES:
        n = N_SLOTS[b]
        for fl in FLAG_SETS:
            edits = [rng.choice(EDITS) for _ in range(n)]
            cases.append(mk(b, rng.choice(hdr_names), edits, fl))
    # CRLF
    for b in BODIES:
        n = N_SLOTS[b]
        for k in range(3 if tier == "quick" else 12):
            edits = [rng.choice(EDITS) for _ in range(n)]
            cases.append(mk(b, rng.choice(hdr_names), edits, rng.choice(["create,fix", "create,fix", "update", "fix"]), crlf=True))
    # formatter-clean versions (black applied by the harness before the run)
    for b in BODIES:
        n = N_SLOTS[b]
        for k in range(4 if tier == "quick" else 20):
            edits = [rng.choice(EDITS) for _ in range(n)]
            cases.append(mk(b, rng.choice(hdr_names), edits, rng.choice(FLAG_SETS[:5]), clean=True))
        cases.append(mk(b, "plain", [rng.choice(EDITS) for _ in range(n)], "create,fix", crlf=True, clean=True))
    # the other operations: trim / fix / create on `in`, `<=`, `[key]` next to each other on one line
    ops_files = [
        ('def test_a():\n    assert 5 in snapshot([1, 5, 7]); assert 3 <= snapshot(10)  # ä😀\n    s = snapshot({"a": 1, "b": 2}); assert s["a"] == 1\n',
         {"trim": [0, 1, 2], "fix": [], "create": [], "update": [], "create,fix": [], "create,fix,update,trim": [0, 1, 2]}),
        ('def test_a():\n    x = "ä"; assert 6 in snapshot([1, 5]); assert 30 <= snapshot(10); s = snapshot({"a": 1}); assert s["b"] == 2\n',
         # trim alone: the first assert fails (6 is missing), the unused 1 and 5 are trimmed, the rest of the test is never reached
         {"trim": [0], "fix": [0, 1], "create": [2], "update": [], "create,fix": [0, 1, 2], "create,fix,update,trim": [0, 1, 2]}),
        ('def test_a():\n\tassert 6 in snapshot( [ 0+6 ,1 ] ); assert 3 >= snapshot( 0+1 ) ; assert "ä" in snapshot(["ö" ,"ä"])\n',
         {"trim": [0, 1, 2], "fix": [], "create": [], "update": [0], "create,fix": [], "create,fix,update,trim": [0, 1, 2]}),
    ]
    for body, per_flags in ops_files:
        for fl, changed in per_flags.items():
            for h in (hdr_names if tier == "thorough" else hdr_names[:2]):
                for crlf in (False, True):
                    for cl in (False, True):
                        cases.append(dict(prop="C03", name=f"ops/{h}{'/crlf' if crlf else ''}{'/clean' if cl else ''}", src=HDRS[h] + body, flags=fl, changed=changed,
                                          crlf=crlf, make_clean=cl, mode_opts={}, expect_green=False))
    # elements written in redundant parentheses next to an insertion / deletion ("odd but valid" old text)
    for b, e in [("nonascii_left", ("[(1), 2]", "[1]", "fix")), ("tabs", ("[(1)]", "[1, 2]", "fix")), ("odd_spacing", ('{"a": (1), "b": 2}', '{"a": 1}', "fix")),
                 ("nested_calls", ("[2, (1)]", "[1]", "fix")), ("in_loop", ("((1), 2)", "(1, 2, 3)", "fix"))]:
        c = mk(b, "plain", [e], "fix", tag="/paren")
        c["expect_green"] = True
        cases.append(c)
    if tier == "thorough":
        for b in BODIES:
            n = N_SLOTS[b]
            for _ in range(250):
                edits = [rng.choice(EDITS) for _ in range(n)]
                cases.append(mk(b, rng.choice(hdr_names), edits, rng.choice(FLAG_SETS), crlf=rng.random() < 0.15, clean=rng.random() < 0.3))
    return cases


# -------------------------------------------------------------------------------------------------- C20
PYPROJECTS = {
    "default": ({}, None),
    "empty-black": ({}, "[tool.black]\n"),
    "ll60": (dict(line_length=60), "[tool.black]\nline-length = 60\n"),
    "ll120": (dict(line_length=120), "[tool.black]\nline-length = 120\n"),
    "skip-mtc": (dict(magic_trailing_comma=False), "[tool.black]\nskip-magic-trailing-comma = true\n"),
    "skip-sn": (dict(string_normalization=False), "[tool.black]\nskip-string-normalization = true\n"),
    "ll60+skip-sn+skip-mtc": (dict(line_length=60, string_normalization=False, magic_trailing_comma=False),
                              "[tool.black]\nline-length = 60\nskip-string-normalization = true\nskip-magic-trailing-comma = true\n"),
    "preview": (dict(preview=True), "[tool.black]\npreview = true\n"),
    "other-tool-only": ({}, "[tool.other]\nx = 1\n"),
}

C20_SHAPES = {
    "call_cmp": "from inline_snapshot import snapshot\n\n\ndef f(x):\n    return x\n\n\ndef test_a():\n    assert f(«V0») == snapshot(«S0»)  # trailing comment\n",
    "nested_blocks": "from inline_snapshot import snapshot\n\n\ndef test_b():\n    for i in range(2):\n        if i >= 0:\n            assert «V0» == snapshot(«S0»)\n",
    "quotes_and_commas": "from inline_snapshot import snapshot\n\n\nclass Helper:\n    def method(self):\n        return {'a': 'b', \"c\": 'd'}\n\n\n"
                         "def test_c():\n    result = [\n        1,\n        2,\n    ]\n    other = 'single'\n    assert «V0» == snapshot(«S0»)\n    assert result == [1, 2] and other\n",
    "two": "from inline_snapshot import snapshot\n\n\ndef test_d():\n    assert «V0» == snapshot(«S0»)\n    assert «V1» == snapshot(«S1»)\n",
    "nested_call_arg": "from inline_snapshot import snapshot\n\n\ndef g(a, b=None):\n    return a\n\n\ndef test_e():\n    assert g(«V0», b='kw') == g(snapshot(«S0»), b=\"kw\")\n",
}


def c20_values(tier, rng):
    vals = []
    step = 1 if tier == "thorough" else 2
    for n in range(8, 44, step):
        vals.append(("list", "[" + ", ".join(str(i) for i in range(n)) + "]"))
    for n in range(20, 100, 6 if tier == "quick" else 2):
        vals.append(("str", repr("x" * n)))
    vals += [
        ("words", repr(("lorem ipsum " * 9).strip())),
        ("dict", "{" + ", ".join(f"'key{i}': [{i}, '{'v' * i}']" for i in range(7)) + "}"),
        ("nested", "{'a': [" + ", ".join(f"({i}, 'it{i}')" for i in range(9)) + "], 'b': {'c': None, 'd': (1,)}}"),
        ("quotes", "['single', \"double\", 'it\\'s', \"say \\\"hi\\\"\", '']"),
        ("multiline-str", "'first line\\nsecond line\\n'"),
        ("tuple1", "('only',)"),
        ("short", "1"),
        ("bytes", "b'" + "ab" * 45 + "'"),
    ]
    return vals


def c20_cases(tier, seed):
    rng = random.Random(seed * 6151 + 20)
    cases = []
    vals = c20_values(tier, rng)
    olds = ["", "", "0", "[0, 1, 2,]", "['old']", "[\n        0,\n        1,\n    ]"]
    for pname, (opts, toml) in PYPROJECTS.items():
        for sname, shape in C20_SHAPES.items():
            pool = vals if (tier == "thorough" or pname in ("default", "ll60", "skip-mtc", "skip-sn")) else rng.sample(vals, 8)
            if tier == "quick":
                pool = rng.sample(pool, min(len(pool), 12 if pname in ("default", "ll60") else 6))
            for kind, v in pool:
                old = rng.choice(olds)
                edits = [(old, v, "create" if old == "" else "fix")]
                if sname == "two":
                    k2, v2 = rng.choice(vals)
                    edits.append((rng.choice(olds), v2, "fix"))
                src = fill(shape, edits)
                cases.append(dict(prop="C20", name=f"{sname}/{pname}/{kind}", src=src, flags="create,fix", changed=list(range(len(edits))), crlf=False,
                                  make_clean=True, mode_opts=opts, toml=toml, expect_green=True))
    # not clean before, pyproject present: byte-identical outside (no format-command is configured)
    for pname, (opts, toml) in PYPROJECTS.items():
        for b in (list(BODIES) if tier == "thorough" else rng.sample(list(BODIES), 5)):
            n = N_SLOTS[b]
            edits = [rng.choice(EDITS[:17]) for _ in range(n)]
            if b == "correct_neighbours":
                changed = [1]
            else:
                changed = list(range(n))
            cases.append(dict(prop="C20", name=f"notclean:{b}/{pname}", src=HDRS["plain"] + fill(BODIES[b], edits), flags="create,fix", changed=changed,
                              crlf=False, make_clean=False, mode_opts=opts, toml=toml, expect_green=True, require_not_clean=True))
    return cases


# ==================================================================================================
# C10: unmanaged parts
# ==================================================================================================
C10_HDR = ("from inline_snapshot import snapshot, Is\nfrom dataclasses import dataclass, field\n\n\n@dataclass\nclass DC:\n    a: object\n"
           "    b: list = field(default_factory=list)\n\n\n"
           # DD: the field that holds the user-controlled part has a default value (5 / 'x' / 'v5' are values the cases use)
           "@dataclass\nclass DD:\n    b: list = field(default_factory=list)\n    a: object = 5\n\n\n")


def c10_cases(tier, seed):
    rng = random.Random(seed * 2221 + 10)
    cases = []
    flagsets = ["create,fix", "fix", "update", "trim", "create,fix,update,trim"]

    def add(name, setup, old, new, utexts, markers, u_correct, flags, whole=None, inner_expect=None, survive=None, stmt="assert {new} == snapshot({old})"):
        src = C10_HDR + setup + "\n\ndef test_a():\n    " + stmt.format(new=new, old=old) + "\n"
        cases.append(dict(prop="C10", name=name, src=src, flags=flags, utexts=utexts, markers=markers, u_correct=u_correct, whole=whole,
                          inner_expect=inner_expect, survive=survive, old=old, new=new))

    # --- Is(...) and f-strings as elements of list / tuple / dict value / constructor argument / nested list
    def wrap(container, u, sib_old, pos):
        """container display holding the unmanaged text u at position pos among managed siblings"""
        items = list(sib_old)
        items.insert(pos, u)
        if container == "list":
            return "[" + ", ".join(items) + "]"
        if container == "list_odd":
            return "[ " + " ,".join(items) + " ]"
        if container == "tuple":
            return "(" + ", ".join(items) + ("," if len(items) == 1 else "") + ")"
        if container == "dict":
            return "{" + ", ".join(f'"k{i}": {t}' for i, t in enumerate(items)) + "}"
        if container == "nested":
            return "[[" + ", ".join(items) + "], 0+9]"
        if container == "dc":
            return f"DC(a={u}, b=[{', '.join(sib_old)}])"
        if container == "dcd":
            return f"DD(b=[{', '.join(sib_old)}], a={u})"
        raise ValueError(container)

    def new_value(container, uval, sib_new, pos):
        items = list(sib_new)
        items.insert(pos, uval)
        if container in ("list", "list_odd"):
            return "[" + ", ".join(items) + "]"
        if container == "tuple":
            return "(" + ", ".join(items) + ("," if len(items) == 1 else "") + ")"
        if container == "dict":
            return "{" + ", ".join(f'"k{i}": {t}' for i, t in enumerate(items)) + "}"
        if container == "nested":
            return "[[" + ", ".join(items) + "], 9]"
        if container == "dc":
            return f"DC(a={uval}, b=[{', '.join(sib_new)}])"
        if container == "dcd":
            return f"DD(b=[{', '.join(sib_new)}], a={uval})"
        raise ValueError(container)

    sib_variants = [
        # (old sibling texts, new sibling values): same length, positions correspond
        (["0+1", "3"], ["1", "2"]),
        (["1", "2"], ["1", "2"]),
        (["0+1"], ["7"]),
        ([], []),
        (['"a"', "[1, 2]"], ['"b"', "[1, 2, 3]"]),
    ]
    kinds = [
        ("Is", "dyn_a = 5", "Is(dyn_a)", "5", "6"),
        ("Is_spaced", "dyn_a = 'x'", "Is( dyn_a )", "'x'", "'y'"),
        ("Is_expr", "dyn_a = 2", "Is(dyn_a*2 + 1)", "5", "6"),
        ("fstr", "dyn_a = 5", 'f"v{dyn_a}"', "'v5'", "'v6'"),
        ("fstr_fmt", "dyn_a = 5", "f'{dyn_a:>3}|'", "'  5|'", "'other'"),
    ]
    for kname, setup, utext, uval_ok, uval_bad in kinds:
        for container in ["list", "list_odd", "tuple", "dict", "nested", "dc", "dcd"]:
            for so, sn in sib_variants:
                positions = [0] if container in ("dc", "dcd") else sorted({0, len(so)} | ({1} if len(so) >= 2 else set()))
                for pos in positions:
                    for correct in (True, False):
                        fls = flagsets if (tier == "thorough" or (container == "list" and correct)) else [rng.choice(flagsets)]
                        for fl in fls:
                            old = wrap(container, utext, so, pos)
                            new = new_value(container, uval_ok if correct else uval_bad, sn, pos)
                            # Survival is decidable when the holder is necessarily paired with its counterpart: the unmanaged value is
                            # correct (it matches), or entries are matched by key (dict / keyword arguments), or every sibling is equal
                            # (the alignment strips them as common prefix/suffix and the 1:1 rest becomes a replacement).
                            # A wrong unmanaged value among other wrong sequence elements may legitimately be deleted with its element.
                            forced = correct or container in ("dict", "dc", "dcd") or so == sn
                            # a keyword argument whose observed value equals the field default is removed by update - together
                            # with the user-controlled expression it holds, which C10 allows ("removed only together with the element")
                            dropped_default = container == "dcd" and (uval_ok if correct else uval_bad) == "5" and "update" in fl
                            add(f"{kname}/{container}/pos{pos}/{'ok' if correct else 'bad'}", setup, old, new, [utext], ["dyn_a"], correct, fl,
                                survive=True if (forced and not dropped_default) else None)
                            if container == "dict" and not correct:
                                cases[-1]["sib_keys"] = [f"k{i}" for i in range(len(so) + 1) if i != pos]
    # --- the other ways a snapshot is used: never compared (only `update` can be pending), and `in` (members are tested one by one)
    for kname, setup, utext, uval_ok, uval_bad in kinds:
        for container in ["list", "tuple", "dict", "dc"]:
            old = wrap(container, utext, ["0+1", "3"], 0 if container == "dc" else 1)
            for fl in (flagsets if tier == "thorough" or kname in ("Is", "fstr") else [rng.choice(flagsets)]):
                add(f"{kname}/{container}/never-compared", setup, old, "None", [utext], ["dyn_a"], False, fl, survive=True, stmt="s = snapshot({old})")
        for item, tested in [(uval_ok, True), ("1", False), ("9", False)]:
            for fl in (flagsets if tier == "thorough" or kname in ("Is", "fstr") else [rng.choice(flagsets)]):
                # an untested member may be trimmed together with its element; otherwise the text must survive
                add(f"{kname}/in/{item}", setup, f"[0+1, {utext}, 3]", item, [utext], ["dyn_a"], False, fl,
                    survive=True if (tested or "trim" not in fl) else None, stmt="assert {new} in snapshot({old})")
    # --- length changes around an unmanaged element
    for kname, setup, utext, uval_ok, uval_bad in kinds[:1] + kinds[3:4]:
        for old_sibs, new_sibs, upos_old, upos_new in [
            (["1", "2"], ["1", "2", "3"], 0, 0), (["1", "2"], ["0", "1", "2"], 2, 3), (["1", "2", "3"], ["1", "3"], 1, 1),
            (["1", "2"], ["2"], 0, 0), (["1"], ["4", "5", "6"], 1, 3), (["1", "2"], [], 1, 0),
        ]:
            for correct in (True, False):
                o = list(old_sibs)
                o.insert(upos_old, utext)
                n = list(new_sibs)
                n.insert(upos_new, uval_ok if correct else uval_bad)
                add(f"{kname}/list-resize/{'ok' if correct else 'bad'}", setup, "[" + ", ".join(o) + "]", "[" + ", ".join(n) + "]", [utext], ["dyn_a"], correct,
                    rng.choice(flagsets[:2] + flagsets[4:]), survive=None)
    # --- star-expressions freeze the whole container
    stars = [
        ("star_list", "dyn_l = [4]", "[*dyn_l, 0+1, 3]", ["[4, 1, 3]", "[5, 1, 2]", "[4, 1, 3, 9]", "[]"]),
        ("star_list_mid", "dyn_l = [4]", "[0+1, *dyn_l, 3]", ["[1, 4, 3]", "[1, 4, 5]", "[]"]),
        ("star_tuple", "dyn_l = [4]", "(*dyn_l, 0+1)", ["(4, 1)", "(4, 2)", "(1,)"]),
        ("star_dict", "dyn_d = {'z': 0}", '{**dyn_d, "k": 0+1}', ["{'z': 0, 'k': 1}", "{'z': 0, 'k': 2}", "{'k': 1}", "{'z': 0, 'k': 1, 'n': 3}"]),
        ("star_dict_last", "dyn_d = {'z': 0}", '{"k": 0+1, **dyn_d}', ["{'k': 1, 'z': 0}", "{'k': 5, 'z': 0}"]),
        # the star-expression contributes more / fewer entries than it has source positions
        ("star_dict_two", "dyn_d = {'y': 0, 'z': 0}", '{"k": 0+1, **dyn_d}', ["{'k': 1, 'y': 0, 'z': 0}", "{'k': 5, 'y': 0, 'z': 0}", "{'k': 1}"]),
        ("star_dict_none", "dyn_d = {}", '{**dyn_d, "k": 0+1}', ["{'k': 1}", "{'k': 5}", "{'k': 1, 'n': 2}"]),
        ("star_list_two", "dyn_l = [4, 5]", "[0+1, *dyn_l]", ["[1, 4, 5]", "[2, 4, 5]", "[1]"]),
        ("star_list_none", "dyn_l = []", "[*dyn_l, 0+1]", ["[1]", "[2]", "[1, 3]"]),
        ("star_call", "dyn_l = [4]", "DC(*dyn_l, b=[0+1])", ["DC(a=4, b=[1])", "DC(a=4, b=[2])", "DC(a=5)"]),
        ("starstar_call", "dyn_d = {'a': 4}", "DC(**dyn_d, b=[0+1])", ["DC(a=4, b=[1])", "DC(a=4, b=[2, 3])"]),
        # the star-expression behind other arguments of the call (positional, keyword, keyword at its default value)
        ("call_pos_starstar", "dyn_d = {'b': [1]}", "DC(0+4, **dyn_d)", ["DC(a=4, b=[1])", "DC(a=5, b=[1])", "DC(a=4, b=[2])"]),
        ("call_kw_starstar", "dyn_d = {'b': [1]}", "DC(a=0+4, **dyn_d)", ["DC(a=4, b=[1])", "DC(a=5, b=[1])"]),
        ("call_defaultkw_starstar", "dyn_d = {'a': 4}", "DC(b=[], **dyn_d)", ["DC(a=4)", "DC(a=4, b=[2])", "DC(a=5)"]),
        ("call_kw_star", "dyn_l = [4]", "DC(b=[0+1], *dyn_l)", ["DC(a=4, b=[1])", "DC(a=4, b=[2])"]),
        ("star_nested", "dyn_l = [4]", '{"outer": [*dyn_l, 0+1], "m": 0+2}', ["{'outer': [4, 1], 'm': 2}", "{'outer': [4, 5], 'm': 3}"]),
    ]
    for name, setup, old, news in stars:
        for i, new in enumerate(news):
            for fl in (flagsets if tier == "thorough" or i == 1 else [rng.choice(flagsets)]):
                whole = old if name != "star_nested" else "[*dyn_l, 0+1]"
                add(f"{name}/{i}", setup, old, new, [whole], ["dyn_l" if "dyn_l" in old else "dyn_d"], i == 0, fl, whole=whole, survive=True)
    # --- a name holding another snapshot: managed on its own, never edited through the parent
    # (F3-safe shapes only: same length, every element left of the name is equal, so the final == reaches the inner snapshot)
    for inner_old, obs in [("3", "5"), ("", "5"), ("5", "5"), ("[1]", "[1, 2]")]:
        for outer_old, outer_new in [("[1, inner, 0+6]", "[1, {o}, 7]"), ("[inner]", "[{o}]"), ("(inner, 2)", "({o}, 3)"), ('{"a": inner, "b": 0+1}', '{{"a": {o}, "b": 2}}'),
                                     ("[1, inner]", "[1, {o}]")]:
            for fl in (["create,fix", "create,fix,update,trim"] if tier == "quick" else flagsets):
                add(f"inner/{inner_old or 'empty'}", f"inner = snapshot({inner_old})", outer_old, outer_new.format(o=obs), ["inner"], [], True, fl,
                    inner_expect=obs, survive=True)
    return cases


# ==================================================================================================
# C11: fixing keeps what did not change
# ==================================================================================================
class Spec:
    """old source display: kind in leaf/list/tuple/dict/call; text is the exact source text, value a comparable model"""

    def __init__(self, kind, text, value, kids=None, keys=None, name=None):
        self.kind, self.text, self.value, self.kids, self.keys, self.name = kind, text, value, kids or [], keys or [], name


class DCV:
    """model of a DC(...) value: compared structurally"""

    def __init__(self, **kw):
        self.kw = kw

    def __eq__(self, other):
        return isinstance(other, DCV) and self.kw == other.kw

    def __repr__(self):
        return "DC(" + ", ".join(f"{k}={v!r}" for k, v in self.kw.items()) + ")"

    __hash__ = None


LEAF_SPELLINGS = {
    0: ["0", "1-1", 'int("0")'],
    1: ["1", "0+1", 'int("1")', "+1"],
    2: ["2", "1+1", 'int("2")', "4//2"],
    3: ["3", "0+3", "len('abc')"],
    4: ["4", "2*2"],
    "a": ['"a"', "'a'", 'str("a")'],
    "ab": ['"ab"', '"a" "b"', "'a' + 'b'"],
    "x y": ['"x y"', '"x" " y"'],
    None: ["None"],
    True: ["True", "not False"],
    2.5: ["2.5", "5 / 2"],
}
LEAF_KEYS = list(LEAF_SPELLINGS)


def rand_leaf(rng):
    v = rng.choice(LEAF_KEYS)
    return Spec("leaf", rng.choice(LEAF_SPELLINGS[v]), v)


def rand_container(rng, depth, kind=None):
    kind = kind or rng.choice(["list", "list", "tuple", "dict", "call"])
    n = rng.randint(0, 4)
    kids = [rand_container(rng, depth - 1) if depth > 1 and rng.random() < 0.3 else rand_leaf(rng) for _ in range(n)]
    sep = rng.choice([", ", ",", " , ", ",  "])
    pad = rng.choice(["", " "])
    if kind == "list":
        text = "[" + pad + sep.join(k.text for k in kids) + (rng.choice(["", ","]) if kids else "") + pad + "]"
        return Spec("list", text, [k.value for k in kids], kids)
    if kind == "tuple":
        text = "(" + pad + sep.join(k.text for k in kids) + ("," if len(kids) == 1 else (rng.choice(["", ","]) if kids else "")) + pad + ")"
        return Spec("tuple", text, tuple(k.value for k in kids), kids)
    if kind == "dict":
        pool = [("k1", '"k1"'), ("k2", "'k2'"), (1, "1"), (2, "0+2"), ((1, 2), "(1, 2)"), ("ab", '"a" "b"')]
        keys = rng.sample(pool, n)
        colon = rng.choice([": ", ":", " : "])
        text = "{" + pad + sep.join(f"{kt}{colon}{k.text}" for (kv, kt), k in zip(keys, kids)) + pad + "}"
        return Spec("dict", text, {kv: k.value for (kv, kt), k in zip(keys, kids)}, kids, keys=keys)
    # constructor call with keyword arguments only (positional dataclass arguments are not matched by the adapter: skipped category)
    a = kids[0] if kids else rand_leaf(rng)
    blist = rand_container(rng, 1, "list")
    if not blist.kids:
        blist = Spec("list", "[0+1]", [1], [Spec("leaf", "0+1", 1)])
    eq = rng.choice(["=", " = "])
    text = f"DC({pad}a{eq}{a.text}{sep}b{eq}{blist.text}{pad})"
    return Spec("call", text, DCV(a=a.value, b=blist.value), [a, blist], keys=[("a", "a"), ("b", "b")], name="DC")


def edit_value(v, rng, depth=0):
    """new value model derived from the old one"""
    if isinstance(v, DCV):
        kw = dict(v.kw)
        which = rng.choice(["a", "b", "both"])
        if which in ("a", "both"):
            kw["a"] = edit_value(kw["a"], rng, depth + 1)
        if which in ("b", "both"):
            nb = edit_value(kw["b"], rng, depth + 1)
            kw["b"] = nb if isinstance(nb, list) and nb else [9, 9]
        return DCV(**kw)
    if isinstance(v, (list, tuple)):
        t = type(v)
        xs = list(v)
        op = rng.choice(["append", "prepend", "insert", "delete", "change", "delete_first", "delete_last", "two"] if xs else ["append"])
        if op == "append":
            xs.append(rng.choice(LEAF_KEYS))
        elif op == "prepend":
            xs.insert(0, rng.choice(LEAF_KEYS))
        elif op == "insert":
            xs.insert(rng.randint(0, len(xs)), rng.choice(LEAF_KEYS))
        elif op == "delete":
            del xs[rng.randrange(len(xs))]
        elif op == "delete_first":
            del xs[0]
        elif op == "delete_last":
            del xs[-1]
        elif op == "change":
            i = rng.randrange(len(xs))
            xs[i] = edit_value(xs[i], rng, depth + 1)
        elif op == "two":
            xs.insert(rng.randint(0, len(xs)), "new")
            i = rng.randrange(len(xs))
            xs[i] = edit_value(xs[i], rng, depth + 1)
        return t(xs)
    if isinstance(v, dict):
        d = dict(v)
        op = rng.choice(["add", "remove", "change", "add_front", "two"] if d else ["add"])
        if op in ("add", "two"):
            d[rng.choice(["new", 77, (7, 7)])] = rng.choice(LEAF_KEYS)
        if op == "add_front":
            d = {"front": 1, **d}
        if op == "remove":
            d.pop(rng.choice(list(d)))
        if op in ("change", "two") and v:
            k = rng.choice(list(v))
            d[k] = edit_value(v[k], rng, depth + 1)
        return d
    others = [x for x in LEAF_KEYS if not (x == v and type(x) is type(v))]
    return rng.choice(others)


def value_expr(v):
    if isinstance(v, DCV):
        return "DC(" + ", ".join(f"{k}={value_expr(x)}" for k, x in v.kw.items()) + ")"
    if isinstance(v, list):
        return "[" + ", ".join(map(value_expr, v)) + "]"
    if isinstance(v, tuple):
        return "(" + ", ".join(map(value_expr, v)) + ("," if len(v) == 1 else "") + ")"
    if isinstance(v, dict):
        return "{" + ", ".join(f"{value_expr(k)}: {value_expr(x)}" for k, x in v.items()) + "}"
    return repr(v)


def spec_to_plain(s):
    """picklable form of a Spec"""
    return dict(kind=s.kind, text=s.text, kids=[spec_to_plain(k) for k in s.kids], keys=[[repr(kv), kt] for kv, kt in s.keys], name=s.name,
                vexpr=value_expr(s.value))


def c11_cases(tier, seed):
    rng = random.Random(seed * 9973 + 11)
    cases = []
    n = 450 if tier == "quick" else 40000
    hdr = C10_HDR.replace(", Is", "")
    for i in range(n):
        old = rand_container(rng, 2 if rng.random() < 0.5 else 1)
        new = edit_value(old.value, rng)
        if rng.random() < 0.2:
            new = edit_value(new, rng)
        if rng.random() < 0.04:
            new = old.value  # nothing to fix at all
        src = hdr + f"def test_a():\n    assert {value_expr(new)} == snapshot({old.text})\n"
        cases.append(dict(prop="C11", name=f"{old.kind}", src=src, flags="fix", old=spec_to_plain(old), new_expr=value_expr(new)))
    # systematic: sequences over a small alphabet with distinct spellings, all pairs up to length 3 (quick: sample)
    alpha = [(1, "0+1"), (2, 'int("2")'), (3, "len('abc')")]
    seqs = [[]] + [[a] for a in alpha] + [[a, b] for a in alpha for b in alpha] + [[a, b, c] for a in alpha for b in alpha for c in alpha]
    pairs = [(o, nw) for o in seqs for nw in seqs if [x[0] for x in o] != [x[0] for x in nw]]
    rng.shuffle(pairs)
    for o, nw in pairs[: (150 if tier == "quick" else len(pairs))]:
        kind = rng.choice(["list", "tuple"])
        kids = [Spec("leaf", t, v) for v, t in o]
        if kind == "list":
            sp = Spec("list", "[" + ", ".join(k.text for k in kids) + "]", [k.value for k in kids], kids)
            nv = [v for v, _ in nw]
        else:
            sp = Spec("tuple", "(" + ", ".join(k.text for k in kids) + ("," if len(kids) == 1 else "") + ")", tuple(k.value for k in kids), kids)
            nv = tuple(v for v, _ in nw)
        src = hdr + f"def test_a():\n    assert {value_expr(nv)} == snapshot({sp.text})\n"
        cases.append(dict(prop="C11", name=f"sys-{kind}", src=src, flags="fix", old=spec_to_plain(sp), new_expr=value_expr(nv)))
    return cases


# ==================================================================================================
# oracles
# ==================================================================================================
def make_mode(opts):
    import black

    return black.Mode(**opts)


def comments_outside(src, spans):
    """comment tokens (text) that do not start inside one of the spans, in order"""
    import asttokens

    ln = asttokens.LineNumbers(src)
    out = []
    try:
        for tok in tokenize.generate_tokens(io.StringIO(src).readline):
            if tok.type == tokenize.COMMENT:
                off = ln.line_to_offset(tok.start[0], tok.start[1])
                if not any(a <= off < b for a, b in spans):
                    out.append(tok.string.rstrip())
    except (tokenize.TokenError, IndentationError, SyntaxError):
        return None
    return out


def byte_oracle(before, after, changed):
    """-> (ok, finding, detail).  Everything outside the parentheses of the changed calls identical, byte for byte."""
    mb, calls_b = D.mask_calls(before, set(changed))
    ma, calls_a = D.mask_calls(after, set(changed))
    if len(calls_b) != len(calls_a):
        return False, None, f"number of snapshot() calls changed: {len(calls_b)} -> {len(calls_a)}"
    if mb.encode("utf-8") == ma.encode("utf-8"):
        return True, None, ""
    if "\r\n" in mb and mb.replace("\r\n", "\n") == ma:
        return False, "F8", "the only difference outside the changed arguments: every \\r\\n became \\n"
    # first difference
    i = next((k for k, (x, y) in enumerate(zip(mb, ma)) if x != y), min(len(mb), len(ma)))
    return False, None, (f"text outside the parentheses of the changed snapshot() calls differs at masked offset {i}: "
                         f"before …{mb[max(0, i - 40):i + 40]!r}  after …{ma[max(0, i - 40):i + 40]!r}")


def ast_oracle(before, after, changed):
    """same syntax tree (and the same comments) outside the arguments of the changed calls"""
    mb, calls_b = D.mask_calls(before, set(changed), placeholder="")
    ma, calls_a = D.mask_calls(after, set(changed), placeholder="")
    if len(calls_b) != len(calls_a):
        return False, f"number of snapshot() calls changed: {len(calls_b)} -> {len(calls_a)}"
    try:
        tb, ta = ast.dump(ast.parse(mb)), ast.dump(ast.parse(ma))
    except SyntaxError as ex:
        return False, f"masked text does not parse: {ex}"
    if tb != ta:
        return False, "syntax tree outside the changed arguments differs"
    sb = [(a, b) for i, (a, b, _) in enumerate(calls_b) if i in changed]
    sa = [(a, b) for i, (a, b, _) in enumerate(calls_a) if i in changed]
    cb, ca = comments_outside(before, sb), comments_outside(after, sa)
    if cb is not None and ca is not None and cb != ca:
        # black may merge comments that stood inside the parentheses into a comment outside (`# lead  # after`);
        # what must hold: no comment that stood outside is lost, and their order is kept
        joined = "\n".join(comments_outside(after, []) or [])
        pos = 0
        for c in cb:
            k = joined.find(c, pos)
            if k < 0:
                return False, f"a comment outside the changed arguments was lost or reordered: {c!r}; before {cb} -> after {ca}"
            pos = k + len(c)
    return True, ""


def node_text(src, node):
    return ast.get_source_segment(src, node)


def c11_check(old, new_val, node, src, problems, path="arg"):
    """old: plain spec; new_val: value (evaluated in the re-run namespace); node: ast node of the rewritten argument"""
    old_val = old["_value"]
    try:
        equal = bool(old_val == new_val)  # the pipeline's notion of "unchanged" is ==
    except Exception:
        return
    if equal:
        got = node_text(src, node)
        if got != old["text"]:
            problems.append(f"{path}: value unchanged but source text {old['text']!r} became {got!r}")
        return
    kind = old["kind"]
    if kind in ("list", "tuple") and type(new_val) is (list if kind == "list" else tuple) and isinstance(node, ast.List if kind == "list" else ast.Tuple):
        ov = [k["_value"] for k in old["kids"]]
        nv = list(new_val)
        if len(node.elts) != len(nv):
            problems.append(f"{path}: rewritten display has {len(node.elts)} elements, value has {len(nv)}")
            return
        p = 0
        while p < min(len(ov), len(nv)) and _eq(ov[p], nv[p]):
            p += 1
        s = 0
        while s < min(len(ov), len(nv)) - p and _eq(ov[-1 - s], nv[-1 - s]):
            s += 1
        for j in range(p):
            c11_check(old["kids"][j], nv[j], node.elts[j], src, problems, f"{path}[{j}]")
        for j in range(s):
            c11_check(old["kids"][-1 - j], nv[-1 - j], node.elts[-1 - j], src, problems, f"{path}[-{j + 1}]")
        return
    if kind == "dict" and type(new_val) is dict and isinstance(node, ast.Dict):
        after_entries = {}
        for kn, vn in zip(node.keys, node.values):
            if kn is None:
                return
            try:
                after_entries[_freeze(eval(compile(ast.Expression(kn), "<key>", "eval"), {}))] = (kn, vn)
            except Exception:
                return
        for (kv, kt), kid in zip(old["_keys"], old["kids"]):
            if kv in new_val:
                ent = after_entries.get(_freeze(kv))
                if ent is None:
                    problems.append(f"{path}: surviving key {kv!r} is missing in the rewritten display")
                    continue
                if _eq(kid["_value"], new_val[kv]) and node_text(src, ent[0]) != kt:
                    problems.append(f"{path}: key text {kt!r} of an unchanged entry became {node_text(src, ent[0])!r}")
                c11_check(kid, new_val[kv], ent[1], src, problems, f"{path}[{kv!r}]")
        return
    if kind == "call" and isinstance(node, ast.Call) and type(new_val).__name__ == "DC":
        kws = {k.arg: k.value for k in node.keywords}
        for (kv, kt), kid in zip(old["_keys"], old["kids"]):
            nvv = getattr(new_val, kv)
            if kv in kws:
                c11_check(kid, nvv, kws[kv], src, problems, f"{path}.{kv}")
            elif _eq(kid["_value"], nvv):
                problems.append(f"{path}: keyword argument {kv} with unchanged value disappeared")
        return


def _eq(a, b):
    try:
        return bool(a == b)
    except Exception:
        return False


def _freeze(k):
    return (type(k).__name__, repr(k))


def _attach_values(old, ns):
    """evaluate the old element texts in the namespace of the re-run module (the harness' own model is not trusted)"""
    old["_value"] = eval(old["text"], ns)
    if old["kind"] == "call":
        old["_keys"] = [(kt, kt) for _, kt in old["keys"]]
    else:
        old["_keys"] = [(eval(kt, ns), kt) for _, kt in old["keys"]]
    for k in old["kids"]:
        _attach_values(k, ns)


# ==================================================================================================
# worker
# ==================================================================================================
def eval_case(case):
    tmp = tempfile.mkdtemp(prefix="bnd_layout_")
    old_cwd = os.getcwd()
    try:
        if case.get("toml"):
            with open(os.path.join(tmp, "pyproject.toml"), "w", encoding="utf-8") as f:
                f.write(case["toml"])
        os.chdir(tmp)
        return _eval_in_cwd(case, tmp)
    finally:
        os.chdir(old_cwd)
        shutil.rmtree(tmp, ignore_errors=True)


def _fail(case, finding, detail, before, after=None, label="other"):
    d = f"[{case['prop']} {case['name']} flags={case['flags']}] {detail}\n--- before ---\n{before}"
    if after is not None:
        d += f"\n--- after ---\n{after}"
    return dict(status="fail", finding=finding, detail=d, src=before, label=label)


def _eval_in_cwd(case, cwd):
    import black
    from pathlib import Path

    D._clear_black_caches()
    prop = case["prop"]
    src = case["src"]
    mode = make_mode(case.get("mode_opts") or {})
    if case.get("make_clean"):
        try:
            src = black.format_str(src, mode=mode)
        except Exception as ex:
            return dict(status="skip", why=f"black cannot format the generated source: {type(ex).__name__}")
    if case.get("crlf"):
        src = src.replace("\n", "\r\n")
    try:
        compile(src.replace("\r\n", "\n"), MAIN, "exec")
    except SyntaxError as ex:
        return dict(status="harness", detail=f"generated source does not compile: {ex}\n{src}")
    src_lf = src.replace("\r\n", "\n")
    try:
        clean_before = black.format_str(src_lf, mode=mode) == src_lf
    except Exception:
        clean_before = False
    if case.get("make_clean") and not clean_before:
        return dict(status="skip", why="black is not idempotent on the generated source (before the run)")
    if case.get("require_not_clean") and clean_before:
        return dict(status="skip", why="generated not-clean file happens to be clean")
    files = {MAIN: src}
    if case.get("toml"):
        files["pyproject.toml"] = case["toml"]
    # the mode the pipeline will use must be the mode of the project's pyproject.toml
    from inline_snapshot._format import file_mode_for_path

    pipeline_mode = file_mode_for_path(Path(cwd) / MAIN)
    if pipeline_mode != mode and not case.get("toml"):
        return dict(status="skip", why="environment: a pyproject.toml with [tool.black] is visible from the temp directory")
    if pipeline_mode != mode:
        return _fail(case, None, f"black mode taken from pyproject.toml differs from the configured one: {pipeline_mode} != {mode}", src)

    r = D.run_case(files, case["flags"])
    if r["error"] is not None:
        if "AttributeError" in r["error"] and "_changes" in r["error"]:
            return _fail(case, "F3", "run_inline raised:\n" + r["error"][-1500:], src)
        return _fail(case, None, "run_inline raised:\n" + r["error"][-2500:], src)
    after = r["files"][MAIN]
    after_lf = after.replace("\r\n", "\n")
    # valid Python
    try:
        compile(after_lf, MAIN, "exec")
    except SyntaxError as ex:
        label = "other"
        if case["name"].endswith("/paren") or re.search(r"[\[,(:]\s*\(\d+\)", src):
            label = "new:paren-element (element written in redundant parentheses next to an insertion/deletion)"
        return _fail(case, None, f"[{label}] rewritten file is not valid Python: {ex}", src, after, label=label)

    changed = case.get("changed")
    if changed is None:
        changed = list(range(len(D.snapshot_calls(src))))
    info = dict(status="ok", clean_before=clean_before, changed=after != src)

    # ---- C03 / C20 layout oracles (applied to every case of this module)
    if clean_before:
        ok, detail = ast_oracle(src_lf, after_lf, changed)
        if not ok:
            return _fail(case, None, "formatter-clean file: " + detail, src, after)
        try:
            still = black.format_str(after_lf, mode=mode) == after_lf
        except Exception as ex:
            return _fail(case, None, f"black cannot format the rewritten file: {ex}", src, after)
        if not still:
            twice = black.format_str(black.format_str(after_lf, mode=mode), mode=mode) == black.format_str(after_lf, mode=mode)
            return _fail(case, None, "file was formatter-clean before the rewrite and is not afterwards (black idempotent on the result: %s)" % twice, src, after)
        if case.get("crlf") and after != src and "\r\n" not in after:
            info["note"] = "clean CRLF file came back with LF endings (whole-file formatting; not a C03 failure for clean files)"
    else:
        ok, finding, detail = byte_oracle(src, after, changed)
        if not ok:
            return _fail(case, finding, detail, src, after)

    rr = None
    if case.get("expect_green") and prop in ("C03", "C20"):
        rr = D.rerun_identity(after)
        if rr["errors"]:
            return _fail(case, None, "rewritten module is not green with snapshot := identity: " + "; ".join(f"{w}: {t}: {m}" for w, t, m, _ in rr["errors"]), src, after)

    # ---- C10
    if prop == "C10":
        calls_b = D.snapshot_calls(src)
        calls_a = D.snapshot_calls(after)
        if len(calls_b) != len(calls_a):
            return _fail(case, None, "number of snapshot() calls changed", src, after)
        # the outer snapshot is the last call in text order (the inner one, if any, is defined above it)
        a0, b0, _ = calls_b[-1]
        a1, b1, _ = calls_a[-1]
        arg_b, arg_a = src[a0:b0], after[a1:b1]
        for ut in case["utexts"]:
            nb, na = arg_b.count(ut), arg_a.count(ut)
            if na > nb:
                return _fail(case, None, f"unmanaged text {ut!r} occurs more often after the rewrite", src, after)
            if case.get("survive") and na != nb:
                return _fail(case, None, f"unmanaged text {ut!r} must survive verbatim but is gone/changed ({nb} -> {na} occurrences)", src, after)
        for m in case["markers"]:
            # every remaining mention of the marker must sit inside a verbatim copy of an unmanaged text
            stripped = arg_a
            for ut in case["utexts"]:
                stripped = stripped.replace(ut, "")
            if re.search(r"\b" + re.escape(m) + r"\b", stripped):
                return _fail(case, None, f"unmanaged sub-expression mentioning {m!r} was altered (not verbatim, not removed as a whole)", src, after)
        if case.get("inner_expect") is not None and not re.search(r"\binner\b", arg_a):
            return _fail(case, None, "the name holding the nested snapshot was edited through its parent", src, after)
        fl = set(case["flags"].split(","))
        if case["u_correct"] and {"create", "fix"} <= fl:
            rr = D.rerun_identity(after)
            if rr["errors"]:
                return _fail(case, None, "unmanaged part is correct, create+fix approved, but the rewritten module is not green: "
                             + "; ".join(f"{w}: {t}: {m}" for w, t, m, _ in rr["errors"]), src, after)
        elif not case["u_correct"]:
            info["note"] = "unmanaged part wrong by construction: only the text rule is checked"
            if case.get("sib_keys") is not None and "fix" in fl:
                # managed siblings of a wrong unmanaged dict value are still fixed (entries are matched by key)
                rr = D.rerun_identity(after)
                ns = rr["ns"] or {}
                try:
                    got = eval(arg_a, ns)
                    want = eval(case["new"], ns)
                except Exception as ex:
                    return _fail(case, None, f"cannot evaluate the rewritten argument: {type(ex).__name__}: {ex}", src, after)
                bad = [k for k in case["sib_keys"] if not (k in got and got[k] == want[k])]
                if bad:
                    return _fail(case, None, f"managed siblings {bad} of an unmanaged (wrong) value were not fixed", src, after)
                info["note"] = "unmanaged part wrong by construction: text rule + managed dict siblings fixed"

    # ---- C11
    if prop == "C11":
        rr = D.rerun_identity(after)
        if rr["errors"]:
            return _fail(case, None, "fix approved but the rewritten module is not green: " + "; ".join(f"{w}: {t}: {m}" for w, t, m, _ in rr["errors"]), src, after)
        ns = rr["ns"]
        import copy

        old = copy.deepcopy(case["old"])
        try:
            _attach_values(old, ns)
            new_val = eval(case["new_expr"], ns)
        except Exception as ex:
            return dict(status="skip", why=f"cannot evaluate the element texts: {type(ex).__name__}: {ex}")
        tree = ast.parse(after)
        call = None
        for n in ast.walk(tree):
            if isinstance(n, ast.Call) and isinstance(n.func, ast.Name) and n.func.id == "snapshot":
                call = n
        if call is None or len(call.args) != 1:
            return _fail(case, None, "snapshot() call with one argument not found after the rewrite", src, after)
        problems = []
        c11_check(old, new_val, call.args[0], after, problems)
        if problems:
            return _fail(case, None, "unchanged elements lost their source text under fix (without update): " + " | ".join(problems[:4]), src, after)
    return info


# ==================================================================================================
# stand-in
# ==================================================================================================
def replay_code(case, src_used):
    toml = case.get("toml")
    lines = [D.REPLAY_PRELUDE, "import ast", f"SRC = {src_used!r}", f"FLAGS = {case['flags']!r}", f"CWD_FILES = {({'pyproject.toml': toml} if toml else {})!r}",
             "files = {'test_something.py': SRC}", "files.update(CWD_FILES)",
             "after, raised = run_inline(files, FLAGS, cwd_files=CWD_FILES)", "new = after['test_something.py']", "print(new)",
             "compile(new.replace('\\r\\n', '\\n'), 'test_something.py', 'exec')  # C03: still valid Python"]
    prop = case["prop"]
    if case.get("crlf"):
        lines += ["assert '\\r\\n' in new or new == SRC, 'F8: CRLF line endings were replaced by LF'"]
    lines += [
        "# the detail text of the failure names the violated oracle; the generic checks that can be replayed stand-alone follow",
        f"EXPECT_GREEN = {bool(case.get('expect_green') or (prop == 'C10' and case.get('u_correct') and 'fix' in case['flags'] and 'create' in case['flags']) or prop == 'C11')!r}",
        "if EXPECT_GREEN:",
        "    rerun_identity(new)",
    ]
    if prop == "C10":
        lines += [f"for ut in {case['utexts']!r}:", "    assert new.count(ut) <= SRC.count(ut), ('unmanaged text multiplied', ut)"]
        if case.get("survive"):
            lines += [f"for ut in {case['utexts']!r}:", "    assert new.count(ut) == SRC.count(ut), ('unmanaged text not kept verbatim', ut)"]
    if prop in ("C03", "C20"):
        lines += [
            "import black",
            f"mode = black.Mode(**{(case.get('mode_opts') or {})!r})",
            "lf = SRC.replace('\\r\\n', '\\n')",
            "if black.format_str(lf, mode=mode) == lf:",
            "    assert black.format_str(new, mode=mode) == new, 'C20: file was formatter-clean before and is not afterwards'",
        ]
    if prop in ("C03", "C20"):
        lines += [
            "import asttokens",
            "def masked(src, changed):",
            "    atok = asttokens.ASTTokens(src, parse=True)",
            "    spans = []",
            "    for n in ast.walk(atok.tree):",
            "        if isinstance(n, ast.Call) and isinstance(n.func, ast.Name) and n.func.id == 'snapshot':",
            "            spans.append((atok.next_token(list(atok.get_tokens(n.func))[-1]).endpos, list(atok.get_tokens(n))[-1].startpos))",
            "    spans.sort()",
            "    out, pos = [], 0",
            "    for i, (a, b) in enumerate(spans):",
            "        if i in changed and a >= pos:",
            "            out.append(src[pos:a] + chr(0))",
            "            pos = b",
            "    return ''.join(out) + src[pos:]",
            f"CHANGED = {list(case.get('changed') or [])!r}",
            "if black.format_str(lf, mode=mode) != lf:  # not formatter-clean: byte for byte outside the changed arguments",
            "    assert masked(SRC, CHANGED) == masked(new, CHANGED), 'C03: text outside the parentheses of the changed snapshot() calls differs'",
        ]
    lines += [
        "# finally the exact oracle of the stand-in (needs /verif on sys.path)",
        "sys.path.insert(0, '/verif')",
        "from bounded import b_layout",
        f"CASE = {_plain_case(case)!r}",
        "out = b_layout.eval_case(CASE)",
        "assert out['status'] != 'fail', out['detail']",
    ]
    return "\n".join(lines) + "\n"


def _plain_case(case):
    return {k: v for k, v in case.items() if not k.startswith("_")}


def _describe(case):
    return dict(prop=case["prop"], name=case["name"], flags=case["flags"], source=case["src"])


@standin("B-layout", props=["C03", "C20", "C10", "C11"],
         bound="generated test files through Example.run_inline: 23 statement layouts x 6 headers x 21 argument edits x 6 flag sets, LF/CRLF, "
               "formatter-clean and not clean (C03); 9 pyproject [tool.black] variants x 5 shapes x values around the line limit (C20); "
               "Is()/f-string/star-expression/nested-snapshot name inside list/tuple/dict/call at every position (C10); "
               "containers of hand-written element expressions, depth<=2, width<=4, random edit scripts + all sequence pairs over 3 symbols up to length 3 (C11)")
def run(tier, seed, pid=None):
    t0 = time.time()
    budget = 240.0 if tier == "quick" else 1200.0  # sized for ~30 s idle; generous so that load does not shrink the coverage
    deadline = t0 + budget
    res = dict(evaluated=0, distinct=0, failures=[], samples=[], cross_checks=[], skipped=0, notes=[])
    try:
        gens = dict(C03=c03_cases, C20=c20_cases, C10=c10_cases, C11=c11_cases)
        props = D.requested_props(list(gens), pid)
        res["props_run"] = props
        cases = []
        for p, g in gens.items():
            if p in props:
                cases += g(tier, seed)
        random.Random(seed).shuffle(cases)
        results, not_run = D.pool_run(eval_case, cases, 6, deadline)
        if not_run:
            res["notes"].append(f"{not_run} generated cases not run (deadline)")
        per_finding = {}
        distinct = set()
        by_prop = {}
        skip_why = {}
        notes = {}
        clean = changed = 0
        for case, out in results:
            p = case["prop"]
            bp = by_prop.setdefault(p, dict(evaluated=0, failed=0, skipped=0))
            if "_harness_error" in out or out.get("status") == "harness":
                res["evaluated"] += 1
                bp["evaluated"] += 1
                _add_failure(res, per_finding, None, dict(_describe(case), harness=True),
                             "HARNESS ERROR (not a defect of /repo): " + (out.get("_harness_error") or out.get("detail")), "", "harness")
                continue
            if out["status"] == "skip":
                res["skipped"] += 1
                bp["skipped"] += 1
                skip_why[out["why"]] = skip_why.get(out["why"], 0) + 1
                continue
            res["evaluated"] += 1
            bp["evaluated"] += 1
            distinct.add(case["src"] + case["flags"] + str(case.get("toml")) + str(case.get("crlf")) + str(case.get("make_clean")))
            if out["status"] == "ok":
                clean += bool(out.get("clean_before"))
                changed += bool(out.get("changed"))
                if out.get("note"):
                    notes[out["note"]] = notes.get(out["note"], 0) + 1
                continue
            bp["failed"] += 1
            bf = bp.setdefault("by_finding", {})
            bf[str(out["finding"])] = bf.get(str(out["finding"]), 0) + 1
            _add_failure(res, per_finding, out["finding"], _describe(case), out["detail"], replay_code(case, out["src"]), out.get("label", "other"))
        res["distinct"] = len(distinct)
        res["by_prop"] = by_prop
        res["failure_counts"] = {str(k): v for k, v in per_finding.items()}
        res["skipped_reasons"] = skip_why
        res["notes"] += [f"{k} (x{v})" for k, v in notes.items()]
        res["notes"] += [
            "not generated (cannot be decided precisely): positional dataclass arguments under C11 (the adapter re-writes them as keywords even for "
            "equal values), dirty-equals values (package absent), f-string vs non-str value (element is replaced as a whole), "
            "F14 (import insertion: plugin only), format-command configurations (plugin config only)",
            "black looks for pyproject.toml starting at the current working directory, not at the test file: the worker chdir()s into a directory "
            "holding the pyproject.toml (run_inline's own temp dir is not searched)",
        ]
        rng = random.Random(seed)
        res["samples"] = [dict(prop=c["prop"], name=c["name"], flags=c["flags"]) for c, _ in rng.sample(results, min(5, len(results)))]
        res["cross_checks"] = [
            "X2 black keeps the AST (black.format_str invoked independently on before/after of formatter-clean files)",
            "X3 black is idempotent on the rewritten file (fixed-point check)",
            "X11 executing finds the call node (two calls per line, nested calls, non-ASCII to the left, tabs, backslash continuation)",
            "X12 asttokens positions are character offsets (multi-byte / astral characters left of the edit)",
            "X13 black.find_pyproject_toml starts at the cwd (pipeline mode == harness mode checked for every case)",
            f"{clean} of {res['evaluated']} files were formatter-clean before the run; rewritten != original in {changed} runs",
        ]
    except Exception:
        res["failures"].append(dict(finding=None, input="<stand-in driver>", detail="HARNESS ERROR: " + traceback.format_exc()[-3000:], replay_code=""))
    res["passed"] = not res["failures"]
    res["seconds"] = round(time.time() - t0, 1)
    return res


def _add_failure(res, per_finding, finding, inp, detail, replay, label="other"):
    """caps: 5 per finding id, 20 for finding=None (at most 5 per triage label so that one defect cannot hide another)"""
    n = per_finding.get(finding, 0)
    per_finding[finding] = n + 1
    if finding is not None:
        keep = n < 5
    else:
        lab = res.setdefault("none_labels", {})
        lab[label] = lab.get(label, 0) + 1
        kept = sum(1 for f in res["failures"] if f["finding"] is None)
        keep = kept < 20 and lab[label] <= 5
    if keep:
        res["failures"].append(dict(finding=finding, prop=inp.get("prop"), label=label, input=inp, detail=detail, replay_code=replay))
