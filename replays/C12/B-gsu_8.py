"""Replay file written by /verif/check.py
{
 "property": "C12",
 "standin": "B-gsu",
 "bound": "displays with <= 3 elements x 4 layouts x 4 kinds x delete subsets x 5 insert patterns (1500 sampled cases quick / all thorough) through the real apply_all + new_code",
 "input": "('call', 'trailing', ('1', '0+2', '\"\"\"a\\nb\"\"\"'), (0, 1), {0: ['7'], 3: ['8']})",
 "detail": "AssertionError: (Replacement(range=SourceRange(start=SourcePosition(lineno=1, col_offset=4), end=SourcePosition(lineno=2, col_offset=5)), text=', 8', change_id=61), Replacement(range=SourceRange(start=SourcePosition(lineno=1, col_offset=16), end=SourcePosition(lineno=1, col_offset=24)), text='7, ', change_id=61))"
}
"""

import sys, tempfile
sys.path.insert(0, "/verif")
from bounded.b_gsu import one_case
msg = one_case(tempfile.mkdtemp(), *('call', 'trailing', ('1', '0+2', '"""a\nb"""'), (0, 1), {0: ['7'], 3: ['8']}))
print(('call', 'trailing', ('1', '0+2', '"""a\nb"""'), (0, 1), {0: ['7'], 3: ['8']}), "->", msg)
assert msg is None, msg

