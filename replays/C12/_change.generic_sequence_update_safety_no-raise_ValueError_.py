"""Replay file written by /verif/check.py
{
 "property": "C12",
 "failed_obligation": "_change.generic_sequence_update/safety:no-raise(ValueError)",
 "path": 2,
 "function": "inline_snapshot._change.generic_sequence_update",
 "verdict": "unknown+native-witness",
 "backend": "z3-5.1,cvc5-1.0.3,z3-4.8.12",
 "solver_model": null,
 "where": "[\"'range start should be lower then end'\"]"
}
"""

import sys, tempfile
sys.path.insert(0, "/verif")
from bounded.b_gsu import one_case
msg = one_case(tempfile.mkdtemp(), *('dict', 'trailing', ('1', '0+2', '"""a\nb"""'), (0, 1), {0: ['7'], 3: ['8']}))
print(('dict', 'trailing', ('1', '0+2', '"""a\nb"""'), (0, 1), {0: ['7'], 3: ['8']}), "->", msg)
assert msg is None, msg

