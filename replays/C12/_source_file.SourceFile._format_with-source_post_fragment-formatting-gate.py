"""Replay file written by /verif/check.py
{
 "property": "C12",
 "failed_obligation": "_source_file.SourceFile._format#with-source/post:fragment-formatting-gate",
 "path": 1,
 "function": "inline_snapshot._source_file.SourceFile._format#with-source",
 "verdict": "refuted",
 "backend": "z3-5.1",
 "solver_model": "enforce!13 = True\nfmt = [else -> Txt!val!1]\ntext!1 = Txt!val!0",
 "where": ""
}
"""

print('no native failing input was found for this obligation; see the header for the solver output')
