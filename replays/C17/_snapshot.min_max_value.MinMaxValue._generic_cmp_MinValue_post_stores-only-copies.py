"""Replay file written by /verif/check.py
{
 "property": "C17",
 "failed_obligation": "_snapshot.min_max_value.MinMaxValue._generic_cmp#MinValue/post:stores-only-copies",
 "path": 3,
 "function": "inline_snapshot._snapshot.min_max_value.MinMaxValue._generic_cmp#MinValue",
 "verdict": "refuted",
 "backend": "z3-5.1",
 "solver_model": "FalseVal = Val!val!1\nNoneVal = Val!val!2\nTrueVal = Val!val!0\ndeepcopy_Val = [else ->\n If(And(Var(0) == Val!val!4,\n        Not(Var(0) == Val!val!7),\n        Not(Var(0) == Val!val!2),\n        Not(Var(0) == Val!val!0),\n        Not(Var(0) == Val!val!5)),\n    Val!val!4,\n    Val!val!7)]\nle_Val = [else -> Val!val!6]\nother!4 = Val!val!3\nself._new_value!2 = Val!val!5\nself._old_value!1 = Val!val!4\ntruthy_Val = [Val!val!0 -> True, else -> False]\nundefined_Val = Val!val!4",
 "where": ""
}
"""

print('no native failing input was found for this obligation; see the header for the solver output')
