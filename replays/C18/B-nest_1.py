"""Replay file written by /verif/check.py
{
 "property": "C18",
 "standin": "B-nest",
 "bound": "generated single-test modules: inner snapshot (3 shapes, inline or by name) at every position of list/tuple/dict/nested list among 0..2 siblings x ~20 observed-value transformations x 2 (quick) / 9 (thorough) flag sets; 34 failing / raising test bodies x 3 / 9 flag sets; real Example.run_inline",
 "input": {
  "group": "failing",
  "name": "in-unused-noncanonical-first",
  "flags": "create,fix,trim,update",
  "source": "from inline_snapshot import snapshot\n\n\n\nclass Boom:\n    def __eq__(self, other):\n        raise ValueError(\"boom\")\n\n    def __le__(self, other):\n        raise ValueError(\"boom\")\n\n    def __ge__(self, other):\n        raise ValueError(\"boom\")\n\n    def __repr__(self):\n        return \"Boom()\"\n\n\nclass Never:\n    def __eq__(self, other):\n        return False\n\n    def __repr__(self):\n        return \"Never()\"\n\n\ndef test_a():\n    assert 3 in snapshot([0x10, 0x3, 2])\n"
 },
 "detail": "edits overlap (SourceFile._check): Traceback (most recent call last):\n  File \"/verif/bounded/_rl_driver.py\", line 93, in run_case\n    res = QE(dict(files)).run_inline([\"--inline-snapshot=\" + flags], raises=cap)\n          ^^^^^^^^^^^^^^^^^^^^^^^^^^^^^^^^^^^^^^^^^^^^^^^^^^^^^^^^^^^^^^^^^^^^^^\n  File \"/tmp/se_c18c_1/src/inline_snapshot/testing/_example.py\", line 177, in run_inline\n    apply_all(\n  File \"/tmp/se_c18c_1/src/inline_snapshot/_change.py\", line 227, in apply_all\n    generic_sequence_update(\n  File \"/tmp/se_c18c_1/src/inline_snapshot/_change.py\", line 157, in generic_sequence_update\n    rec.replace(\n  File \"/tmp/se_c18c_1/src/inline_snapshot/_rewrite_code.py\", line 106, in replace\n    self._replace(\n  File \"/tmp/se_c18c_1/src/inline_snapshot/_rewrite_code.py\", line 123, in _replace\n    source._check()\n  File \"/tmp/se_c18c_1/src/inline_snapshot/_rewrite_code.py\", line 153, in _check\n    assert lhs.range.end <= rhs.range.start, (lhs, rhs)\nAssertionError: (Replacement(range=SourceRange(start=SourcePosition(lineno=28, col_offset=26), end=SourcePosition(lineno=28, col_offset=30)), text='16', change_id=157), Replacement(range=SourceRange(start=SourcePosition(lineno=28, col_offset=26), end=SourcePosition(lineno=28, col_offset=32)), text='', change_id=159))\n"
}
"""

import sys
sys.path.insert(0, "/verif")
from bounded import _rl_driver as D
src = 'from inline_snapshot import snapshot\n\n\n\nclass Boom:\n    def __eq__(self, other):\n        raise ValueError("boom")\n\n    def __le__(self, other):\n        raise ValueError("boom")\n\n    def __ge__(self, other):\n        raise ValueError("boom")\n\n    def __repr__(self):\n        return "Boom()"\n\n\nclass Never:\n    def __eq__(self, other):\n        return False\n\n    def __repr__(self):\n        return "Never()"\n\n\ndef test_a():\n    assert 3 in snapshot([0x10, 0x3, 2])\n'
out = D.run_case({"test_something.py": src}, 'create,fix,trim,update')
print(out["error"] or "no internal error")
assert out["error"] is None, "internal error while collecting / applying the changes (C18)"
import ast
for fn, txt in out["files"].items():
    if fn.endswith(".py"):
        ast.parse(txt)

