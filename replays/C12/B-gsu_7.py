"""Replay file written by /verif/check.py
{
 "property": "C12",
 "standin": "B-gsu",
 "bound": "displays with <= 3 elements x 4 layouts x 4 kinds x delete subsets x 5 insert patterns (1500 sampled cases quick / all thorough) through the real apply_all + new_code",
 "input": "('call', 'multi', ('\"\"\"a\\nb\"\"\"', '1'), (1,), {1: ['\"\"\"x\\ny\"\"\"']})",
 "detail": "result does not parse (invalid syntax): 'x = \\'\u00e4\u00f6\\'; v = g(\\n    , \"\"\"x\\ny\"\"\")  # tail\\ny = 2\\n'"
}
"""

import sys, tempfile
sys.path.insert(0, "/verif")
from bounded.b_gsu import one_case
msg = one_case(tempfile.mkdtemp(), *('call', 'multi', ('"""a\nb"""', '1'), (1,), {1: ['"""x\ny"""']}))
print(('call', 'multi', ('"""a\nb"""', '1'), (1,), {1: ['"""x\ny"""']}), "->", msg)
assert msg is None, msg

