"""Replay file written by /verif/check.py
{
 "property": "C13",
 "standin": "B-sess",
 "bound": "real pytest subprocess sessions on 1 (quick) / 3 (thorough) generated 4-category template projects: 16 category subsets x {flags, +report, +short-report, review answers, review+flags, env var, pyproject, CI, xdist} (quick: ~35 of these) + single-test (-k) sessions per failing operation; external-storage histories of 7 steps + no-trim probes for 2 (quick) / 6 (thorough) data/suffix/hash-length/storage-dir variants",
 "input": {
  "suffix_arg": ".png",
  "hash_length": null,
  "storage_dir": null,
  "datas": [
   "b'\\x00\\x01\"'",
   "b'\\x00\\x02'",
   "b'\\xff\\x03'"
  ],
  "quick": true,
  "s4": "none",
  "step": "S8 trim after hash-length 12 -> 18"
 },
 "detail": "C13: storage = []; expected exactly 5b9f13720f7a45875e7095b41e43a15ec699bb298bc7b811495911d683a1b1f0.png (still referenced by external(\"5b9f13720f7a*.png\"))\n============================= test session starts ==============================\nplatform linux -- Python 3.12.1, pytest-9.1.1, pluggy-1.6.0\nrootdir: /tmp/bsess-594t2bqa/proj\nconfigfile: pyproject.toml\nplugins: rerunfailures-16.7, xdist-3.8.0, hypothesis-6.168.0, asyncio-1.4.0, timeout-2.4.0, inline-snapshot-0.22.3, mock-3.15.1, pytest_freezer-0.4.9, cov-7.1.0\nasyncio: mode=Mode.STRICT, debug=False, asyncio_default_fixture_loop_scope=None, asyncio_default_test_loop_scope=function\ncollected 1 item\n\ntest_e.py .                                                              [100%]\n\n\u2550\u2550\u2550\u2550\u2550\u2550\u2550\u2550\u2550\u2550\u2550\u2550\u2550\u2550\u2550\u2550\u2550\u2550\u2550\u2550\u2550\u2550\u2550\u2550\u2550\u2550\u2550\u2550\u2550\u2550\u2550 inline-snapshot \u2550\u2550\u2550\u2550\u2550\u2550\u2550\u2550\u2550\u2550\u2550\u2550\u2550\u2550\u2550\u2550\u2550\u2550\u2550\u2550\u2550\u2550\u2550\u2550\u2550\u2550\u2550\u2550\u2550\u2550\u2550\u2550\nremoved 1 unused externals\n\n\n\n==================================== PASSES ====================================\n------------ generated xml file: /tmp/bsess-out-sq_oeudm/junit.xml -------------\n=========================== short test summary info ============================\nPASSED test_e.py::test_ext\n============================== 1 passed in 1.27s ==============================="
}
"""


# stand-alone replay: runs real pytest sessions of the plugin installed for this interpreter
# (run with /verif/.venv/bin/python, which sees the editable install of /repo).
import ast, os, shutil, subprocess, sys, tempfile
import xml.etree.ElementTree as ET
from pathlib import Path

CI_VARS = ('CI', 'bamboo.buildKey', 'BUILD_ID', 'BUILD_NUMBER', 'BUILDKITE', 'CIRCLECI', 'CONTINUOUS_INTEGRATION', 'GITHUB_ACTIONS', 'HUDSON_URL', 'JENKINS_URL', 'TEAMCITY_VERSION', 'TRAVIS', 'PYCHARM_HOSTED')
OTHER = ('INLINE_SNAPSHOT_DEFAULT_FLAGS', 'FORCE_COLOR', 'NO_COLOR', 'PYTEST_ADDOPTS', 'PYTEST_PLUGINS', 'PYTHONHASHSEED')
BASE_ARGS = ('-p', 'no:cacheprovider', '-p', 'no:benchmark', '-rA')


def _env(extra, tty):
    env = dict(os.environ)
    for v in CI_VARS + OTHER:
        env.pop(v, None)
    env.update(TERM="unknown", COLUMNS="80", PYTHONDONTWRITEBYTECODE="1")
    if tty:
        env["FORCE_COLOR"] = "true"
    env.update(extra or {})
    return env


def tree(root):
    return {p.relative_to(root).as_posix(): p.read_bytes() for p in sorted(Path(root).rglob("*"))
            if p.is_file() and "__pycache__" not in p.parts}


def write(root, files):
    for n, c in files.items():
        p = Path(root) / n
        p.parent.mkdir(parents=True, exist_ok=True)
        p.write_bytes(c if isinstance(c, bytes) else c.encode())


def outcomes(path):
    out = {}
    try:
        r = ET.parse(path).getroot()
    except Exception:
        return None
    for tc in r.iter("testcase"):
        k = out.setdefault(tc.get("classname") + "::" + tc.get("name"), set())
        kinds = {"failed" if c.tag == "failure" else c.tag for c in tc if c.tag in ("failure", "error", "skipped")}
        k.update(kinds or {"passed"})
    return out


def session(proj, args=(), env=None, stdin=b"", tty=None):
    out = tempfile.mkdtemp()
    try:
        before = tree(proj)
        p = subprocess.run([sys.executable, "-m", "pytest", *BASE_ARGS, "--junitxml=" + out + "/j.xml", *args],
                           cwd=proj, env=_env(env, bool(stdin) if tty is None else tty), input=stdin,
                           capture_output=True)
        return dict(rc=p.returncode, out=p.stdout.decode("utf-8", "replace"), err=p.stderr.decode("utf-8", "replace"),
                    outcomes=outcomes(out + "/j.xml"), before=before, after=tree(proj))
    finally:
        shutil.rmtree(out, ignore_errors=True)


def dump(src):
    return ast.dump(ast.parse(src.decode() if isinstance(src, bytes) else src))


ROOT = tempfile.mkdtemp()
PROJ = os.path.join(ROOT, "proj")
os.mkdir(PROJ)
try:
    write(PROJ, {'test_e.py': 'from inline_snapshot import outsource, snapshot\n\n\ndef test_ext():\n    assert outsource(b\'\\x00\\x01"\', suffix=\'.png\') == snapshot()\n', 'pyproject.toml': '[tool.inline-snapshot]\n'})
    r = session(PROJ, ['--inline-snapshot=create'])
    r = session(PROJ, [])
    write(PROJ, {'test_e.py': 'from inline_snapshot import outsource, snapshot\n\nfrom inline_snapshot import external\n\n\ndef test_ext():\n    assert outsource(b\'\\x00\\x02\', suffix=\'.png\') == snapshot(external("05b3abbe1b70*.png"))\n'})
    r = session(PROJ, ['--inline-snapshot=report'])
    write(PROJ, {'test_e.py': 'from inline_snapshot import outsource, snapshot\n\nfrom inline_snapshot import external\n\n\ndef test_ext():\n    assert outsource(b\'\\xff\\x03\', suffix=\'.png\') == snapshot(external("05b3abbe1b70*.png"))\n'})
    r = session(PROJ, [])
    r = session(PROJ, ['--inline-snapshot=fix'])
    r = session(PROJ, ['--inline-snapshot=trim'])
    r = session(PROJ, ['--inline-snapshot=create,fix,trim,update'])
    write(PROJ, {'pyproject.toml': '[tool.inline-snapshot]\nhash-length = 18\n'})
    r = session(PROJ, ['--inline-snapshot=trim'])
    print(r['out'][-2500:])
    ext = lambda t: {k[26:]: v for k, v in t.items() if k.startswith('.inline-snapshot/external/') and not k.endswith('.gitignore')}
    assert ext(r['after']) == {'5b9f13720f7a45875e7095b41e43a15ec699bb298bc7b811495911d683a1b1f0.png': b'\xff\x03'}, sorted(ext(r['after']))
finally:
    shutil.rmtree(ROOT, ignore_errors=True)
print("replay: no violation observed")

