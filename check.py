#!/verif/.venv/bin/python
"""check.py <PROPERTY-ID> [--tier quick|thorough]

Decides one property of /verif/properties.jsonl by contract-based deductive verification of the real
functions in /repo (re-extracted on every run), plus labelled bounded stand-ins.

exit 0  every obligation of the property discharged (or matched by an open known finding), stand-ins passed
exit 1  VIOLATION property=<id> replay=<path>    (refuted obligation / natively failing input, not a known finding)
exit 2  undecided only (unknown / unsupported), never printed as a violation
exit 3  checker fault (vacuity guard, extraction failure, missing overlay)
"""
from __future__ import annotations

import argparse
import json
import os
import sys
import time
import traceback
from concurrent.futures import ProcessPoolExecutor
from pathlib import Path

HERE = Path(__file__).resolve().parent
sys.path.insert(0, str(HERE))
os.chdir(HERE)


def _contract_worker(args):
    target, seed = args
    import z3  # noqa

    from pyvc import run as R
    from pyvc import specs
    from pyvc.contract import REGISTRY
    from pyvc.solve import discharge_all

    R.load_sidecars()
    t0 = time.time()
    out = {"target": target, "error": None}
    try:
        v, obs = R.verify_target(target, seed=seed, solve=False)
        ax = v.axioms()
        discharge_all(obs, ax, seed, jobs=1)
        vac = v.vacuity_obligations
        from pyvc import solve as S

        old = S.Z3_TIMEOUT_MS
        S.Z3_TIMEOUT_MS = 1000
        try:
            for o in vac:
                o.status = None
            discharge_all(vac, ax, seed, refute=False, jobs=1, cli=False)
        finally:
            S.Z3_TIMEOUT_MS = old
        out.update(
            src_hash=v.src_hash, span=list(v.span), file=str(v.module.path), paths=v.paths, ended=v.ended, errors=v.errors,
            covers=v.covers, inlined=sorted(v.inlined), havoced=sorted(v.havoced), contracts_used=sorted(v.contracts_used),
            externals_used=sorted(v.externals_used), uses=list(v.c.uses),
            vacuity=[o.status for o in vac],
            obligations=[
                dict(id=o.oid, kind=o.kind, label=o.label, props=o.props, status=o.status, backend=o.backend, ms=round(o.ms, 1),
                     path=o.path, where=o.where, model=o.model, detail=o.detail, smt2_head=None)
                for o in obs
            ],
        )
        # keep a few VCs as samples
        samples = []
        for o in obs[:2]:
            try:
                samples.append({"id": o.oid, "verdict": o.status, "smtlib_excerpt": o.smt2(ax)[-700:]})
            except Exception:
                pass
        out["samples"] = samples
    except Exception as ex:  # engine fault
        out["error"] = f"{type(ex).__name__}: {ex}\n{traceback.format_exc()[-1500:]}"
    out["wall"] = round(time.time() - t0, 2)
    return out


def _static_worker(name):
    from pyvc import run as R
    from pyvc.contract import STATIC

    R.load_sidecars()
    t0 = time.time()
    try:
        rows = STATIC[name]["fn"]()
        return dict(name=name, rows=rows, error=None, wall=round(time.time() - t0, 2))
    except Exception as ex:
        return dict(name=name, rows=[], error=f"{type(ex).__name__}: {ex}\n{traceback.format_exc()[-800:]}", wall=0)


def _standin_worker(args):
    import bounded

    name, pid, tier, seed = args
    try:
        return bounded.run_standin(name, pid, tier, seed)
    except Exception as exn:
        return {"name": name, "error": f"{type(exn).__name__}: {exn}", "passed": 0, "failures": []}


def _child(fn, arg, q):
    try:
        q.put(fn(arg))
    except BaseException as ex:  # pragma: no cover
        q.put({"__crash__": f"{type(ex).__name__}: {ex}"})


def run_tasks(tasks, jobs, per_task):
    """[(kind, name, fn, arg)] -> [(kind, name, result | None, timed_out)], each task in its own process, killed at its deadline"""
    import multiprocessing as mp

    ctx = mp.get_context("fork")
    pending = list(tasks)
    running = []
    out = []
    while pending or running:
        while pending and len(running) < jobs:
            kind, name, fn, arg = pending.pop(0)
            q = ctx.Queue()
            p = ctx.Process(target=_child, args=(fn, arg, q))
            p.start()
            running.append((kind, name, p, q, time.time()))
        time.sleep(0.05)
        still = []
        for kind, name, p, q, t0 in running:
            res = None
            try:
                res = q.get_nowait()
                got = True
            except Exception:
                got = False
            if got:
                p.join(5)
                if p.is_alive():
                    p.kill()
                if isinstance(res, dict) and "__crash__" in res:
                    res = {"target": name, "name": name, "error": res["__crash__"], "rows": [], "failures": []} if kind != "lemmas" else None
                out.append((kind, name, res, False))
            elif not p.is_alive():
                try:
                    res = q.get(timeout=1)
                    out.append((kind, name, res, False))
                except Exception:
                    out.append((kind, name, None, True))
            elif time.time() - t0 > per_task:
                p.kill()
                p.join(5)
                out.append((kind, name, None, True))
            else:
                still.append((kind, name, p, q, t0))
        running = still
    order = {(k, n): i for i, (k, n, _, _) in enumerate(tasks)}
    out.sort(key=lambda r: order.get((r[0], r[1]), 0))
    return out


def _lemma_worker(_):
    from pyvc import lemmas

    return lemmas.prove_all()


def load_known_findings():
    p = HERE / "known_findings.jsonl"
    out = []
    if p.exists():
        for line in p.read_text().splitlines():
            line = line.strip()
            if line and not line.startswith("#") and not line.startswith("fixed:"):
                out.append(json.loads(line))
    return out


def main():
    ap = argparse.ArgumentParser()
    ap.add_argument("pid")
    ap.add_argument("--tier", default=os.environ.get("VERIF_TIER", "quick"))
    ap.add_argument("--jobs", type=int, default=min(16, os.cpu_count() or 4))
    a = ap.parse_args()
    pid = a.pid
    tier = a.tier if a.tier in ("quick", "thorough") else "quick"
    seed = int(os.environ.get("VERIF_SEED", "0") or 0)
    t0 = time.time()

    from pyvc import run as R
    from pyvc.contract import REGISTRY, STATIC, contract_props

    try:
        R.load_sidecars()
    except Exception:
        traceback.print_exc()
        print(f"CHECKER-FAULT property={pid} sidecars failed to load")
        return 3
    targets = [t for t, c in REGISTRY.items() if pid in contract_props(c)]
    import bounded

    standins = bounded.standins_for(pid)
    statics = [n for n, sc in STATIC.items() if pid in sc["props"]]
    if not targets and not standins and not statics:
        print(f"CHECKER-FAULT property={pid}: no contract serves this property")
        return 3

    # every task runs in its own process with a deadline; a task that does not finish is *undecided* (never a violation)
    per_task = int(os.environ.get("VERIF_TASK_TIMEOUT", "1500" if tier == "quick" else "3000"))
    tasks = [("contract", t, _contract_worker, (t, seed)) for t in targets]
    if any(REGISTRY[t].uses for t in targets):
        tasks.append(("lemmas", "lemmas", _lemma_worker, 0))
    tasks += [("standin", s["name"], _standin_worker, (s["name"], pid, tier, seed)) for s in standins]
    tasks += [("static", n, _static_worker, n) for n in statics]
    done = run_tasks(tasks, a.jobs, per_task)
    results, lemma_results, standin_results, static_results = [], [], [], []
    for kind, name, out, timed_out in done:
        if kind == "contract":
            if timed_out or out is None:
                out = {"target": name, "error": None, "errors": [f"unsupported: verification did not finish within {per_task} s (undecided)"], "obligations": [{"id": "timeout", "kind": "timeout", "label": "timeout", "props": [], "status": "unknown", "backend": "-", "ms": 0, "path": 0, "where": "", "model": None, "detail": ""}],
                       "vacuity": ["unknown"], "wall": per_task, "src_hash": "?", "span": [0, 0], "file": "?", "paths": 0, "ended": 0, "covers": {}, "inlined": [], "havoced": [],
                       "contracts_used": [], "externals_used": [], "uses": [], "samples": []}
            results.append(out)
        elif kind == "lemmas":
            lemma_results = out or [{"lemma": "all", "discharged": False, "stages": [("timeout", "unknown")], "ms": 0.0}]
        elif kind == "standin":
            standin_results.append(out if out is not None else {"name": name, "error": f"stand-in did not finish within {per_task} s", "passed": 0, "failures": []})
        else:
            static_results.append(out if out is not None else {"name": name, "rows": [], "error": f"static check did not finish within {per_task} s", "wall": per_task})

    from report import finish

    return finish(pid, tier, seed, t0, results, lemma_results, standin_results, load_known_findings(), static_results)


if __name__ == "__main__":
    sys.exit(main())
