"""Replay file written by /verif/check.py
{
 "property": "C05",
 "failed_obligation": "_snapshot.min_max_value.MinMaxValue._generic_cmp#MinValue/E2/post:Inv-bound-preserved",
 "path": 3,
 "function": "inline_snapshot._snapshot.min_max_value.MinMaxValue._generic_cmp#MinValue/E2",
 "verdict": "refuted",
 "backend": "z3-5.1 finite-scope k=3",
 "solver_model": "FalseVal = Val!e1\nNoneVal = Val!e1\nTrueVal = Val!e0\ndeepcopy_Val = [else -> Var(0)]\nge_Val = [else ->\n If(Or(And(Var(0) == Val!e0, Var(1) == Val!e2),\n       And(Var(0) == Val!e1, Var(1) == Val!e0),\n       And(Var(0) == Val!e1, Var(1) == Val!e2)),\n    Val!e1,\n    Val!e0)]\nle_Val = [else ->\n If(Or(And(Var(0) == Val!e0, Var(1) == Val!e1),\n       And(Var(0) == Val!e2, Var(1) == Val!e1),\n       And(Var(0) == Val!e2, Var(1) == Val!e0)),\n    Val!e1,\n    Val!e0)]\nobs!5 = K(Val, False)\nother!4 = Val!e1\nself._new_value!2 = Val!e0\nself._old_value!1 = Val!e2\ntruthy_Val = [Val!e0 -> True, else -> False]\nundefined_Val = Val!e2",
 "where": ""
}
"""

print('no native failing input was found for this obligation; see the header for the solver output')
