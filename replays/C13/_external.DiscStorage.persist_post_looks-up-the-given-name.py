"""Replay file written by /verif/check.py
{
 "property": "C13",
 "failed_obligation": "_external.DiscStorage.persist/post:looks-up-the-given-name",
 "path": 1,
 "function": "inline_snapshot._external.DiscStorage.persist",
 "verdict": "refuted",
 "backend": "z3-5.1",
 "solver_model": "file!13 = mk_Rec_PathRec(\"-new\", \"\")\nname!1 = \".\"",
 "where": ""
}
"""

print('no native failing input was found for this obligation; see the header for the solver output')
