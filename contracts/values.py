"""Sidecar contracts for the snapshot value objects (Layer B):
   generic_value.clone / GenericValue._return, MinMaxValue._generic_cmp / _get_changes."""
from pyvc.contract import Loop, Shape, contract
from pyvc.specs import s_deepcopy
from pyvc.types import Opaque

GV = "inline_snapshot._snapshot.generic_value"
MM = "inline_snapshot._snapshot.min_max_value"

IGNORE = "(state.update_flags.fix or state.update_flags.create or state.update_flags.update or self._old_value is undefined)"
NOFLAGS = "(not state.update_flags.fix and not state.update_flags.create and not state.update_flags.update and not state.update_flags.trim)"

contract(
    GV + ".GenericValue._return",
    params={"self": "@Value", "result": "Val", "new_result": "Val"},
    returns="Val",
    result_name="ret",
    uses=["val"],
    frame=["state.incorrect_values"],
    ensures={
        # C07: "a wrong snapshot never yields a green run" -- every falsy comparison result is counted
        "incorrect-counted [C07]": "state.incorrect_values == old(state.incorrect_values) + ite(T(result), 0, 1)",
        # C02/C07: with create/fix/update (or an empty snapshot) the comparison is made to succeed with the new value
        "returns-new-result-when-ignoring-old [C02,C07,C05]": "implies(" + IGNORE + ", same(ret, new_result))",
        # C06: "returns exactly what the same comparison against the plain value returns" (the result object itself)
        "returns-plain-result [C06]": "implies(not " + IGNORE + ", same(ret, result))",
    },
    safety_props=["C18", "C14"],
    ghost={"frame_props": ["C14", "C07"]},
)


def x14_deepcopy(I, args, kwargs, node):
    return s_deepcopy(I, args[0])


contract(
    GV + ".clone",
    params={"obj": "Val"},
    returns="Val",
    result_name="ret",
    callees={"copy.deepcopy": x14_deepcopy, "inline_snapshot._code_repr.code_repr": "havoc"},
    assumes=["X14"],
    pure=True,
    frame=[],
    ensures={
        "is-deep-copy [C17]": "same(ret, deepcopy(obj))",
        "copy-equals-original [C17]": "T(eq(obj, ret))",
    },
    raises={"UsageError": {"only-when-copy-differs [C17]": "not T(eq(obj, deepcopy(obj)))"}},
    safety_props=["C18", "C17"],
)

# --------------------------------------------------------------------------------------------
# MinMaxValue._generic_cmp, instantiated for MinValue (cmp = a <= b) and MaxValue (cmp = a >= b)

for cls, cmpname in (("MinValue", "le"), ("MaxValue", "ge")):
    CMP = cmpname + "({a}, {b})"

    def cmp(a, b, _c=CMP):
        return _c.format(a=a, b=b)

    common = dict(
        params={"self": "@Value", "other": "Val"},
        returns="Val",
        result_name="ret",
        self_cls=f"{MM}.{cls}",
        callees={
            "MinMaxValue.cmp": "inline", f"{cls}.cmp": "inline", "GenericValue._visible_value": "inline",
            "GenericValue._ignore_old": "inline", "inline_snapshot._snapshot.generic_value.ignore_old_value": "inline",
        },
        frame=["self._new_value", "state.incorrect_values", "state.missing_values"],
        requires={"compared-value-is-not-the-sentinel": "other is not undefined"},
        raises={"UsageError": {"only-from-clone [C17]": "not T(eq(other, deepcopy(other)))"}},
        assumes=["PS6", "PS7", "X14"],
    )
    # variant 1: no order axioms -- return value (C06), counters (C07), ownership (C17), frame (C14)
    contract(
        MM + ".MinMaxValue._generic_cmp",
        name=f"{MM}.MinMaxValue._generic_cmp#{cls}",
        uses=["val"],
        ensures={
            "missing-counted [C07]": "state.missing_values == old(state.missing_values) + ite(self._old_value is undefined, 1, 0)",
            # C07: a failing comparison against the value in the source is counted in every flag mode
            "failing-comparison-counted [C07]": "implies(self._old_value is not undefined and not T(" + cmp("self._old_value", "other") + "),"
                                                " state.incorrect_values > old(state.incorrect_values))",
            # C06: without approval the comparison returns exactly what the plain comparison returns
            "plain-result-without-flags [C06]": "implies(" + NOFLAGS + " and self._old_value is not undefined, same(ret, " + cmp("self._old_value", "other") + "))",
            # C17: what is stored is a deep copy made at comparison time
            "stores-only-copies [C17,C14]": "same(self._new_value, old(self._new_value)) or same(self._new_value, deepcopy(other))",
            "records-something [C01,C05]": "self._new_value is not undefined",
            "old-value-untouched [C14,C05]": "same(self._old_value, old(self._old_value))",
        },
        ghost={"frame_props": ["C14"], "callee_default": cls == "MinValue"},
        safety_props=["C18"],
        **common,
    )
    # variant 2: E2 (totally ordered values) -- the aggregation invariant: _new_value is the extreme of everything observed
    contract(
        MM + ".MinMaxValue._generic_cmp",
        name=f"{MM}.MinMaxValue._generic_cmp#{cls}/E2",
        uses=["val", "E2"],
        params={"self": "@Value", "other": "Val", "obs": "Set[Val]"},
        **{k: v for k, v in common.items() if k not in ("params", "requires")},
        requires={
            "compared-value-is-not-the-sentinel": "other is not undefined",
            "Inv-bound": "implies(self._new_value is not undefined, all_obs(obs, lambda x: T(" + cmp("self._new_value", "x") + ")))",
            "Inv-empty": "implies(self._new_value is undefined, all_obs(obs, lambda x: False))",
        },
        ensures={
            # C05/C14/C01: repeated evaluation aggregates into the extreme bound, for every observation sequence (by induction)
            "Inv-bound-preserved [C05,C14,C01]": "all_obs(obs, lambda x: T(" + cmp("self._new_value", "x") + ")) and T(" + cmp("self._new_value", "other") + ")",
            # C07 converse (scope: copyable, totally ordered values): a holding snapshot is never failed by inline-snapshot
            "holding-comparison-not-counted [C07]": "implies(self._old_value is not undefined and T(" + cmp("self._old_value", "other") + "),"
                                                    " state.incorrect_values == old(state.incorrect_values))",
            "Inv-member [C05,C14,C01]": "same(self._new_value, old(self._new_value)) or same(self._new_value, deepcopy(other))",
        },
        safety_props=["C18"],
        ghost={"extra_params": ["obs"]},
    )

# --------------------------------------------------------------------------------------------
# CollectionValue.__contains__  (`x in snapshot([...])`)

CV = "inline_snapshot._snapshot.collection_value"
IN_NEW = "any(same(self._new_value[i], {x}) or T(eq(self._new_value[i], {x})) for i in range(0, len(self._new_value)))"

for variant, newty in (("first", "=Ellipsis"), ("later", "List[Val]")):
    shapes = {"CValue": Shape(CV + ".CollectionValue", {"_old_value": "Val", "_new_value": newty, "_ast_node": "Node", "_context": "@Context"})}
    oldnew = "old(self._new_value)"
    ens = {
        "missing-counted [C07]": "state.missing_values == old(state.missing_values) + ite(self._old_value is undefined, 1, 0)",
        # C07: a failing membership test against the list in the source is counted in every flag mode
        "failing-membership-counted [C07]": "implies(self._old_value is not undefined and not T(contains(self._old_value, item)),"
                                            " state.incorrect_values > old(state.incorrect_values))",
        "plain-result-without-flags [C06]": "implies(" + NOFLAGS + " and self._old_value is not undefined, same(ret, contains(self._old_value, item)))",
        "old-value-untouched [C14,C05]": "same(self._old_value, old(self._old_value))",
    }
    if variant == "first":
        ens["records-a-copy [C17,C01,C05]"] = "len(self._new_value) == 1 and same(self._new_value[0], deepcopy(item))"
    else:
        ens["members-kept [C14,C05]"] = "len(self._new_value) >= len(old(self._new_value)) and all(same(self._new_value[i], old(self._new_value)[i]) for i in range(0, len(old(self._new_value))))"
        ens["appends-only-a-copy [C17,C14]"] = ("len(self._new_value) == len(old(self._new_value)) or (len(self._new_value) == len(old(self._new_value)) + 1"
                                                " and same(self._new_value[len(old(self._new_value))], deepcopy(item)))")
        ens["no-duplicate-added [C05]"] = "implies(" + IN_NEW.replace("self._new_value", "old(self._new_value)").format(x="item") + ", len(self._new_value) == len(old(self._new_value)))"
    contract(
        CV + ".CollectionValue.__contains__",
        name=f"{CV}.CollectionValue.__contains__#{variant}",
        params={"self": "@CValue", "item": "Val"},
        shapes=shapes,
        returns="Val",
        result_name="ret",
        uses=["val"],
        callees={"inline_snapshot._snapshot.generic_value.ignore_old_value": "inline"},
        frame=["self._new_value", "state.incorrect_values", "state.missing_values"],
        requires={"compared-value-is-not-the-sentinel": "item is not undefined"},
        raises={"UsageError": {"only-from-clone [C17]": "not T(eq(item, deepcopy(item)))"}},
        ensures=ens,
        assumes=["PS6", "PS7", "X14"],
        safety_props=["C18"],
        ghost={"frame_props": ["C14"], "callee_default": variant == "later"},
    )
    # E1 variant: after the operation the tested value is a member of what is recorded (C01/C05: "a container holding every tested value")
    contract(
        CV + ".CollectionValue.__contains__",
        name=f"{CV}.CollectionValue.__contains__#{variant}/E1",
        params={"self": "@CValue", "item": "Val"},
        shapes=shapes,
        returns="Val",
        result_name="ret",
        uses=["val", "E1"],
        callees={"inline_snapshot._snapshot.generic_value.ignore_old_value": "inline"},
        requires={"compared-value-is-not-the-sentinel": "item is not undefined"},
        raises={"UsageError": {"only-from-clone [C17]": "not T(eq(item, deepcopy(item)))"}},
        ensures={"tested-value-is-member [C01,C05,C14]": IN_NEW.format(x="item")},
        assumes=["PS6", "PS7", "X14", "E1"],
        safety_props=["C18"],
    )
