"""Replay file written by /verif/check.py
{
 "property": "C12",
 "standin": "B-gsu",
 "bound": "displays with <= 3 elements x 4 layouts x 4 kinds x delete subsets x 5 insert patterns (1500 sampled cases quick / all thorough) through the real apply_all + new_code",
 "input": "('dict', 'single', (\"'s'\", '((7) )'), (1,), {1: ['\"\"\"x\\ny\"\"\"']})",
 "detail": "result does not parse (unterminated string literal (detected at line 1)): 'x = \\'\u00e4\u00f6\\'; v = {0: \\', \\'k10\\': \"\"\"x\\ny\"\"\" )}  # tail\\ny = 2\\n'"
}
"""

import sys, tempfile
sys.path.insert(0, "/verif")
from bounded.b_gsu import one_case
msg = one_case(tempfile.mkdtemp(), *('dict', 'single', ("'s'", '((7) )'), (1,), {1: ['"""x\ny"""']}))
print(('dict', 'single', ("'s'", '((7) )'), (1,), {1: ['"""x\ny"""']}), "->", msg)
assert msg is None, msg

