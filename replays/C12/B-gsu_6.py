"""Replay file written by /verif/check.py
{
 "property": "C12",
 "standin": "B-gsu",
 "bound": "displays with <= 3 elements x 4 layouts x 4 kinds x delete subsets x 5 insert patterns (1500 sampled cases quick / all thorough) through the real apply_all + new_code",
 "input": "('dict', 'comment', ('1', '0+2', '\"\"\"a\\nb\"\"\"'), (0,), {3: ['8', '9']})",
 "detail": "result does not parse (invalid syntax): \"x = '\u00e4\u00f6'; v = {1: 0+2,  # c\\n    , 'k30': 8, 'k31': 9}  # tail\\ny = 2\\n\""
}
"""

import sys, tempfile
sys.path.insert(0, "/verif")
from bounded.b_gsu import one_case
msg = one_case(tempfile.mkdtemp(), *('dict', 'comment', ('1', '0+2', '"""a\nb"""'), (0,), {3: ['8', '9']}))
print(('dict', 'comment', ('1', '0+2', '"""a\nb"""'), (0,), {3: ['8', '9']}), "->", msg)
assert msg is None, msg

