"""Discharging obligations.

Every VC is serialised to SMT-LIB text and solved in a *fresh* z3 context (the shared python context
of z3 5.1 trips an internal assertion in its datatype rewriter on some of our terms; parsing the text
into a fresh context does not).  Order of back ends: z3 5.1 (python API, fresh context) -> cvc5 1.0.3
CLI -> z3 4.8.12 CLI.  Only `unsat` discharges.  A VC that is not discharged goes to the refute pass:
abstract sorts are replaced by finite enumerations (k = 2..4); `sat` there is a sound refutation
because every axiom is a universal formula.
"""
from __future__ import annotations

import os
import re
import subprocess
import tempfile
import time
from concurrent.futures import ProcessPoolExecutor

import z3

# The in-process z3 queries are bounded by z3's deterministic resource counter (rlimit), not by wall-clock time, so that a verdict
# does not flip when all cores are busy; the wall-clock timeout is only a generous safety net (about 1e6 rlimit units per second
# on an idle core of this sandbox).
Z3_RLIMIT = int(os.environ.get("PYVC_Z3_RLIMIT", "30000000"))
Z3_REFUTE_RLIMIT = int(os.environ.get("PYVC_Z3_REFUTE_RLIMIT", "25000000"))
Z3_TIMEOUT_MS = int(os.environ.get("PYVC_Z3_MS", "600000"))
CLI_TIMEOUT_S = int(os.environ.get("PYVC_CLI_S", "20"))


def _cli(cmd, text, timeout):
    with tempfile.NamedTemporaryFile("w", suffix=".smt2", delete=False) as f:
        f.write(text)
        path = f.name
    try:
        p = subprocess.run(cmd + [path], capture_output=True, text=True, timeout=timeout + 5)
        for line in (p.stdout or "").splitlines():
            line = line.strip()
            if line in ("sat", "unsat", "unknown", "timeout"):
                return line
        return "unknown"
    except subprocess.TimeoutExpired:
        return "unknown"
    finally:
        try:
            os.unlink(path)
        except OSError:
            pass


def finite_scope(smt2: str, k: int) -> str:
    def repl(m):
        s = m.group(1)
        ctors = " ".join(f"({s}!e{i})" for i in range(k))
        return f"(declare-datatypes (({s} 0)) (({ctors})))"

    return re.sub(r"\(declare-sort\s+([^\s()]+)\s+0\)", repl, smt2)


def model_text(m, limit=6000):
    try:
        parts = [f"{d.name()} = {m[d]}" for d in m.decls()]
        t = "\n".join(sorted(parts))
    except Exception as ex:  # pragma: no cover
        t = f"<model unavailable: {ex}>"
    return t[:limit]


def _fresh_check(text, timeout_ms, seed=0, rlimit=None):
    c = z3.Context()
    s = z3.Solver(ctx=c)
    s.set("timeout", timeout_ms)
    s.set("rlimit", rlimit if rlimit is not None else Z3_RLIMIT)
    if seed:
        s.set("random_seed", seed % 1000)
    s.from_string(text)
    t0 = time.time()
    r = s.check()
    ms = (time.time() - t0) * 1000
    res = str(r)
    mt = model_text(s.model()) if res == "sat" else None
    reason = s.reason_unknown() if res == "unknown" else ""
    if os.environ.get("PYVC_RLIMIT_LOG"):
        try:
            st = s.statistics()
            rl = next((st.get_key_value(k) for k in st.keys() if k == "rlimit count"), 0)
            with open(os.environ["PYVC_RLIMIT_LOG"], "a") as f:
                f.write(f"{res} {ms:.0f} {rl}\n")
        except Exception:
            pass
    return res, ms, mt, reason


def solve_text(args):
    """Worker: returns dict(status, backend, ms, model, detail)."""
    text, seed, refute = args[:3]
    cli = args[3] if len(args) > 3 else True
    if cli and "str.replace" in text:
        # string VCs with replace: z3's sequence solver burns its whole resource budget on them, cvc5 decides them in milliseconds
        t0 = time.time()
        out = _cli(["/usr/bin/cvc5", "--strings-exp", f"--tlimit={CLI_TIMEOUT_S * 1000}"], "(set-logic ALL)\n" + text, CLI_TIMEOUT_S)
        if out == "unsat":
            return dict(status="discharged", backend="cvc5-1.0.3", ms=(time.time() - t0) * 1000, model=None, detail="")
    try:
        res, ms, mt, reason = _fresh_check(text, Z3_TIMEOUT_MS, seed)
    except z3.Z3Exception as ex:
        res, ms, mt, reason = "unknown", 0.0, None, f"z3 exception {ex}"
    if res == "unsat":
        return dict(status="discharged", backend="z3-5.1", ms=ms, model=None, detail="")
    if res == "sat":
        return dict(status="refuted", backend="z3-5.1", ms=ms, model=mt, detail="")
    if not cli:
        return dict(status="unknown", backend="z3-5.1", ms=ms, model=None, detail=reason)
    t0 = time.time()
    if refute:
        for k in (2, 3):
            ft = finite_scope(text, k)
            if ft == text:
                break
            try:
                r2, ms2, mt2, _ = _fresh_check(ft, 60000, seed, Z3_REFUTE_RLIMIT)
            except z3.Z3Exception:
                break
            if r2 == "sat":
                return dict(status="refuted", backend=f"z3-5.1 finite-scope k={k}", ms=ms + ms2, model=mt2, detail="")
    out = _cli(["/usr/bin/cvc5", "--strings-exp", f"--tlimit={CLI_TIMEOUT_S * 1000}"], "(set-logic ALL)\n" + text, CLI_TIMEOUT_S)
    if out == "unsat":
        return dict(status="discharged", backend="cvc5-1.0.3", ms=ms + (time.time() - t0) * 1000, model=None, detail="")
    out = _cli(["/usr/bin/z3", f"-T:{CLI_TIMEOUT_S}"], text, CLI_TIMEOUT_S)
    if out == "unsat":
        return dict(status="discharged", backend="z3-4.8.12", ms=ms + (time.time() - t0) * 1000, model=None, detail="")
    if refute:
        for k in (4,):  # k = 2, 3 were tried above
            ft = finite_scope(text, k)
            if ft == text:
                break
            try:
                r2, ms2, mt2, _ = _fresh_check(ft, 60000, seed, Z3_REFUTE_RLIMIT)
            except z3.Z3Exception:
                break
            if r2 == "sat":
                return dict(status="refuted", backend=f"z3-5.1 finite-scope k={k}", ms=ms + ms2, model=mt2, detail="")
            if ft == text:
                break
    return dict(status="unknown", backend="z3-5.1,cvc5-1.0.3,z3-4.8.12", ms=ms + (time.time() - t0) * 1000, model=None, detail=reason)


MAX_UNDECIDED_PER_LABEL = int(os.environ.get("PYVC_MAX_UNDECIDED_PER_LABEL", "2"))


def discharge_all(obligations, axioms, seed=0, refute=True, jobs=None, pool=None, cli=True):
    todo = [o for o in obligations if o.status is None]
    if jobs == 1 and pool is None and len(todo) > 1:
        return _discharge_sequential(todo, obligations, axioms, seed, refute, cli)
    texts = [(o.smt2(axioms), seed, refute, cli) for o in todo]
    if not todo:
        return obligations
    jobs = jobs or min(16, os.cpu_count() or 4)
    # identical VCs (same assumptions and goal up to the names of fresh symbols on different paths) are solved once
    import re as _re

    def _norm(t):
        # alpha-renaming of the fresh symbols `hint!N` in order of first appearance (sound: a bijective renaming)
        seen = {}

        def r(m):
            k = m.group(0)
            if k not in seen:
                seen[k] = f"{m.group(1)}!#{len(seen)}"
            return seen[k]

        return _re.sub(r"([A-Za-z_][A-Za-z0-9_.\[\]]*)!([0-9]+)", r, t[0])

    uniq, index = {}, []
    for t in texts:
        k = _norm(t)
        if k not in uniq:
            uniq[k] = len(uniq)
        index.append(uniq[k])
    first = {}
    for t, i in zip(texts, index):
        first.setdefault(i, t)
    utexts = [first[i] for i in range(len(uniq))]
    if pool is not None:
        ures = list(pool.map(solve_text, utexts, chunksize=1))
    elif jobs == 1 or len(utexts) == 1:
        ures = [solve_text(t) for t in utexts]
    else:
        with ProcessPoolExecutor(max_workers=jobs) as ex:
            ures = list(ex.map(solve_text, utexts, chunksize=1))
    results = [ures[i] for i in index]
    for o, r in zip(todo, results):
        o.status, o.backend, o.ms, o.model, o.detail = r["status"], r["backend"], r["ms"], r["model"], r["detail"]
    return obligations


def _discharge_sequential(todo, obligations, axioms, seed, refute, cli):
    """One after the other with a memo for identical VCs; once an obligation label is undecided / refuted on
    MAX_UNDECIDED_PER_LABEL paths the remaining paths of the same label are not attempted (they stay `unknown`), because an
    undecided VC costs the full budget of all back ends."""
    import re as _re

    memo = {}
    bad = {}
    for o in todo:
        key = (o.kind, o.label)
        if bad.get(key, 0) >= MAX_UNDECIDED_PER_LABEL:
            o.status, o.backend, o.ms, o.model, o.detail = "unknown", "-", 0.0, None, "not attempted: the same obligation is already undecided or refuted on other paths"
            continue
        text = o.smt2(axioms)
        seen = {}

        def r(m):
            k = m.group(0)
            if k not in seen:
                seen[k] = f"{m.group(1)}!#{len(seen)}"
            return seen[k]

        nk = _re.sub(r"([A-Za-z_][A-Za-z0-9_.\\[\\]]*)!([0-9]+)", r, text)
        if nk not in memo:
            memo[nk] = solve_text((text, seed, refute, cli))
        res = memo[nk]
        o.status, o.backend, o.ms, o.model, o.detail = res["status"], res["backend"], res["ms"], res["model"], res["detail"]
        if o.status != "discharged":
            bad[key] = bad.get(key, 0) + 1
    return obligations


def discharge(ob, axioms, seed=0, refute=True):
    discharge_all([ob], axioms, seed, refute, jobs=1)
    return ob
