"""Replay file written by /verif/check.py
{
 "property": "C01",
 "failed_obligation": "_find_external.contains_import/post:true-iff-a-module-level-import-exists",
 "path": 1,
 "function": "inline_snapshot._find_external.contains_import",
 "verdict": "refuted",
 "backend": "z3-5.1",
 "solver_model": "Alias_name = [else -> \"!1!\"]\nStmt_module = [else -> \"!0!\"]\nStmt_names = [else -> mk_List_Alias(K(Int, Alias!val!0), 7720)]\nisinst_ImportFrom = [else -> True]\nmodule!2 = \"!0!\"\nname!3 = \"!1!\"\ntree.body!1 = mk_List_Stmt(K(Int, Stmt!val!0), 1)",
 "where": ""
}
"""

print('no native failing input was found for this obligation; see the header for the solver output')
