"""B-nest: the usage classes C18 names, on the real pipeline (Example.run_inline in worker processes).

C18: "For any test module within the documented usage - failing comparisons, exceptions raised inside tests, nested snapshots
whose parent is replaced or which are reached only while aligning a list, comparisons that raise - collecting, reporting and
applying changes finishes without an internal error, and the edits computed for one file never overlap."

Generated programs (bound below): one outer snapshot holding an inner snapshot (inline `snapshot(..)` or a name bound to one) at
every position of a list / tuple / dict / nested list among 0..2 managed siblings, compared with observed values obtained from
the recorded value by: nothing, changing the inner part, changing a sibling, deleting / inserting an element at every position,
permuting, replacing the whole value by another type; plus tests that raise before / after the comparison and comparisons whose
__eq__ / __le__ raises.  Oracle: run_inline returns (no exception escapes the collection / apply / write phase - an overlap of
edits is the assertion of SourceFile._check) and every resulting file parses.

Nothing of the pipeline is re-implemented; failures carry the traceback of the real code."""
from __future__ import annotations

import ast
import itertools
import random
import time
import traceback

from bounded import standin

HDR = "from inline_snapshot import snapshot\n\n\n"
FLAGSETS = ["fix", "create,fix", "fix,update", "create,fix,trim,update", "create", "update", "trim", "report", ""]


def _display(kind, items):
    if kind == "list":
        return "[" + ", ".join(items) + "]"
    if kind == "tuple":
        return "(" + ", ".join(items) + ("," if len(items) == 1 else "") + ")"
    if kind == "dict":
        return "{" + ", ".join(f'"k{i}": {t}' for i, t in enumerate(items)) + "}"
    if kind == "nested":
        return "[[" + ", ".join(items) + "], 9]"
    raise ValueError(kind)


def _value(kind, vals, keys=None):
    if kind == "list":
        return "[" + ", ".join(vals) + "]"
    if kind == "tuple":
        return "(" + ", ".join(vals) + ("," if len(vals) == 1 else "") + ")"
    if kind == "dict":
        keys = keys if keys is not None else [f"k{i}" for i in range(len(vals))]
        return "{" + ", ".join(f'"{k}": {v}' for k, v in zip(keys, vals)) + "}"
    if kind == "nested":
        return "[[" + ", ".join(vals) + "], 9]"
    raise ValueError(kind)


def nested_cases(tier, rng):
    cases = []
    inners = [("2", "2", "7"), ("", None, "7"), ("[1]", "[1]", "[1, 2]"), ("0+2", "2", "7")]  # (inner source text, recorded value, a different observed value)
    sibs_variants = [[], ["1"], ["1", "3"]]
    for kind in ["list", "tuple", "dict", "nested"]:
        for inner_src, inner_val, inner_other in inners:
            for sibs in sibs_variants:
                for pos in range(len(sibs) + 1):
                    for style in ["inline", "name"]:
                        items = list(sibs)
                        items.insert(pos, f"snapshot({inner_src})" if style == "inline" else "inner")
                        setup = "" if style == "inline" else f"inner = snapshot({inner_src})\n\n\n"
                        old = _display(kind, items)
                        base_vals = list(sibs)
                        base_vals.insert(pos, inner_val if inner_val is not None else inner_other)
                        n = len(base_vals)
                        obs = [("same", _value(kind, base_vals))]
                        v = list(base_vals)
                        v[pos] = inner_other
                        obs.append(("inner-differs", _value(kind, v)))
                        for q in range(n):
                            if q != pos:
                                v = list(base_vals)
                                v[q] = "8"
                                obs.append((f"sibling{q}-differs", _value(kind, v)))
                                v[pos] = inner_other
                                obs.append((f"sibling{q}-and-inner-differ", _value(kind, v)))
                        for q in range(n):
                            v = base_vals[:q] + base_vals[q + 1:]
                            keys = [f"k{i}" for i in range(n) if i != q]
                            obs.append((f"delete{q}" + ("-inner" if q == pos else ""), _value(kind, v, keys)))
                            if q != pos:
                                v2 = list(base_vals)
                                v2[pos] = inner_other
                                v2 = v2[:q] + v2[q + 1:]
                                obs.append((f"delete{q}-inner-differs", _value(kind, v2, keys)))
                        for q in range(n + 1):
                            v = base_vals[:q] + ["6"] + base_vals[q:]
                            keys = [f"k{i}" for i in range(n)]
                            keys.insert(q, "new")
                            obs.append((f"insert{q}", _value(kind, v, keys)))
                            v2 = list(base_vals)
                            v2[pos] = inner_other
                            v2 = v2[:q] + ["6"] + v2[q:]
                            obs.append((f"insert{q}-inner-differs", _value(kind, v2, keys)))
                        if n >= 2:
                            obs.append(("reversed", _value(kind, base_vals[::-1], [f"k{i}" for i in range(n)][::-1])))
                            v = list(base_vals)
                            v[pos] = inner_other
                            obs.append(("reversed-inner-differs", _value(kind, v[::-1], [f"k{i}" for i in range(n)][::-1])))
                        obs += [("other-type-int", "5"), ("other-type-str", '"x"'), ("other-type-container", "{1: 2}" if kind != "dict" else "[1, 2]"), ("empty", _value(kind, []))]
                        for oname, new in obs:
                            if tier == "thorough":
                                fls = FLAGSETS
                            else:
                                fls = ["fix", "create,fix,trim,update"] if style == "inline" else [rng.choice(FLAGSETS[:4])]
                            for fl in fls:
                                src = HDR + setup + f"def test_a():\n    assert {new} == snapshot({old})\n"
                                cases.append(dict(group="nested", name=f"{kind}/{style}/inner={inner_src or 'empty'}/sibs={len(sibs)}/pos{pos}/{oname}", src=src, flags=fl,
                                                  pos=pos, obs=oname, inner=inner_src, kind=kind, style=style))
    # the same inner snapshot compared twice / an outer snapshot evaluated in a loop
    for fl in FLAGSETS if tier == "thorough" else ["fix", "create,fix,trim,update"]:
        for new in ["[1, 2]", "[7, 2]", "[2]", "[1, 2, 3]", "5"]:
            cases.append(dict(group="nested", name=f"loop/{new}", flags=fl, pos=0, obs="loop", inner="1", kind="list", style="inline",
                              src=HDR + f"def test_a():\n    for _ in range(2):\n        assert {new} == snapshot([snapshot(1), 2])\n"))
    return cases


RAISING = '''
class Boom:
    def __eq__(self, other):
        raise ValueError("boom")

    def __le__(self, other):
        raise ValueError("boom")

    def __ge__(self, other):
        raise ValueError("boom")

    def __repr__(self):
        return "Boom()"


class Never:
    def __eq__(self, other):
        return False

    def __repr__(self):
        return "Never()"


'''


def failing_cases(tier, rng):
    bodies = {
        "fails-then-more": "    assert 1 == snapshot(2)\n    assert 3 == snapshot(4)\n",
        "raise-after-comparison": "    assert 1 == snapshot(2)\n    raise ValueError('x')\n",
        "raise-before-comparison": "    if True:\n        raise ValueError('x')\n    assert 1 == snapshot(2)\n",
        "raise-between": "    assert 1 == snapshot()\n    raise ValueError('x')\n    assert 2 == snapshot()\n",
        "eq-raises": "    assert Boom() == snapshot(2)\n",
        "eq-raises-empty": "    assert Boom() == snapshot()\n",
        "eq-raises-in-list": "    assert [1, Boom(), 3] == snapshot([1, 2, 4])\n",
        "eq-raises-in-dict": "    assert {'a': Boom(), 'b': 1} == snapshot({'a': 2, 'b': 2})\n",
        "le-raises": "    assert Boom() <= snapshot(2)\n",
        "ge-raises-empty": "    assert Boom() >= snapshot()\n",
        "le-incomparable": "    assert 'x' <= snapshot(2)\n",
        "ge-incomparable-list": "    assert [1] >= snapshot(3)\n",
        "in-raises": "    assert Boom() in snapshot([1, 2])\n",
        "in-unhashable": "    assert [1] in snapshot([[2]])\n",
        "getitem-fails": "    assert 1 == snapshot({'a': 2})['a']\n    assert 2 == snapshot({'a': 2})['b']\n",
        "getitem-raises-after": "    s = snapshot({'a': 1})\n    assert 2 == s['a']\n    raise KeyError('x')\n",
        "snapshot-first-ge-raises": "    assert snapshot(2) >= Boom()\n",
        "snapshot-first-le-raises-empty": "    assert snapshot() <= Boom()\n",
        "snapshot-first-eq-raises": "    assert snapshot([1, 2]) == [1, Boom()]\n",
        "snapshot-first-ge-incomparable": "    assert snapshot(2) >= 'x'\n",
        "ge-then-incomparable": "    s = snapshot(2)\n    assert 1 <= s\n    assert 'x' <= s\n",
        "ge-incomparable-then-ok": "    s = snapshot(2)\n    try:\n        assert 'x' <= s\n    except TypeError:\n        pass\n    assert 3 <= s\n",
        "ge-empty-incomparable-second": "    s = snapshot()\n    assert 1 <= s\n    assert 'x' <= s\n",
        "in-raises-empty": "    assert Boom() in snapshot()\n",
        "in-raises-second": "    s = snapshot([1])\n    assert 1 in s\n    assert Boom() in s\n",
        "in-raises-caught-then-ok": "    s = snapshot([1])\n    try:\n        assert Boom() in s\n    except ValueError:\n        pass\n    assert 2 in s\n",
        "getitem-unhashable": "    assert 1 == snapshot({'a': 1})[[1]]\n",
        "never-equal": "    assert Never() == snapshot(2)\n",
        "never-equal-in-list": "    assert [Never(), 1] == snapshot([2, 3])\n",
        "mixed-ops": "    s = snapshot(2)\n    assert 1 == s\n    assert 1 <= s\n",
        "mixed-ops-empty": "    s = snapshot()\n    assert 1 <= s\n    assert 1 == s\n",
        "compare-in-except": "    try:\n        raise ValueError('v')\n    except ValueError as e:\n        assert str(e) == snapshot('w')\n        raise\n",
        "two-tests-one-raises": "    assert 1 == snapshot(2)\n\n\ndef test_b():\n    raise RuntimeError('x')\n\n\ndef test_c():\n    assert [1] == snapshot([2, 3])\n",
        # well-behaved tests with several categories pending on the same container (an element that is both to be trimmed / deleted
        # and written non-canonically must get one edit, not two overlapping ones)
        "in-unused-noncanonical": "    assert 1 in snapshot([1, 0x10])\n",
        "in-unused-noncanonical-first": "    assert 3 in snapshot([0x10, 0x3, 2])\n",
        "le-noncanonical-slack": "    assert 1 <= snapshot(0x10)\n",
        "getitem-unused-noncanonical": "    s = snapshot({'a': 0x1, 'b': 0x2})\n    assert s['a'] == 1\n",
        "eq-list-delete-noncanonical": "    assert [1] == snapshot([0x1, 0x2])\n",
        "eq-dict-delete-noncanonical": "    assert {'a': 1} == snapshot({'a': 0x1, 'b': 0x2})\n",
        "exception-in-value-repr": "    class R:\n        def __repr__(self):\n            raise ValueError('repr')\n        def __eq__(self, o):\n            return isinstance(o, R)\n    assert R() == snapshot()\n",
    }
    cases = []
    for name, body in bodies.items():
        for fl in FLAGSETS if tier == "thorough" else ["fix", "create,fix,trim,update", "report"]:
            cases.append(dict(group="failing", name=name, src=HDR + RAISING + "def test_a():\n" + body, flags=fl))
    return cases


def eval_case(case):
    from bounded import _rl_driver as D

    out = D.run_case({"test_something.py": case["src"]}, case["flags"])
    if out["error"] is not None:
        err = out["error"]
        usage = "UsageError" in err.splitlines()[-1] if err.strip() else False
        overlap = "_check" in err and "lhs.range.end <= rhs.range.start" in err
        return dict(status="fail", overlap=overlap, usage=usage, detail=("edits overlap (SourceFile._check): " if overlap else "internal error: ") + err[-1500:])
    for fn, txt in (out["files"] or {}).items():
        if fn.endswith(".py"):
            try:
                ast.parse(txt)
            except SyntaxError as ex:
                return dict(status="fail", overlap=False, usage=False, detail=f"{fn} does not parse after the run: {ex}\n{txt}")
    return dict(status="ok")


def f24(case, out):
    """F24 (known finding): an inner snapshot with a pending change of its own sits in a part of the outer snapshot's argument that
    the outer snapshot deletes or replaces in the same run: both edits are emitted and overlap."""
    return case.get("group") == "nested" and out.get("overlap")


REPLAY = '''import sys
sys.path.insert(0, "/verif")
from bounded import _rl_driver as D
src = {src!r}
out = D.run_case({{"test_something.py": src}}, {flags!r})
print(out["error"] or "no internal error")
assert out["error"] is None, "internal error while collecting / applying the changes (C18)"
import ast
for fn, txt in out["files"].items():
    if fn.endswith(".py"):
        ast.parse(txt)
'''


@standin("B-nest", props=["C18"],
         bound="generated single-test modules: inner snapshot (3 shapes, inline or by name) at every position of list/tuple/dict/nested list "
               "among 0..2 siblings x ~20 observed-value transformations x 2 (quick) / 9 (thorough) flag sets; 34 failing / raising "
               "test bodies x 3 / 9 flag sets; real Example.run_inline")
def run(tier, seed):
    from bounded import _rl_driver as D

    t0 = time.time()
    rng = random.Random(seed * 7919 + 18)
    res = dict(evaluated=0, distinct=0, failures=[], samples=[], notes=[], cross_checks=[])
    try:
        cases = nested_cases(tier, rng) + failing_cases(tier, rng)
        if tier == "quick":
            nested = [c for c in cases if c["group"] == "nested"]
            rest = [c for c in cases if c["group"] != "nested"]
            rng.shuffle(nested)
            cases = nested[:1500] + rest
        deadline = t0 + (240 if tier == "quick" else 1300)
        results, not_run = D.pool_run(eval_case, cases, 12, deadline)
        if not_run:
            res["notes"].append(f"{not_run} generated cases not run (deadline)")
        per = {}
        for case, out in results:
            res["evaluated"] += 1
            if "_harness_error" in out:
                res["failures"].append(dict(finding=None, input=case["name"], detail="HARNESS ERROR (not a defect of /repo): " + str(out["_harness_error"]), replay_code=""))
                continue
            if out["status"] == "ok":
                continue
            fid = "F24" if f24(case, out) else None
            per[fid] = per.get(fid, 0) + 1
            if per[fid] <= (5 if fid else 20):
                res["failures"].append(dict(finding=fid, input=dict(group=case["group"], name=case["name"], flags=case["flags"], source=case["src"]),
                                            detail=out["detail"], replay_code=REPLAY.format(src=case["src"], flags=case["flags"])))
        res["distinct"] = len({c["src"] + "|" + c["flags"] for c, _ in results})
        res["failure_counts"] = {str(k): v for k, v in per.items()}
        res["samples"] = [dict(name=c["name"], flags=c["flags"]) for c, _ in rng.sample(results, min(5, len(results)))]
    except Exception:
        res["failures"].append(dict(finding=None, input="<stand-in driver>", detail="HARNESS ERROR: " + traceback.format_exc()[-3000:], replay_code=""))
    res["passed"] = not res["failures"]
    res["seconds"] = round(time.time() - t0, 1)
    return res
