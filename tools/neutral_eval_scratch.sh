#!/bin/sh
# usage: neutral_scratch.sh <neutral-dir>: all 20 quick checks against HEAD + the behaviour-preserving patch (scratch export)
D=$1; N=$(basename $D)
S=/tmp/ne_$N; rm -rf $S; mkdir -p $S; (cd /repo && git archive HEAD src | tar -x -C $S)
(cd $S && patch -p1 -s < $D/patch.diff) || { echo "$N PATCHFAIL"; rm -rf $S; exit 8; }
cd /verif
R=""
for P in C01 C02 C03 C04 C05 C06 C07 C08 C09 C10 C11 C12 C13 C14 C15 C16 C17 C18 C19 C20; do
  VERIF_OUT_DIR=$S/out PYTHONPATH=$S/src VERIF_REPO=$S timeout 1800 ./check.py $P > /tmp/ne_${N}_$P.out 2>&1; E=$?
  R="$R $P=$E"
done
echo "$N$R"
grep -h "^VIOLATION\|^CHECKER-FAULT" /tmp/ne_${N}_C*.out | cut -c1-260 | sort | uniq -c | head -8
rm -rf $S
